"""directed images: the witnesses of the findings and the layouts the native engine special-cases"""
from __future__ import annotations

import tempfile
from pathlib import Path
from typing import List, Tuple

from bounded import differential as D
from bounded import engines as E
from vc.common import Report, Violation

P = 1 << 14


def cases() -> List[Tuple[str, E.Image, bytes]]:
    out = []
    for w in (16, 32, 64):
        # F1: hot-lane op whose flip refills its own cache slot with another page; jump word is out of segment
        if w >= 32:
            out.append((f'F1-w{w}', E.Image(w, [(0, 98, [4 * w, 97 * w] + [0] * 95 + [(16 * P + 10) * w]), (16 * P, P, [0, 0])]), b''))
        # an op on the last word of a segment (its jump word lies in the gap behind it), gap inside the flat span
        out.append((f'last-word-op-w{w}', E.Image(w, [(0, 8, [4 * w, 7 * w, 0, 0, 0, 0, 0, 4 * w + 3]), (10, 4, [0, 0, 0, 0])]), b''))
        # two segments with preloaded data in one page
        out.append((f'two-segments-one-page-w{w}', E.Image(w, [(0, 16, [2 * w + 1, 32 * w]), (32, 16, [2 * w, 34 * w, 2 * w + 1, 34 * w])]), b''))
        # op straddling a page boundary (flip word = last word of page 0)
        if (1 << w) // w > P + 8:
            out.append((f'page-straddle-w{w}', E.Image(w, [(0, 4, [4 * w, (P - 1) * w]), (P - 2, 6, [0, 0, 2 * w + 1, 2 * w * 1, 0, (P - 1) * w])]), b''))
        # output + input in one op at end of input
        out.append((f'io-op-eof-w{w}', E.Image(w, [(0, 8, [4 * w, 2 * w, 2 * w, 4 * w, 0, 4 * w])]), b''))
        out.append((f'io-op-input-w{w}', E.Image(w, [(0, 8, [4 * w, 2 * w, 2 * w + 1, 4 * w, 0, 4 * w])]), b'\x01'))
        # unaligned ip
        out.append((f'unaligned-w{w}', E.Image(w, [(0, 12, [6 * w, 2 * w + 3, 0, 0, 0, 0, 0, 0, 0, 0, 0, 0])]), b''))
    # w = 64: a word equal to the flat fill constant, in and out of segments
    magic = 0xBB67AE8584CAA73B
    for w in (16, 32, 64):
        # F15: overlapping segments (accepted by the reader): word 200 lies only in the wide range [120,300), which a
        # binary search over ranges sorted by start does not find behind the narrow ones
        ov = E.Image(w, [(0, 100, [200 * w, 6 * w, 0, 0, 0, 0, 200 * w + 1, 6 * w]), (120, 180, []), (130, 10, []), (150, 10, []), (170, 10, [])])
        ov.overlapping = True  # type: ignore[attr-defined]
        out.append((f'overlapping-segments-w{w}', ov, b''))
    out.append(('w64-magic-data', E.Image(64, [(0, 8, [3 * 64, 2 * 64, magic, 4 * 64 + 1, 0, 4 * 64]), (12, 2, [magic, magic])]), b''))
    return out


def f2_case() -> Tuple[str, E.Image, bytes]:
    w = 64
    top = (1 << 58) - 2
    return ('F2-w64-top', E.Image(w, [(0, 6, [4 * w, (1 << 64) - 64, 0, 0, 0, 0]), (top, 2, [4 * w + 1, 0])]), b'')


def run(rep: Report) -> None:
    evals = 0
    with tempfile.TemporaryDirectory() as td:
        for name, img, inp in cases() + [f2_case()]:
            for ring in (None, 3):
                spec, diffs = D.one_image(img, inp, Path(td), name, max_ops=200, ring=ring)
                if spec is None:
                    continue
                evals += 1
                for why, obs, key in diffs:
                    rep.violation(Violation('bounded:directed.engine_equals_machine_definition', f'{name}: {obs["engine"]}: {why}', dict(case=name, image=img.describe(), input=inp.hex(), last_ops=ring, engine=obs['engine'], observed={k: v for k, v in obs.items() if k != 'memory'}), True, key=key + (':F2' if name.startswith('F2') else '')))
    rep.add_bounded('directed images (finding witnesses, page/segment/window edges, fill constant, IO corner ops)', f'{len(cases()) + 1} images x ring in (None, 3) x all engine configurations', evals, evals)
