"""
Bounded execution of standard-library macro contracts on the REAL assembled code (C04, C05, C08, C09).

One harness per macro application: the program

    stl.startup_and_init_all
    again:  <the macro applied to labelled variables>
            ;done
    exit labels (for jumping macros):  lK: ;done
    done:   stl.loop
    <variables>

is assembled ONCE by the real assembler with the real library; addresses come from the real debug-label table;
the image is loaded by the real reader and run on the executable machine definition (spec.machine.Machine, the
oracle of C01).  For each operand tuple the data bits of the variables are poked, the machine is resumed at
`again` IN THE STATE THE PREVIOUS EXECUTION LEFT (tables, carries, private cells of the macro instance), run until
it halts at `done`, and the contract is evaluated: destination values, exit taken, output bytes, and the
whole-memory frame (every word other than the destinations' data bits is bit-identical before and after).
"""
from __future__ import annotations

import collections
import contextlib
import importlib
import io
import itertools
import random
import tempfile
import zlib
from dataclasses import dataclass, field
from pathlib import Path
from typing import Any, Callable, Dict, List, Optional, Sequence, Tuple

from spec.machine import Machine
from vc.common import Report, Violation


@dataclass
class Var:
    kind: str  # 'hex' | 'bit'
    n: int  # number of cells
    role: str = 'inout'  # 'in' (must be unchanged) | 'inout' | 'out'


@dataclass
class MacroContract:
    """call: the macro application text using the variable names and exit labels (l0, l1, ...) and {n}-style
    parameters already substituted.  post(vals) -> dict of expected values for the variables that change
    (others must stay); exit_(vals) -> expected exit label name or None (falls through);
    output(vals) -> expected output bytes (None: no output); input_(vals) -> input bytes fed to the run."""

    name: str
    call: str
    vars: Dict[str, Var]
    post: Callable[[Dict[str, int]], Dict[str, int]]
    exits: Tuple[str, ...] = ()
    exit_: Optional[Callable[[Dict[str, int]], Optional[str]]] = None
    output: Optional[Callable[[Dict[str, int]], bytes]] = None
    input_: Optional[Callable[[Dict[str, int]], bytes]] = None
    requires: Optional[Callable[[Dict[str, int]], bool]] = None  # operand tuples the documentation excludes
    widths: Tuple[int, ...] = (64, 32)
    doc: str = ''  # the documentation line the contract was written from
    extra_decl: str = ''  # extra source lines (helper variables, buffers)
    frame_exempt: Tuple[str, ...] = ()  # labels of cells documented as scratch (rare)
    domain: Optional[Callable[[random.Random], Sequence[Dict[str, int]]]] = None  # custom operand tuples
    max_ops: int = 3_000_000


class Harness:
    def __init__(self, c: MacroContract, w: int, td: Path):
        self.c, self.w = c, w
        lines = ['stl.startup_and_init_all', 'again:', '  ' + c.call, '  ;done']
        for k in c.exits:
            lines += [f'{k}:', '  ;done']
        lines += ['done:', '  stl.loop']
        for nm, v in c.vars.items():
            lines.append(f'{nm}: {"hex" if v.kind == "hex" else "bit"}.vec {v.n}')
        if c.extra_decl:
            lines.append(c.extra_decl)
        self.source = '\n'.join(lines) + '\n'
        flipjump = importlib.import_module('flipjump')
        R = importlib.import_module('flipjump.fjm.fjm_reader')
        U = importlib.import_module('flipjump.utils.functions')
        src = td / 'h.fj'
        src.write_text(self.source)
        out, dbg = td / 'h.fjm', td / 'h.fjd'
        with contextlib.redirect_stdout(io.StringIO()):
            flipjump.assemble([src], out, memory_width=w, debugging_file_path=dbg, print_time=False, warning_as_errors=False)
        rd = R.Reader(out)
        self.labels = U.load_debugging_labels(dbg)
        words = dict(rd.memory)
        segs = [(s.segment_start, s.segment_length) for s in rd.memory_segments]
        self.m = Machine(w, segs, words)
        self.addr = {nm: self._label(nm) for nm in list(c.vars) + ['again', 'done'] + list(c.exits)}
        self.out_bits: List[bool] = []
        self.inp_bits: List[bool] = []
        self.dbit = w.bit_length()
        self.m.last = collections.deque(maxlen=8)
        # run the startup code until `again`
        self._run_until({self.addr['again']}, 5_000_000)

    def _label(self, nm: str) -> int:
        if nm in self.labels:
            return self.labels[nm]  # a top-level label of the harness program (macro-local labels carry a prefix)
        for k, v in self.labels.items():
            if k.endswith('---' + nm):
                return v
        raise KeyError(nm)

    def _rd(self) -> Optional[bool]:
        return self.inp_bits.pop(0) if self.inp_bits else None

    def _run_until(self, stops: set, budget: int) -> Optional[tuple]:
        m = self.m
        for _ in range(budget):
            if m.ip in stops:
                return None
            r = m.step(self._rd, self.out_bits.append)
            if r is not None:
                return r
        return ('budget', m.n, None)

    # ---- variables
    def cell_word(self, nm: str, i: int) -> int:
        return (self.addr[nm] + i * 2 * self.w) // self.w + 1

    def read(self, nm: str) -> int:
        v = self.c.vars[nm]
        bits = 4 if v.kind == 'hex' else 1
        val = 0
        for i in range(v.n):
            val |= ((self.m.mem.get(self.cell_word(nm, i), 0) >> self.dbit) & ((1 << bits) - 1)) << (i * bits)
        return val

    def poke(self, nm: str, value: int) -> None:
        v = self.c.vars[nm]
        bits = 4 if v.kind == 'hex' else 1
        for i in range(v.n):
            a = self.cell_word(nm, i)
            cur = self.m.mem.get(a, 0)
            cell = (value >> (i * bits)) & ((1 << bits) - 1)
            self.m.mem[a] = (cur & ~(((1 << bits) - 1) << self.dbit)) | (cell << self.dbit)

    def var_words(self) -> Dict[int, int]:
        """word -> mask of the data bits that belong to variables allowed to change"""
        out: Dict[int, int] = {}
        for nm, v in self.c.vars.items():
            bits = 4 if v.kind == 'hex' else 1
            for i in range(v.n):
                out[self.cell_word(nm, i)] = ((1 << bits) - 1) << self.dbit
        return out

    def run_once(self, vals: Dict[str, int]) -> Dict[str, Any]:
        c, m = self.c, self.m
        for nm, x in vals.items():
            self.poke(nm, x)
        self.out_bits = []
        inp = c.input_(vals) if c.input_ else b''
        self.inp_bits = [bool((inp[i // 8] >> (i % 8)) & 1) for i in range(8 * len(inp))]
        before = dict(m.mem)
        m.ip = self.addr['again']
        visited_exit = None
        stops = {self.addr[k] for k in c.exits}
        n0 = m.n
        res = None
        for _ in range(c.max_ops):
            if m.ip in stops and visited_exit is None:
                visited_exit = next(k for k in c.exits if self.addr[k] == m.ip)
            res = m.step(self._rd, self.out_bits.append)
            if res is not None:
                break
        got = {nm: self.read(nm) for nm in c.vars}
        ok_halt = res is not None and res[0] == 'looping' and m.ip == self.addr['done']
        # frame: everything but the variables' data bits
        vw = self.var_words()
        in_addr_word = (3 * self.w + self.w.bit_length()) // self.w
        changed = []
        for a in set(before) | set(m.mem):
            b0, b1 = before.get(a, 0), m.mem.get(a, 0)
            if b0 != b1:
                mask = vw.get(a, 0)
                if a == 0:
                    mask |= 1  # `;x` is `0;x`: bit 0 of word 0 is the language's own scratch bit
                if a == 2 and c.output is not None:
                    mask |= 3  # bits 2w and 2w+1: the output flips themselves (the IO op's flip word)
                if (b0 ^ b1) & ~mask:
                    if a == in_addr_word and c.input_ is not None:
                        continue  # the machine's own input bit
                    changed.append(a)
        out_bytes = bytes(sum((1 << j) for j in range(8) if self.out_bits[i + j]) for i in range(0, len(self.out_bits) - len(self.out_bits) % 8, 8))
        return dict(values=got, exit=visited_exit, halted=ok_halt, result=res, ops=m.n - n0, frame_broken=sorted(changed)[:4], output=out_bytes, out_bits=len(self.out_bits), input_left=len(self.inp_bits))


def default_domain(c: MacroContract, rng: random.Random, tier: str) -> List[Dict[str, int]]:
    names = [nm for nm, v in c.vars.items() if v.role != 'out']
    sizes = [(16 ** c.vars[nm].n if c.vars[nm].kind == 'hex' else 2 ** c.vars[nm].n) for nm in names]
    total = 1
    for s in sizes:
        total *= s
    limit = 400 if tier != 'thorough' else 6000
    tuples: List[Dict[str, int]] = []
    if total <= limit:
        for combo in itertools.product(*[range(s) for s in sizes]):
            tuples.append(dict(zip(names, combo)))
        rng.shuffle(tuples)  # the ORDER matters: state leaks show between consecutive executions
    else:
        corners = [[0, 1, s - 1, s // 2, s // 2 - 1] for s in sizes]
        for combo in itertools.product(*corners):
            tuples.append(dict(zip(names, [x % s for x, s in zip(combo, sizes)])))
        while len(tuples) < limit:
            tuples.append({nm: rng.randrange(s) for nm, s in zip(names, sizes)})
        rng.shuffle(tuples)
    for t in tuples:
        for nm, v in c.vars.items():
            if v.role == 'out':
                t[nm] = rng.randrange(16 ** v.n if v.kind == 'hex' else 2 ** v.n)
    return tuples


def check_contract(rep: Report, c: MacroContract, tier: str, seed: int, prop: str) -> Tuple[int, int]:
    """returns (executions, distinct operand tuples)"""
    rng = random.Random(zlib.crc32(f'{c.name}|{c.call}|{seed}'.encode()))  # (not hash(): salted per process)
    evals = 0
    distinct = set()
    for w in c.widths if tier == 'thorough' else c.widths[:1]:
        with tempfile.TemporaryDirectory() as tds:
            try:
                h = Harness(c, w, Path(tds))
            except Exception as e:
                rep.violation(Violation(f'bounded:{c.name}.harness_assembles', f'{c.call} (w={w}): the harness program does not assemble: {type(e).__name__}: {str(e)[:200]}', dict(call=c.call, w=w), True, key=f'{c.name}:assemble'))
                return evals, len(distinct)
            tuples = list(c.domain(rng)) if c.domain else default_domain(c, rng, tier)
            for vals in tuples:
                if c.requires and not c.requires(vals):
                    continue
                r = h.run_once(vals)
                evals += 1
                distinct.add((w, tuple(sorted(vals.items()))))
                want = dict(vals)
                want.update(c.post(vals))
                why = None
                if not r['halted']:
                    why = f'did not come back to `done` ({r["result"]}, {r["ops"]} ops)'
                else:
                    for nm, v in c.vars.items():
                        bits = (4 if v.kind == 'hex' else 1) * v.n
                        if r['values'][nm] != want[nm] % (1 << bits):
                            why = f'{nm} = {r["values"][nm]:#x}, documented: {want[nm] % (1 << bits):#x}'
                            break
                    if why is None and c.exit_ is not None and r['exit'] != c.exit_(vals):
                        why = f'took exit {r["exit"]}, documented: {c.exit_(vals)}'
                    if why is None and c.exit_ is None and c.exits and r['exit'] is not None:
                        why = f'took exit {r["exit"]} although none is documented'
                    if why is None and r['frame_broken']:
                        names = [k for k, a in h.labels.items() if any(a // w <= x <= a // w + 1 for x in r['frame_broken'])][:2]
                        why = f'changed memory outside its destinations: words {r["frame_broken"]} {names}'
                    if why is None:
                        wo = c.output(vals) if c.output else b''
                        if r['output'] != wo or r['out_bits'] % 8:
                            why = f'output {r["output"]!r} ({r["out_bits"]} bits), documented: {wo!r}'
                    if why is None and c.input_ is not None and r['input_left']:
                        pass
                if why:
                    rep.violation(Violation(f'bounded:{c.name}.contract', f'{c.call} (w={w}) on {vals}: {why}   [doc: {c.doc}]', dict(call=c.call, w=w, operands=vals, source=h.source, executions_before=evals - 1), True, key=f'{c.name}:{why.split(" ")[0]}'))
                    return evals, len(distinct)
    return evals, len(distinct)


def run_contracts(rep: Report, contracts: List[MacroContract], tier: str, seed: int, prop: str, procs: int = 16) -> None:
    import multiprocessing as mp

    global _JOBS
    jobs = [(c, tier, seed, prop) for c in contracts]
    _JOBS = jobs  # contracts hold lambdas: the forked workers read them from here, only indices are pickled
    ctx = mp.get_context('fork')
    with ctx.Pool(max(1, min(procs, len(jobs)))) as pool:
        results = pool.map(_one, range(len(jobs)), chunksize=1)
    evals = distinct = 0
    for (c, *_), (ev, di, viols) in zip(jobs, results):
        evals += ev
        distinct += di
        for v in viols:
            rep.violation(v)
    rep.add_bounded(f'{prop}: macro contracts executed on the real assembled library (machine definition as the engine)', f'{len(contracts)} macro applications; operand tuples exhaustive where <= {400 if tier != "thorough" else 6000} (shuffled order, consecutive executions on ONE assembled instance so that leaked state shows), corners + random beyond; widths {sorted({w for c in contracts for w in (c.widths if tier == "thorough" else c.widths[:1])})}', evals, distinct)
    rep.extra['macros_under_contract'] = sorted({c.name for c in contracts})


_JOBS: list = []


def _one(idx):
    c, tier, seed, prop = _JOBS[idx]
    rep = Report(prop, 'quick', seed, 'exploration', '')
    try:
        ev, di = check_contract(rep, c, tier, seed, prop)
    except Exception as e:  # a crash of the harness itself is reported as such
        import traceback

        rep.violation(Violation(f'bounded:{c.name}.harness', f'{c.call}: harness error {type(e).__name__}: {e}', dict(call=c.call, trace=traceback.format_exc()[-600:]), False, key=f'{c.name}:harness'))
        ev = di = 0
    return ev, di, rep.violations


def compose(parts: Sequence[MacroContract], name: Optional[str] = None) -> MacroContract:
    """The sequential composition of non-jumping macro applications on SHARED variables (same names = same cells):
    one assembled program runs them back to back, the contract is the composition of the contracts.  This is what
    shows state leaking from one macro into the NEXT one (a carry or a table result left set)."""
    assert all(not p.exits and p.input_ is None for p in parts)
    vars_: Dict[str, Var] = {}
    for p in parts:
        for nm, v in p.vars.items():
            if nm in vars_:
                assert (vars_[nm].kind, vars_[nm].n) == (v.kind, v.n), f'{nm}: shapes differ'
                if v.role != 'in':
                    vars_[nm] = Var(v.kind, v.n, 'inout')
            else:
                vars_[nm] = Var(v.kind, v.n, 'inout' if v.role == 'out' else v.role)

    def _bits(nm: str) -> int:
        return (4 if vars_[nm].kind == 'hex' else 1) * vars_[nm].n

    def walk(vals: Dict[str, int]):
        cur = dict(vals)
        outs = b''
        for p in parts:
            sub = {nm: cur[nm] for nm in p.vars}
            if p.requires and not p.requires(sub):
                return None, None
            if p.output:
                outs += p.output(sub)
            for nm, x in p.post(sub).items():
                cur[nm] = x % (1 << _bits(nm))
        return cur, outs

    return MacroContract(
        name or ('seq[' + ' ; '.join(p.name for p in parts) + ']'),
        '\n  '.join(p.call for p in parts),
        vars_,
        lambda v: walk(v)[0],
        requires=lambda v: walk(v)[0] is not None,
        output=(lambda v: walk(v)[1]) if any(p.output for p in parts) else None,
        widths=tuple(w for w in parts[0].widths if all(w in p.widths for p in parts)) or (64,),
        doc=' ; '.join(p.doc for p in parts),
        extra_decl='\n'.join(p.extra_decl for p in parts if p.extra_decl),
        max_ops=sum(p.max_ops for p in parts),
    )


def random_compositions(cs: Sequence[MacroContract], k: int, count: int, seed: int) -> List[MacroContract]:
    """`count` random sequences of k composable contracts (no exits / input; variables with equal names must have
    equal shapes - contracts are grouped by that)."""
    rng = random.Random(seed)
    pool = [c for c in cs if not c.exits and c.input_ is None and c.domain is None]
    out: List[MacroContract] = []
    tries = 0
    while len(out) < count and tries < count * 50 and pool:
        tries += 1
        first = rng.choice(pool)
        seq = [first]
        shapes = {nm: (v.kind, v.n) for nm, v in first.vars.items()}
        cands = [c for c in pool if all(shapes.get(nm, (v.kind, v.n)) == (v.kind, v.n) for nm, v in c.vars.items())]
        while len(seq) < k and cands:
            nxt = rng.choice(cands)
            if any(shapes.get(nm, (v.kind, v.n)) != (v.kind, v.n) for nm, v in nxt.vars.items()):
                continue
            seq.append(nxt)
            shapes.update({nm: (v.kind, v.n) for nm, v in nxt.vars.items()})
        if len(seq) == k:
            out.append(compose(seq))
    return out
