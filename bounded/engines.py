"""
Bounded stand-in for the engine properties (C01, C07, C11, C18, C19) and the replay vehicle for
counter-models: run ONE image + input on every engine of the CURRENT tree and compare with the
executable spec (spec.machine.Machine).  Never counted as proved.

The native module is compiled here from /repo/flipjump/interpreter/_fjcore.c into a scratch directory
outside /repo and /verif (removed at exit); the untracked prebuilt .so in the working tree is never used.
"""
from __future__ import annotations

import atexit
import importlib
import importlib.util
import os
import random
import shutil
import signal
import subprocess
import sys
import sysconfig
import tempfile
from pathlib import Path
from typing import Any, Callable, Dict, Iterable, List, Optional, Tuple

from spec.machine import EOF, LOOPING, MEMERR, NULLIP, Machine

REPO = Path(os.environ.get('VERIF_REPO', '/repo'))
_SCRATCH: Optional[Path] = None
_NATIVE: Dict[str, Any] = {}


def scratch() -> Path:
    global _SCRATCH
    if _SCRATCH is None:
        _SCRATCH = Path(tempfile.mkdtemp(prefix='fjverif_'))
        atexit.register(lambda: shutil.rmtree(_SCRATCH, ignore_errors=True))
    return _SCRATCH


def build_native(sanitize: bool = False) -> Path:
    """compile the current _fjcore.c; returns the .so path (raises RuntimeError with the compiler output)"""
    key = 'asan' if sanitize else 'plain'
    if key in _NATIVE:
        return _NATIVE[key]
    d = scratch() / key
    d.mkdir(exist_ok=True)
    so = d / '_fjcore.so'
    inc = sysconfig.get_paths()['include']
    src = REPO / 'flipjump' / 'interpreter' / '_fjcore.c'
    if sanitize:
        cmd = ['clang', '-O1', '-g', '-fno-omit-frame-pointer', '-fsanitize=address,undefined', '-fno-sanitize-recover=undefined', '-shared', '-fPIC', f'-I{inc}', str(src), '-o', str(so)]
    else:
        cmd = ['gcc', '-O2', '-shared', '-fPIC', f'-I{inc}', str(src), '-o', str(so)]
    p = subprocess.run(cmd, capture_output=True, text=True)
    if p.returncode != 0:
        raise RuntimeError('native build failed:\n' + p.stderr[-2000:])
    _NATIVE[key] = so
    return so


def load_native() -> Any:
    """import the freshly built module and make fjm_run use it"""
    if 'mod' in _NATIVE:
        return _NATIVE['mod']
    so = build_native(os.environ.get('VERIF_NATIVE_ASAN') == '1')
    spec = importlib.util.spec_from_file_location('_fjcore', so)
    mod = importlib.util.module_from_spec(spec)  # type: ignore[arg-type]
    spec.loader.exec_module(mod)  # type: ignore[union-attr]
    fr = importlib.import_module('flipjump.interpreter.fjm_run')
    fr._fjcore = mod
    _NATIVE['mod'] = mod
    return mod


# ----------------------------------------------------------------------------- images


class Image:
    """segments [(start_word, length_words, [data words])]; data may be shorter than the length"""

    def __init__(self, w: int, segments: List[Tuple[int, int, List[int]]]):
        self.w, self.segments = w, segments

    def words(self) -> Dict[int, int]:
        m = {}
        for s, l, d in self.segments:
            for i, v in enumerate(d):
                m[s + i] = v
        return m

    def machine(self) -> Machine:
        return Machine(self.w, [(s, l) for s, l, _ in self.segments], self.words())

    def write(self, path: Path, version: int = 1) -> None:
        W = importlib.import_module('flipjump.fjm.fjm_writer')
        C = importlib.import_module('flipjump.fjm.fjm_consts')
        wr = W.Writer(path, self.w, C.FJMVersion(version))
        if getattr(self, 'overlapping', False):
            # a file the Writer refuses to produce but the Reader loads: overlapping segments (the valid set is
            # their union).  Written through the real writer with its overlap validation switched off.
            wr._validate_segment_not_overlapping = lambda *a, **k: None  # type: ignore[method-assign]
        for s, l, d in self.segments:
            ds = wr.add_data(list(d))
            wr.add_segment(s, l, ds, len(d))
        wr.write_to_file()

    def describe(self) -> Dict[str, Any]:
        return dict(w=self.w, segments=[[s, l, list(d)] for s, l, d in self.segments])


class RecordingIO:
    """device that records every call; optional failure injection at call index k"""

    def __init__(self, IODevice: Any, inp: bytes, fail_at: Optional[int] = None, fail_exc: Optional[BaseException] = None):
        X = importlib.import_module('flipjump.utils.exceptions')
        self.X = X
        self.bits = [bool((inp[i // 8] >> (i % 8)) & 1) for i in range(8 * len(inp))]
        self.pos = 0
        self.events: List[tuple] = []
        self.calls = 0
        self.fail_at, self.fail_exc = fail_at, fail_exc
        self.memory = None
        self.on_call: Optional[Callable[['RecordingIO'], None]] = None

    def attach_memory(self, m: Any) -> None:
        self.memory = m

    def _tick(self) -> None:
        k = self.calls
        self.calls += 1
        if self.fail_at is not None and k == self.fail_at:
            self.events.append(('fail', k))
            raise self.fail_exc  # type: ignore[misc]
        if self.on_call is not None:
            self.on_call(self)

    def read_bit(self) -> bool:
        self._tick()
        if self.pos >= len(self.bits):
            self.events.append(('in', 'EOF'))
            raise self.X.IOReadOnEOF('eof')
        b = self.bits[self.pos]
        self.pos += 1
        self.events.append(('in', b))
        return b

    def write_bit(self, bit: bool) -> None:
        self._tick()
        self.events.append(('out', bool(bit)))

    def get_output(self, *, allow_incomplete_output: bool = False) -> bytes:
        return b''


def make_device(inp: bytes, **kw: Any) -> Any:
    IOD = importlib.import_module('flipjump.interpreter.io_devices.IODevice')
    cls = type('RecordingDevice', (RecordingIO, IOD.IODevice), {})
    return cls(IOD.IODevice, inp, **kw)


ENGINES = [
    # name, kwargs of fjm_run.run, environment
    ('featured', dict(profile=True), {'FLIPJUMP_NO_NATIVE': '1'}),
    ('fast', dict(), {'FLIPJUMP_NO_NATIVE': '1'}),
    ('native-default', dict(), {}),
    ('native-paged', dict(), {'FLIPJUMP_NO_FLAT': '1'}),
    ('native-window1', dict(flat_max_words=1), {}),
    ('native-window2', dict(flat_max_words=2), {}),
    ('native-window3', dict(flat_max_words=3), {}),
    ('native-window5', dict(flat_max_words=5), {}),
    ('native-window-odd', dict(flat_max_words=16383), {}),
    ('native-measure', dict(), {'FLIPJUMP_MEASURE_SPECULATION': '1'}),
]
RING_ENGINES = [
    ('featured', dict(profile=True), {'FLIPJUMP_NO_NATIVE': '1'}),
    ('fast', dict(), {'FLIPJUMP_NO_NATIVE': '1'}),
    ('native-default', dict(), {}),
    ('native-paged', dict(), {'FLIPJUMP_NO_FLAT': '1'}),
    ('native-window3', dict(flat_max_words=3), {}),
    ('native-window-odd', dict(flat_max_words=16383), {}),
]
_ENV_KEYS = ('FLIPJUMP_NO_NATIVE', 'FLIPJUMP_NO_FLAT', 'FLIPJUMP_MEASURE_SPECULATION', 'FLIPJUMP_FLAT_MAX_WORDS', 'FLIPJUMP_TEST_FLAT_ALLOC_FAIL')


class Timeout(Exception):
    pass


def _alarm(signum, frame):  # pragma: no cover
    raise Timeout()


def run_engine(path: Path, name: str, kw: Dict[str, Any], env: Dict[str, str], inp: bytes, *, last_ops: Optional[int] = None, seconds: int = 20, device: Any = None, snapshot: Optional[Iterable[int]] = None) -> Dict[str, Any]:
    """one run of the real code; returns an observation dict"""
    fr = importlib.import_module('flipjump.interpreter.fjm_run')
    if not name.startswith(('featured', 'fast')):
        load_native()
    for k in _ENV_KEYS:
        os.environ.pop(k, None)
    os.environ.update(env)
    dev = device if device is not None else make_device(inp)
    obs: Dict[str, Any] = dict(engine=name)
    old = signal.signal(signal.SIGALRM, _alarm)
    signal.alarm(seconds)
    try:
        kw2 = dict(kw)
        if last_ops is not None:
            kw2['last_ops_debugging_list_length'] = last_ops
        st = fr.run(path, io_device=dev, **kw2)
        obs.update(cause=str(st.termination_cause), ops=st.op_counter, address=st.memory_error_address, last_ops=list(st.last_ops_addresses) if st.last_ops_addresses is not None else None, storage=st.storage_mode)
    except Timeout:
        obs.update(cause='TIMEOUT')
    except BaseException as e:  # the exception type is part of the observation
        obs.update(cause='EXC:' + type(e).__name__, exc=repr(e)[:200], exc_cause=type(e.__cause__).__name__ if e.__cause__ is not None else None)
    finally:
        signal.alarm(0)
        signal.signal(signal.SIGALRM, old)
        for k in _ENV_KEYS:
            os.environ.pop(k, None)
    obs['events'] = list(dev.events)
    if snapshot is not None and dev.memory is not None:
        try:
            obs['memory'] = {a: int(dev.memory.read_word(a)) for a in snapshot}
        except BaseException as e:
            obs['memory'] = 'EXC:' + repr(e)[:100]
    return obs


CAUSE_STR = {LOOPING: 'looping', EOF: 'EOF', NULLIP: 'ip<2w', MEMERR: 'runtime-memory-error'}


def spec_observation(img: Image, inp: bytes, max_ops: int, snapshot: Optional[Iterable[int]] = None) -> Optional[Dict[str, Any]]:
    m = img.machine()
    bits = [bool((inp[i // 8] >> (i % 8)) & 1) for i in range(8 * len(inp))]
    pos = [0]
    events: List[tuple] = []

    def rd():
        if pos[0] >= len(bits):
            events.append(('in', 'EOF'))
            return None
        pos[0] += 1
        events.append(('in', bits[pos[0] - 1]))
        return bits[pos[0] - 1]

    def wr(b):
        events.append(('out', bool(b)))

    res = None
    for _ in range(max_ops):
        res = m.step(rd, wr)
        if res is not None:
            break
    if res is None:
        return None
    cause, n, addr = res
    last = m.last
    obs = dict(engine='spec', cause=CAUSE_STR[cause], ops=n, address=addr, events=events, last_all=last)
    if snapshot is not None:
        obs['memory'] = {a: m.mem.get(a, 0) for a in snapshot}
    return obs


def compare(spec: Dict[str, Any], obs: Dict[str, Any], *, last_ops: Optional[int], fits_native: bool = True) -> Optional[str]:
    """None if the observation equals the spec's, else a description of the first difference"""
    for k in ('cause', 'ops', 'address', 'events'):
        if spec[k] != obs.get(k):
            return f'{k}: {obs["engine"]} gives {obs.get(k)!r}, the machine definition gives {spec[k]!r}'
    if last_ops is not None:
        want = spec['last_all'][-last_ops:] if last_ops > 0 else []
        if obs.get('last_ops') != want:
            return f'last-ops list: {obs["engine"]} gives {obs.get("last_ops")!r}, expected {want!r}'
    if 'memory' in spec and 'memory' in obs and spec['memory'] != obs['memory']:
        if isinstance(obs['memory'], str):
            return f'final memory: {obs["engine"]} raised {obs["memory"]}'
        diff = [(a, obs['memory'][a], spec['memory'][a]) for a in spec['memory'] if obs['memory'].get(a) != spec['memory'][a]][:3]
        return f'final memory (word, got, want): {obs["engine"]} {diff}'
    return None


# ----------------------------------------------------------------------------- generators


def gen_image(rng: random.Random, w: Optional[int] = None, layout: Optional[str] = None) -> Image:
    """small adversarial images: ops that flip their own words, IO ops, unaligned jumps, jumps to segment
    edges, sparse segments around page / window edges"""
    w = w or rng.choice([8, 16, 32, 64])
    ww = w.bit_length() - 1
    layout = layout or rng.choice(['dense', 'dense', 'two', 'edge', 'far', 'gap', 'overlap'])
    n_ops = rng.choice([4, 6, 8, 12]) if w > 8 else rng.choice([4, 6, 8])
    max_word = (1 << w) // w  # number of addressable words
    segs: List[Tuple[int, int]] = [(0, 2 * n_ops)]
    if layout == 'two':
        segs.append((2 * n_ops + 2 * rng.randrange(1, 4), 2 * rng.randrange(1, 4)))
    elif layout == 'edge' and max_word > (1 << 14) + 64:
        segs.append(((1 << 14) * rng.choice([1, 1, 2, 16]) - 2 * rng.randrange(0, 3), 2 * rng.randrange(1, 4)))
    elif layout == 'far' and w >= 32:
        base = rng.choice([1 << 23, (1 << 23) - 2, 1 << 26, (1 << 40) if w == 64 else 1 << 24, (1 << 56) if w == 64 else 1 << 25])
        segs.append((base, 2 * rng.randrange(1, 4)))
    elif layout == 'gap':
        segs[0] = (0, 2 * n_ops - 2)
        segs.append((2 * n_ops + 2, 4))
    n_plain = len(segs)
    if layout == 'overlap' and w >= 16:
        # (a file only a foreign writer produces; the reader loads it: the valid set is the union) a wide
        # zero segment with narrower ones inside it, in random order
        b = 2 * n_ops + 2 * rng.randrange(1, 4)
        inner = [(b + 2 * rng.randrange(1, 18), 2 * rng.randrange(1, 3)) for _ in range(rng.randrange(2, 6))]
        extra_segs = [(b, 40)] + inner
        rng.shuffle(extra_segs)
        segs += extra_segs
    segs = [(s, l) for s, l in segs if s + l <= max_word] or [(0, min(2 * n_ops, max_word - max_word % 2))]
    all_words = [s + i for s, l in segs for i in range(l)]
    interesting_bits: List[int] = []
    for a in all_words:
        interesting_bits += [a * w, a * w + rng.randrange(w)]
    dw = 2 * w
    in_addr = 3 * w + w.bit_length()

    def flip_target() -> int:
        r = rng.random()
        if r < 0.25:
            return rng.choice([dw, dw + 1])  # output
        if r < 0.75:
            return rng.choice(interesting_bits)
        if r < 0.85:
            return rng.choice(all_words) * w + w - 1
        if r < 0.95:
            return (max(all_words) + 1) * w + rng.randrange(w)  # just outside
        return rng.randrange(1 << w)

    def jump_target(i: int, seg_start: int) -> int:
        r = rng.random()
        ops_here = [a * w for a in all_words if a % 2 == 0]
        if r < 0.5:
            return (seg_start + 2 * (i + 1)) * w  # next op
        if r < 0.8:
            return rng.choice(ops_here)
        if r < 0.86:
            return rng.choice(all_words) * w  # w-aligned, maybe odd word
        if r < 0.92:
            return rng.choice(all_words) * w + rng.randrange(1, w)  # unaligned
        if r < 0.96:
            return (seg_start + 2 * i) * w  # self loop
        return rng.randrange(1 << w) if rng.random() < 0.5 else rng.randrange(dw)

    out: List[Tuple[int, int, List[int]]] = []
    for si, (s, l) in enumerate(segs):
        data: List[int] = []
        if layout == 'overlap' and si >= n_plain:
            out.append((s, l, []))  # zero-filled: no data, so the overlap is not ambiguous
            continue
        for i in range(l // 2):
            data += [flip_target() % (1 << w), jump_target(i, s) % (1 << w)]
        if rng.random() < 0.3 and len(data) > 2:
            data = data[: 2 * rng.randrange(1, len(data) // 2 + 1)]  # zero tail
        if w == 64 and rng.random() < 0.2:
            data[rng.randrange(len(data))] = 0xBB67AE8584CAA73B  # the native engine's w=64 fill constant
        out.append((s, l, data))
    # make the input op reachable sometimes: op 1 lives at 2w..4w-1 which covers in_addr
    img = Image(w, out)
    if layout == 'overlap':
        img.overlapping = True  # type: ignore[attr-defined]
    return img
