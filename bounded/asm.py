"""bounded stand-ins over the real assembler with the reference semantics of spec/fjasm.py"""
from __future__ import annotations

import contextlib
import importlib
import io
import random
import tempfile
from pathlib import Path
from typing import Any, Dict, List, Optional, Tuple

from spec import fjasm as F
from spec.machine import Machine
from vc.common import Report, Violation


def assemble_files(texts: List[str], w: int, version: int, td: Path, *, debug: bool = False, werror: bool = False, tag: str = 'p') -> Tuple[Optional[Any], Optional[Dict[str, int]], Optional[str]]:
    """(reader, labels, error-class-name)"""
    asm = importlib.import_module('flipjump.assembler.assembler')
    W = importlib.import_module('flipjump.fjm.fjm_writer')
    C = importlib.import_module('flipjump.fjm.fjm_consts')
    R = importlib.import_module('flipjump.fjm.fjm_reader')
    U = importlib.import_module('flipjump.utils.functions')
    X = importlib.import_module('flipjump.utils.exceptions')
    files = []
    for i, t in enumerate(texts):
        f = td / f'{tag}_{i}.fj'
        f.write_text(t)
        files.append((f'f{i + 1}', f))
    out = td / f'{tag}.fjm'
    dbg = td / f'{tag}.fjd' if debug else None
    kw = dict(lzma_preset=0) if version == 3 else {}
    try:
        wr = W.Writer(out, w, C.FJMVersion(version), **kw)
        with contextlib.redirect_stdout(io.StringIO()):
            asm.assemble(files, w, wr, warning_as_errors=werror, debugging_file_path=dbg, print_time=False)
    except X.FlipJumpException as e:
        return None, None, type(e).__name__ + ':' + str(e)[:120]
    rd = R.Reader(out)
    labels = U.load_debugging_labels(dbg) if dbg else None
    return rd, labels, None


def image_of(rd: Any) -> Tuple[Dict[int, int], List[Tuple[int, int]]]:
    words = dict(rd.memory)
    for s, e in rd.zeros_boundaries:
        pass
    return words, [(m.segment_start, m.segment_length) for m in rd.memory_segments]


def word(rd: Any, a: int) -> Optional[int]:
    if a in rd.memory:
        return rd.memory[a]
    for s, e in rd.zeros_boundaries:
        if s <= a < e:
            return 0
    return None


def check_against_denotation(rd: Any, den: F.Denotation, w: int) -> Optional[str]:
    for a, f, j in den.stmt_ops:
        got = (word(rd, a // w), word(rd, a // w + 1))
        if got != (f, j):
            return f'statement at bit address {a}: image holds {got}, the source denotes {(f, j)}'
    for lo, hi in den.reserved:
        for a in list(range(lo, min(hi, lo + 6))) + list(range(max(lo, hi - 3), hi)):
            if word(rd, a) != 0:
                return f'reserved word {a} reads {word(rd, a)}, not 0'
    segs = [(m.segment_start * w) for m in rd.memory_segments]
    for s in den.segments:
        pass
    return None


def check_wflips(rd: Any, den: F.Denotation, w: int) -> Tuple[Optional[str], int]:
    """execute every wflip statement from its own address on the machine definition"""
    ran = 0
    segs = [(m.segment_start, m.segment_length) for m in rd.memory_segments]
    base_mem = dict(rd.memory)
    user_words = {a // w for a, _, _ in den.stmt_ops} | {a // w + 1 for a, _, _ in den.stmt_ops}
    for S, a, v, r in den.wflips:
        if not (0 <= v < (1 << w)) or a % w or a < 0:
            continue
        m = Machine(w, segs, base_mem)
        if not m.valid(a // w) or not (0 <= r < (1 << w)):
            continue
        in_addr = 3 * w + w.bit_length()
        if in_addr - 2 * w < S <= in_addr or (v == 0 and a // w == 0):
            continue
        if a // w not in user_words and not any(lo <= a // w < hi for lo, hi in den.reserved):
            continue  # the target is not a user word (it may be a padding / wflip-area word the chains own)  # the statement's own op covers the input bit (it would consume input): not a chain property
        m.ip = S
        want_ops = max(1, bin(v).count('1'))
        before = dict(m.mem)
        touched_user = None
        res = None
        for k in range(want_ops):
            ipw = m.ip // w
            if k > 0 and (ipw in user_words):
                touched_user = m.ip
            res = m.step(lambda: False, lambda b: None)  # (a chain op that covers the input bit consumes a 0 bit)
            if res is not None:
                break
        ran += 1
        if touched_user is not None:
            return f'wflip at {S}: its chain runs through user statement words at bit address {touched_user}', ran
        # a chain that halts by itself (r == address of its last op ...) is not generated; res None expected
        diff = {x: before.get(x, 0) ^ m.mem.get(x, 0) for x in set(before) | set(m.mem) if before.get(x, 0) != m.mem.get(x, 0)}
        # flips of the chain ops' own words are excluded by looking only at word a
        if res is not None and not (res[0] in ('looping', 'nullip') and m.n == want_ops):
            return f'wflip at {S} (a={a}, v={v:#x}, r={r}): stopped with {res} after {m.n} ops', ran
        got_v = diff.get(a // w, 0)
        if got_v != v:
            return f'wflip at {S} (a={a}, v={v:#x}): word a changed by {got_v:#x}', ran
        if res is None and m.ip != r:
            return f'wflip at {S}: arrived at {m.ip}, not at r={r}', ran
        extra = {x: d for x, d in diff.items() if x != a // w and not (v == 0 and x == 0 and d == 1) and x != in_addr // w}  # (`0;r` flips the null bit 0)
        if extra:
            return f'wflip at {S}: also changed words {sorted(extra)[:3]}', ran
    return None, ran


def run_primitive(rep: Report, n: int, seed: int) -> None:
    rng = random.Random(seed * 101 + 7)
    evals, distinct, wf = 0, set(), 0
    with tempfile.TemporaryDirectory() as tds:
        td = Path(tds)
        for it in range(n):
            w = rng.choice([8, 16, 32, 64])
            version = rng.choice([0, 1, 2, 3])
            p = F.gen_primitive(rng, w)
            texts = F.to_text(p)
            try:
                den = F.denote(F.inline(p, w), w)
            except (F.RefError, KeyError, ZeroDivisionError) as e:
                continue
            rd, _, err = assemble_files(texts, w, version, td)
            evals += 1
            distinct.add((texts[0], w, version))
            why = None
            if den.rejected and err is None:
                why = f'the reference rejects the layout ({den.rejected}) but it assembled'
            elif not den.rejected and err is not None:
                # the assembler may reject for what the reference does not model: wflip areas / 2^w range / first op
                if not any(t in err for t in ('Not enough space', 'failed to add the segment', 'no first op', "doesn't fit", 'unaligned', 'op-aligned')):
                    why = f'rejected a valid program: {err}'
            elif err is None:
                why = check_against_denotation(rd, den, w)
                if why is None:
                    why, k = check_wflips(rd, den, w)
                    wf += k
            if why:
                rep.violation(Violation('bounded:primitive_programs.image_equals_denotation', f'w={w} v={version}: {why}', dict(source=texts[0], w=w, version=version), True, key=why.split(':')[0].split(' at ')[0][:40]))
                if len(rep.violations) > 5:
                    break
    rep.add_bounded('macro-free programs: assembled by the real assembler, read by the real reader, compared with the denotation; wflip statements executed on the machine definition', f'{n} random programs (ops over expressions and $, labels, wflip, pad, segment, reserve) x w x version; {wf} wflip chains executed', evals, len(distinct))
    rep.samples.append(dict(primitive_program=texts[0][:300]))


def run_macros(rep: Report, n: int, seed: int) -> None:
    rng = random.Random(seed * 103 + 9)
    evals, distinct = 0, set()
    with tempfile.TemporaryDirectory() as tds:
        td = Path(tds)
        for it in range(n):
            w = rng.choice([16, 32, 64])
            p = F.gen_macro_program(rng, w)
            try:
                fl = F.inline(p, w)
                den = F.denote(fl, w)
            except F.RefError as e:
                den = None
            texts = F.to_text(p)
            rd, _, err = assemble_files(texts, w, 1, td, tag='m')
            evals += 1
            distinct.add((texts[0], w))
            why = None
            if den is None or den.rejected:
                if err is None and den is not None:
                    why = f'the reference rejects ({den.rejected}) but it assembled'
            elif err is not None:
                if not any(t in err for t in ('Not enough space', 'no first op')):
                    why = f'rejected a valid macro program: {err}'
            else:
                why = check_against_denotation(rd, den, w)
                if why is None and len(p.main) > 2:
                    # file splits at top-level statement boundaries give the same image
                    cuts = sorted(rng.sample(range(1, len(p.main)), k=min(len(p.main) - 1, rng.randrange(1, 3))))
                    rd2, _, err2 = assemble_files(F.to_text(p, split_at=cuts), w, 1, td, tag='s')
                    if err2 is not None:
                        why = f'split at {cuts}: {err2}'
                    elif dict(rd2.memory) != dict(rd.memory) or rd2.zeros_boundaries != rd.zeros_boundaries:
                        why = f'split at {cuts}: a different image'
            if why:
                rep.violation(Violation('bounded:macro_programs.image_equals_hygienic_inlining', f'w={w}: {why}', dict(source=texts[0], w=w), True, key=why.split(':')[0][:40]))
                if len(rep.violations) > 5:
                    break
    rep.add_bounded('macro programs with name collisions: real assembler vs the reference inliner; file splits', f'{n} random macro programs (nested calls, arity overloading, namespaces with dotted/relative names, rep counts 0..3, identifiers shared between callers and callees) x w', evals, len(distinct))
    rep.samples.append(dict(macro_program=texts[0][:400]))


def run_labels(rep: Report, n: int, seed: int) -> None:
    """C16: the saved label table against the reference addresses; save/load round trip; breakpoint resolution"""
    B = importlib.import_module('flipjump.interpreter.debugging.breakpoints')
    U = importlib.import_module('flipjump.utils.functions')
    rng = random.Random(seed * 107 + 1)
    evals, distinct = 0, set()
    with tempfile.TemporaryDirectory() as tds:
        td = Path(tds)
        for it in range(n):
            w = rng.choice([16, 32, 64])
            p = F.gen_macro_program(rng, w) if rng.random() < 0.8 else F.gen_primitive(rng, w)
            try:
                den = F.denote(F.inline(p, w), w)
            except F.RefError:
                continue
            if den.rejected:
                continue
            cuts = sorted(rng.sample(range(1, len(p.main)), k=1)) if len(p.main) > 2 and rng.random() < 0.4 else None
            texts = F.to_text(p, split_at=cuts)
            rd, labels, err = assemble_files(texts, w, 1, td, debug=True, tag='l')
            if err is not None:
                continue
            evals += 1
            distinct.add((tuple(texts), w))
            why = None
            real_src = sorted(a for nm, a in labels.items() if ':start:' not in nm and ':wflips:' not in nm and not nm.startswith('_.wflip_area_start_'))
            ref_src = sorted(den.labels.values())
            starts_real = [(nm, a) for nm, a in labels.items() if nm.endswith(':start:')]
            with_label = set(real_src)
            if real_src != ref_src:
                why = f'source labels: table addresses {real_src[:8]}, the statements they precede are at {ref_src[:8]}'
            else:
                for nm, a in starts_real:
                    if a not in den.starts:
                        why = f'start label {nm} = {a}, no expansion begins there (expansions begin at {sorted(set(den.starts))[:8]})'
                        break
                    if a in with_label:
                        why = f'start label {nm} at {a} although a source label already sits there'
                        break
                if why is None:
                    missing = [a for a in set(den.starts) if a not in with_label and a not in {x for _, x in starts_real}]
                    if missing:
                        why = f'no label at all at the expansion start(s) {sorted(missing)[:5]}'
            if why is None:
                f2 = td / 'again.fjd'
                U.save_debugging_labels(f2, labels)
                if U.load_debugging_labels(f2) != labels or list(U.load_debugging_labels(f2)) != list(labels):
                    why = 'save/load round trip changes the table'
            if why is None and labels:
                names = list(labels)
                exact = set(rng.sample(names, k=min(len(names), rng.randrange(0, 3)))) | ({'no-such-label'} if rng.random() < 0.3 else set())
                subs = set()
                for _ in range(rng.randrange(0, 3)):
                    nm = rng.choice(names)
                    i = rng.randrange(len(nm))
                    subs.add(nm[i : i + rng.randrange(1, 6)])
                addrs = set(rng.sample(sorted(set(labels.values())) + [12345 * w], k=rng.randrange(0, 2)))
                try:
                    with contextlib.redirect_stdout(io.StringIO()):
                        got = B.get_breakpoints(addrs or None, exact or None, subs or None, labels)
                except Exception as e:
                    got = {('EXC', type(e).__name__): None}
                want = set(addrs) | {labels[x] for x in exact if x in labels} | {a for nm, a in labels.items() if any(sb in nm for sb in subs)}
                if set(got) != want:
                    got = {k: v for k, v in got.items()}
                    why = f'breakpoints for addresses={sorted(addrs)} labels={sorted(exact)} substrings={sorted(subs)} resolve to {sorted(got, key=str)}, expected {sorted(want)}'
                else:
                    for x in exact:
                        if x in labels and got[labels[x]] != x and not any(labels[y] == labels[x] for y in exact if y != x and y in labels):
                            why = f'an exact label breakpoint is not named by its label ({got[labels[x]]!r} for {x!r})'
            if why:
                rep.violation(Violation('bounded:label_table.exact', f'w={w}: {why}', dict(sources=texts, w=w), True, key=why.split(':')[0][:30]))
                if len(rep.violations) > 5:
                    break
    rep.add_bounded('debug label tables of generated programs', f'{n} random programs (macro trees, reps, namespaces, file splits): source-label addresses vs the reference, start labels vs expansion starts, save/load round trip, breakpoint resolution vs a set-comprehension oracle', evals, len(distinct))
