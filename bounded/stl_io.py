"""
Bounded execution of the INPUT / PRINT / CAST / BUFFER macro contracts (C09) on the real assembled code.

Extends bounded/stl.py (same harness program, same machine, same re-execution of ONE assembled instance) with what
the I/O macros need and the arithmetic ones do not:

  * an operand tuple may carry entries that are not program variables (`input`: the byte string fed to the run,
    `buf_*`: buffer contents) - only the declared variables are poked;
  * input is accounted for in BITS: the contract states how many input bits the macro consumes (the terminator is
    consumed or not, as documented); a trailer is appended by the table so that over-consumption shows;
  * output is compared as a BIT string (hex.output / bit.output emit less than a byte);
  * the machine's end-of-input halt is a documented outcome (`eof`): the run must stop there having consumed everything
    and printed only the documented bytes; the memory image is then restored (the program is over after EOF; the next
    tuple starts from the state before);
  * byte buffers (`buffers`: label -> number of cells, one byte per cell in the 8 data bits of a hex cell) with
    their contents poked before (`buf_pre`) and compared after (`buf_post`, the WHOLE buffer: bytes next to the
    documented ones must not move), and pointer variables whose value is the address of a buffer cell (`pointers`);
  * `post` may map a variable to None: its final value is not documented for this tuple (error branches).
"""
from __future__ import annotations

import os
import random
import re
import time
import tempfile
import zlib
from dataclasses import dataclass, field
from pathlib import Path
from typing import Any, Callable, Dict, List, Optional, Sequence, Tuple, Union

from bounded.stl import Harness, MacroContract, Var
from vc.common import Report, Violation

Vals = Dict[str, Any]
Bits = List[bool]


def to_bits(data: Union[bytes, Sequence[bool]]) -> Bits:
    """bytes -> bits, lsb of each byte first (the order of the language's IO); a bit sequence is returned as is"""
    if isinstance(data, (bytes, bytearray)):
        return [bool((data[i // 8] >> (i % 8)) & 1) for i in range(8 * len(data))]
    return [bool(b) for b in data]


def show_bits(bits: Sequence[bool]) -> str:
    whole = len(bits) - len(bits) % 8
    by = bytes(sum(1 << j for j in range(8) if bits[i + j]) for i in range(0, whole, 8))
    tail = ''.join('1' if b else '0' for b in bits[whole:])
    return repr(by) + (f'+bits[{tail}]' if tail else '')


@dataclass
class IOContract(MacroContract):
    """post(vals) may return None for a variable (value undocumented there).  input_ / output may return bytes or a
    sequence of bits.  consumed(vals): number of input BITS the macro reads (None: not documented for this tuple, then
    `max_consumed` bounds it if given).  eof(vals): the documented outcome is the machine's end-of-input halt."""

    consumed: Optional[Callable[[Vals], Optional[int]]] = None
    max_consumed: Optional[Callable[[Vals], int]] = None
    eof: Optional[Callable[[Vals], bool]] = None
    buffers: Dict[str, int] = field(default_factory=dict)
    buf_pre: Optional[Callable[[Vals], Dict[str, bytes]]] = None
    buf_post: Optional[Callable[[Vals], Dict[str, bytes]]] = None
    pointers: Dict[str, Callable[[Vals], Tuple[str, int]]] = field(default_factory=dict)  # var -> (buffer label, cell index)
    ptr_scratch: bool = False  # the library's documented pointer globals (hex.pointers.read_byte .. nth_ptr) may change
    group: str = ''
    weight: int = 1  # scheduling hint: heavier jobs are started first
    shards: int = 1  # the operand tuples are dealt to this many separately assembled instances (parallelism)
    post_hook: Optional[Callable[['IOHarness', Vals], Optional[str]]] = None  # extra check on the assembled image


_CELL_BIT = re.compile(r':bit\.bit(\(\d+\))?$')
_CELL_HEX = re.compile(r':hex\.hex(\(\d+\))?$')


class IOHarness(Harness):
    def __init__(self, c: IOContract, w: int, td: Path):
        decl = '\n'.join(f'{lab}: hex.vec {cells}' for lab, cells in c.buffers.items())
        if decl:
            c = _replace_decl(c, (c.extra_decl + '\n' if c.extra_decl else '') + decl)
        super().__init__(c, w, td)
        self.buf_addr = {lab: self._label(lab) for lab in c.buffers}
        self._locals: Optional[Dict[int, int]] = None
        self._vw: Optional[Dict[int, int]] = None
        self._ptr_lo = self._ptr_hi = self._ptr_mask = 0
        if c.ptr_scratch:
            # stl.ptr_init's documented outputs: read_byte, ret_after_read_byte, to_flip, to_jump, to_flip_var, to_jump_var,
            # nth_ptr - every pointer macro sets them before use ("to_jump{_var} = ptr")
            self._ptr_lo = self.labels['hex.pointers.read_byte'] // w
            self._ptr_hi = self.labels['hex.pointers.nth_ptr'] // w + 2 * (w // 4)
            self._ptr_mask = (1 << w) - 1
        self.local_mask(0)

    def buf_word(self, lab: str, i: int) -> int:
        return (self.buf_addr[lab] + i * 2 * self.w) // self.w + 1

    def read_buf(self, lab: str) -> bytes:
        return bytes((self.m.mem.get(self.buf_word(lab, i), 0) >> self.dbit) & 0xFF for i in range(self.c.buffers[lab]))

    def poke_buf(self, lab: str, data: bytes) -> None:
        assert len(data) == self.c.buffers[lab], (lab, len(data))
        for i, b in enumerate(data):
            a = self.buf_word(lab, i)
            self.m.mem[a] = (self.m.mem.get(a, 0) & ~(0xFF << self.dbit)) | (b << self.dbit)

    def var_words(self) -> Dict[int, int]:
        out = super().var_words()
        for lab, cells in self.c.buffers.items():
            for i in range(cells):
                out[self.buf_word(lab, i)] = 0xFF << self.dbit
        return out

    def local_mask(self, a: int) -> int:
        """Data bits of the PRIVATE cells of the macro instance under test: a word that is the second word of an op
        inside [again, done) declared through bit.bit / hex.hex (bit.vec / hex.vec locals such as `neg`, `digit`,
        `print_buffer`).  They are invisible to the caller; what they leak is seen by re-executing the instance."""
        if self._locals is None:
            self._locals = {}
            lo, hi = self.addr['again'], self.addr['done']
            for k, ad in self.labels.items():
                if not lo < ad < hi:
                    continue
                if k.endswith('---:start:'):
                    last = k.split('---')[-2]
                    if _CELL_BIT.search(last):
                        self._locals[ad // self.w + 1] = 1 << self.dbit
                    elif _CELL_HEX.search(last):
                        self._locals[ad // self.w + 1] = 0xF << self.dbit
                elif self.m.mem.get(ad // self.w, 0) == 0 and self.m.mem.get(ad // self.w + 1, 0) < (16 << self.dbit):
                    # a named local (`neg:`, `digit:`, `print_buffer:`): the debug table keeps one label per address, so
                    # the cell macro's own start label is shadowed; a cell is `0 ; value*dw`
                    self._locals[ad // self.w + 1] = 0xF << self.dbit
        return self._locals.get(a, 0) | (self._ptr_mask if self._ptr_lo <= a < self._ptr_hi else 0)

    def run_io(self, vals: Vals) -> Dict[str, Any]:
        c, m = self.c, self.m
        pv: Dict[str, int] = {nm: vals[nm] for nm in c.vars if nm in vals}
        for nm, f in c.pointers.items():
            lab, idx = f(vals)
            pv[nm] = self.buf_addr[lab] + idx * 2 * self.w
        if c.buf_pre:
            for lab, data in c.buf_pre(vals).items():
                self.poke_buf(lab, data)
        assert set(pv) == set(c.vars), f'{c.name}: operand tuple lacks {set(c.vars) - set(pv)}'
        for nm, x in pv.items():
            self.poke(nm, x)
        inp = to_bits(c.input_(vals)) if c.input_ else []
        n_in = len(inp)
        r = _run_once_bits(self, pv, inp)
        r['poked'] = pv
        self.last_run = r
        r['consumed'] = n_in - r['input_left']
        r['buffers'] = {lab: self.read_buf(lab) for lab in c.buffers}
        r['eof'] = r['result'] is not None and r['result'][0] == 'eof'
        if r['eof']:
            # the program is over; the next tuple starts from the image as it was
            m.mem = r['before']
        del r['before']
        return r


def _replace_decl(c: IOContract, decl: str) -> IOContract:
    import copy

    c2 = copy.copy(c)
    c2.extra_decl = decl
    return c2


def _run_once_bits(h: IOHarness, pv: Dict[str, int], inp: Bits) -> Dict[str, Any]:
    """The body of bounded.stl.Harness.run_once, with bit-level input and the input word exempted from the frame
    whenever input was supplied (same checks otherwise: re-entry at `again`, exit label seen, halt at `done`, frame)."""
    c, m = h.c, h.m
    h.out_bits = []
    h.inp_bits = list(inp)
    before = dict(m.mem)
    m.ip = h.addr['again']
    visited_exit = None
    stops = {h.addr[k]: k for k in c.exits}
    n0 = m.n
    res = None
    for _ in range(c.max_ops):
        if visited_exit is None and m.ip in stops:
            visited_exit = stops[m.ip]
        res = m.step(h._rd, h.out_bits.append)
        if res is not None:
            break
    got = {nm: h.read(nm) for nm in c.vars}
    ok_halt = res is not None and res[0] == 'looping' and m.ip == h.addr['done']
    vw = h._vw if h._vw is not None else h.var_words()
    h._vw = vw
    in_addr_word = (3 * h.w + h.w.bit_length()) // h.w
    changed = []
    for a in {k for k, _ in (before.items() ^ m.mem.items())}:
        b0, b1 = before.get(a, 0), m.mem.get(a, 0)
        if b0 != b1:
            mask = vw.get(a, 0)
            if a == 0:
                mask |= 1  # `;x` is `0;x`: bit 0 of word 0 is the language's own scratch bit
            if a == in_addr_word:
                mask |= 1 << (h.w.bit_length())  # the machine writes the input bit here
            if a == 2:
                mask |= 3  # output IS the flip of bit 2w / 2w+1 (word 2, bits 0 and 1)
            if a == 1:
                mask |= 1 << h.w.bit_length()  # the library's bit bucket: hex.shl_bit / shr_bit shift out into "bit variable 0"
            mask |= h.local_mask(a)
            if (b0 ^ b1) & ~mask:
                changed.append(a)
    return dict(before=before, values=got, exit=visited_exit, halted=ok_halt, result=res, ops=m.n - n0, frame_broken=sorted(changed)[:4], out=list(h.out_bits), input_left=len(h.inp_bits))


def _jsonable(vals: Vals) -> Dict[str, Any]:
    return {k: (v.hex() if isinstance(v, (bytes, bytearray)) else v) for k, v in vals.items()}


def check_io_contract(rep: Report, c: IOContract, seed: int, shard: int = 0) -> Tuple[int, int]:
    """returns (executions, distinct operand tuples)"""
    rng = random.Random(zlib.crc32(f'{c.name}|{c.call}|{seed}'.encode()))  # not hash(): str hashes differ per process
    evals = 0
    distinct = set()
    for w in c.widths:
        with tempfile.TemporaryDirectory() as tds:
            try:
                h = IOHarness(c, w, Path(tds))
            except Exception as e:
                rep.violation(Violation(f'bounded:{c.name}.harness_assembles', f'{c.call} (w={w}): the harness program does not assemble: {type(e).__name__}: {str(e)[:200]}', dict(call=c.call, w=w), True, key=f'{c.name}:assemble'))
                return evals, len(distinct)
            assert c.domain is not None, c.name
            for vals in list(c.domain(rng))[shard::max(1, c.shards)]:
                if c.requires and not c.requires(vals):
                    continue
                r = h.run_io(vals)
                evals += 1
                distinct.add((w, repr(sorted(_jsonable(vals).items()))))
                why = judge(h, c, vals, r)
                if why:
                    rep.violation(Violation(f'bounded:{c.name}.contract', f'{c.call} (w={w}) on {_jsonable(vals)}: {why}   [doc: {c.doc}]', dict(call=c.call, w=w, operands=_jsonable(vals), source=h.source, executions_before=evals - 1), True, key=f'{c.call}:{why.split(" ")[0]}'))
                    return evals, len(distinct)
    return evals, len(distinct)


def judge(h: IOHarness, c: IOContract, vals: Vals, r: Dict[str, Any]) -> Optional[str]:
    want_eof = bool(c.eof and c.eof(vals))
    wo = c.output(vals) if c.output else b''
    wo = None if wo is None else to_bits(wo)  # None: not stated as one byte string (a post_hook judges r['out'])
    if want_eof:
        if not r['eof']:
            return f'eof: the input ends inside the numeral/line, documented outcome is the end-of-input halt; got {r["result"]} exit={r["exit"]} after {r["ops"]} ops, {r["input_left"]} input bits left'
        if r['out'] != wo:
            return f'output {show_bits(r["out"])} before the end-of-input halt, documented: {show_bits(wo)}'
        return None
    if not r['halted']:
        return f'halt: did not come back to `done` ({r["result"]}, {r["ops"]} ops, consumed {r["consumed"]} input bits)'
    want = dict(r['poked'])
    for nm, x in c.post(vals).items():
        want[nm] = x
    for nm, v in c.vars.items():
        if want.get(nm) is None:
            continue
        bits = (4 if v.kind == 'hex' else 1) * v.n
        if r['values'][nm] != want[nm] % (1 << bits):
            return f'{nm} = {r["values"][nm]:#x}, documented: {want[nm] % (1 << bits):#x}'
    want_exit = c.exit_(vals) if c.exit_ is not None else None
    if r['exit'] != want_exit:
        return f'exit taken: {r["exit"]}, documented: {want_exit}'
    if wo is not None and r['out'] != wo:
        return f'output {show_bits(r["out"])}, documented: {show_bits(wo)}'
    if c.input_ is not None:
        k = c.consumed(vals) if c.consumed else None
        if k is not None and r['consumed'] != k:
            return f'consumed {r["consumed"]} input bits, documented: {k}'
        if k is None and c.max_consumed is not None and r['consumed'] > c.max_consumed(vals):
            return f'consumed {r["consumed"]} input bits, documented: at most {c.max_consumed(vals)}'
    if c.buffers:
        pre = c.buf_pre(vals) if c.buf_pre else {}
        exp = dict(pre)
        if c.buf_post:
            exp.update(c.buf_post(vals))
        for lab, data in exp.items():
            if r['buffers'][lab] != data:
                i = next(i for i in range(len(data)) if r['buffers'][lab][i] != data[i])
                return f'buffer {lab}[{i}] = {r["buffers"][lab][i]:#x}, documented: {data[i]:#x} (whole buffer {r["buffers"][lab]!r}, documented {data!r})'
    if r['frame_broken']:
        names = [k for k, a in h.labels.items() if any(a // h.w <= x <= a // h.w + 1 for x in r['frame_broken'])][:2]
        return f'frame: changed memory outside its destinations: words {r["frame_broken"]} {names}'
    if c.post_hook:
        return c.post_hook(h, vals)
    return None


# ------------------------------------------------------------------------------------------------ pool runner

_JOBS: List[Tuple[IOContract, int, int]] = []


def _one(idx: int):
    c, seed, shard = _JOBS[idx]
    t0 = time.process_time()
    rep = Report('C09', 'quick', seed, 'exploration', '')
    try:
        ev, di = check_io_contract(rep, c, seed, shard)
    except Exception as e:  # a crash of the harness itself is reported as such, not as a violation of the library
        import traceback

        rep.violation(Violation(f'bounded:{c.name}.harness', f'{c.call}: harness error {type(e).__name__}: {e}', dict(call=c.call, trace=traceback.format_exc()[-900:]), False, key=f'{c.name}:harness'))
        ev = di = 0
    if os.environ.get('VERIF_STL_TIMES'):
        print(f'  {time.process_time() - t0:6.1f}s {ev:6d} runs  w={c.widths} {c.call[:60]!r}', flush=True)
    return idx, ev, di, rep.violations


def run_io_contracts(rep: Report, contracts: List[IOContract], seed: int, prop: str, descr: Dict[str, str], procs: int = 16) -> None:
    """All contracts in one pool (heaviest first); one add_bounded record per group."""
    import multiprocessing as mp

    global _JOBS
    order = sorted(range(len(contracts)), key=lambda i: -contracts[i].weight)
    _JOBS = [(contracts[i], seed, k) for i in order for k in range(max(1, contracts[i].shards))]
    ctx = mp.get_context('fork')
    with ctx.Pool(max(1, min(procs, len(_JOBS)))) as pool:
        results = list(pool.imap_unordered(_one, range(len(_JOBS)), chunksize=1))
    results.sort()
    per: Dict[str, List[int]] = {}
    seen: set = set()
    for idx, ev, di, viols in results:
        c = _JOBS[idx][0]
        g = per.setdefault(c.group, [0, 0, 0])
        g[0] += ev
        g[1] += di
        g[2] += 1 if _JOBS[idx][2] == 0 else 0
        for v in viols:
            if (v.obligation, v.key) not in seen:  # shards of one contract report the same defect once
                seen.add((v.obligation, v.key))
                rep.violation(v)
    for gname, (ev, di, k) in per.items():
        ws = sorted({w for c in contracts if c.group == gname for w in c.widths})
        rep.add_bounded(f'{prop}/{gname}: macro contracts executed on the real assembled library (machine definition as the engine)', f'{k} macro applications, widths {ws}; {descr.get(gname, "")}', ev, di)
    rep.extra['macros_under_contract'] = sorted({c.name for c in contracts})


# ------------------------------------------------------------------------------------------------ stale contracts


def doc_index(stl_dir: Path, only: Optional[Sequence[str]] = None) -> Dict[str, List[str]]:
    """full macro name ('hex.print_uint.print_digit', 'stl.output', 'bit._.print_str_one_char') -> the comment block
    above each of its `def`s in the library source (all arities), whitespace-normalised, `//` removed"""
    out: Dict[str, List[str]] = {}
    for f in sorted(stl_dir.rglob('*.fj')):
        if only is not None and str(f.relative_to(stl_dir)) not in only:
            continue
        stack: List[Optional[str]] = []  # namespace name, or None for a def / other block
        block: List[str] = []
        for raw in f.read_text().splitlines():
            line = raw.strip()
            if line.startswith('//'):
                block.append(line[2:].strip())
                continue
            code = line.split('//')[0]
            m_ns = re.match(r'ns\s+([A-Za-z_]\w*)\s*\{', code)
            m_def = re.match(r'def\s+([A-Za-z_]\w*)', code)
            if m_def:
                name = '.'.join([s for s in stack if s] + [m_def.group(1)])
                out.setdefault(name, []).append(' '.join(' '.join(block).split()))
            if m_ns:
                stack.append(m_ns.group(1))
            else:
                stack.extend([None] * code.count('{'))
            for _ in range(code.count('}')):
                if stack:
                    stack.pop()
            if code or not line:
                block = []
    return out


def stl_dir() -> Path:
    import importlib

    return Path(importlib.import_module('flipjump').__file__).parent / 'stl'


def uncovered_macros(contracts: Sequence[IOContract], files: Sequence[str], excused: Dict[str, str]) -> List[str]:
    """every `def` of the given library files that has neither a contract nor a stated reason"""
    have = {n.strip() for c in contracts for n in c.name.split(';')}
    return sorted(n for n in doc_index(stl_dir(), files) if n not in have and n not in excused)


def stale_contracts(contracts: Sequence[IOContract]) -> List[str]:
    """contracts whose `doc` text is no longer found above the macro's def in the library that is being executed:
    the documentation changed after the contract was written - to be re-read, not to be reported as a violation"""
    idx = doc_index(stl_dir())
    stale: List[str] = []
    done: set = set()
    for c in contracts:
        if (c.name, c.doc) in done:
            continue
        done.add((c.name, c.doc))
        names = [n.strip() for n in c.name.split(';')]
        blocks = [b for n in names for b in idx.get(n, [])]
        if not blocks:
            stale.append(f'{c.name}: no documented def of this name in {stl_dir()}')
            continue
        for frag in re.split(r'\s{2,}|\s;\s', c.doc):
            frag = ' '.join(frag.split())
            if not frag or (frag.startswith('[') and frag.endswith(']')):
                continue
            if not any(frag in b for b in blocks):
                stale.append(f'{c.name}: documentation text not found any more: {frag!r}')
                break
    return stale
