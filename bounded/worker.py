"""python -m bounded.worker <kind> <n> <seed> [asan]  -> JSON on stdout: the bounded stand-ins that execute native code
run in their own process, so a crash of the host process is an observation (C11), not a checker crash."""
import json
import sys

sys.path[:0] = ['/verif', __import__('os').environ.get('VERIF_REPO', '/repo')]


def main() -> None:
    kind, n, seed = sys.argv[1], int(sys.argv[2]), int(sys.argv[3])
    from vc.common import Report

    rep = Report('X', 'quick', seed, 'exploration', '')
    if kind == 'differential':
        from bounded import differential as D

        D.run(rep, 'X', n, seed)
    elif kind == 'layouts':
        from bounded import differential as D

        D.run(rep, 'X', n, seed, rings=(None, 0, 1, 2, 5), label='layouts')
    elif kind == 'faults':
        from bounded import faults as F

        F.run(rep, n, seed)
    elif kind == 'devmem':
        from bounded import devmem as DM

        DM.run(rep, n, seed)
    elif kind == 'directed':
        from bounded import directed as DR

        DR.run(rep)
    else:
        raise SystemExit(f'unknown kind {kind}')
    out = dict(bounded=rep.bounded, samples=rep.samples[:3], violations=[dict(obligation=v.obligation, what=v.what, witness=v.witness, replayed=v.replayed, key=v.key) for v in rep.violations[:40]])
    print('@@RESULT@@' + json.dumps(out, default=str))


if __name__ == '__main__':
    main()
