"""differential runs of generated images over all engines of the current tree against the executable spec"""
from __future__ import annotations

import random
import tempfile
from pathlib import Path
from typing import Any, Dict, List, Optional, Tuple

from bounded import engines as E
from vc.common import Report, Violation


def classify_known(img: E.Image, why: str, obs: Dict[str, Any], spec: Dict[str, Any]) -> str:
    """stable key of a difference (used for known-finding matching): engine family + kind of difference"""
    fam = 'native' if obs['engine'].startswith('native') else obs['engine']
    kind = why.split(':')[0]
    top = img.w == 64 and any(s + l >= (1 << 58) - 64 for s, l, _ in img.segments)
    return f'{fam}:{kind}' + (':w64-top-of-address-space' if top else '')


def one_image(img: E.Image, inp: bytes, td: Path, tag: str, *, max_ops: int = 3000, ring: Optional[int] = None, engines: Optional[List[tuple]] = None, version: int = 1) -> Tuple[Optional[Dict[str, Any]], List[Tuple[str, Dict[str, Any], str]]]:
    snapshot = sorted({s + i for s, l, _ in img.segments for i in range(min(l, 64))})
    spec = E.spec_observation(img, inp, max_ops, snapshot)
    if spec is None:
        return None, []
    path = td / f'{tag}.fjm'
    img.write(path, version)
    diffs = []
    for name, kw, env in engines or (E.RING_ENGINES if ring is not None else E.ENGINES):
        if name == 'native-measure' and ring:
            continue
        obs = E.run_engine(path, name, kw, env, inp, last_ops=ring, snapshot=snapshot)
        why = E.compare(spec, obs, last_ops=ring)
        if why:
            diffs.append((why, obs, classify_known(img, why, obs, spec)))
    path.unlink(missing_ok=True)
    return spec, diffs


def run(rep: Report, prop: str, n: int, seed: int, *, rings: Tuple[Optional[int], ...] = (None, 0, 1, 3), label: str = 'engines') -> None:
    rng = random.Random(seed * 7919 + 13)
    evals, distinct, skipped = 0, set(), 0
    sample = None
    with tempfile.TemporaryDirectory() as td:
        tdp = Path(td)
        for it in range(n):
            img = E.gen_image(rng)
            inp = bytes(rng.randrange(256) for _ in range(rng.choice([0, 0, 1, 2])))
            ring = rng.choice(rings)
            spec, diffs = one_image(img, inp, tdp, f'i{it}', ring=ring, version=rng.choice([0, 1, 2, 3]))
            if spec is None:
                skipped += 1
                continue
            evals += 1
            distinct.add((repr(img.describe()), inp, ring))
            sample = dict(image=img.describe(), input=inp.hex(), last_ops=ring, spec=dict(cause=spec['cause'], ops=spec['ops'], address=spec['address'], events=[list(e) for e in spec['events'][:6]]))
            for why, obs, key in diffs:
                rep.violation(
                    Violation(f'bounded:{label}.engine_equals_machine_definition', f'{obs["engine"]} (w={img.w}): {why}', dict(image=img.describe(), input=inp.hex(), last_ops=ring, engine=obs['engine'], observed={k: v for k, v in obs.items() if k != 'memory'}, expected=dict(cause=spec['cause'], ops=spec['ops'], address=spec['address'], events=spec['events'])), True, key=key)
                )
            if diffs and len(rep.violations) > 20:
                break
    rep.add_bounded(f'{label}: generated images on every engine vs the executable machine definition', f'{n} random images (w in 8/16/32/64; dense/two/edge/far/gap layouts; IO ops, self-modifying and unaligned ops) x {len(E.ENGINES)} engine configurations; last-ops ring lengths {rings}; images the spec does not halt within 3000 ops are skipped ({skipped})', evals, len(distinct))
    if sample:
        rep.samples.append(sample)
