"""C18 bounded stand-in: fault injection at every IO call index of generated programs, on every engine"""
from __future__ import annotations

import random
import tempfile
from pathlib import Path
from typing import Any, Dict, List, Optional

from bounded import engines as E
from vc.common import Report, Violation


class Foreign(Exception):
    pass


def expected(img: E.Image, inp: bytes, k: int, max_ops: int = 400):
    """spec outcome when IO call number k raises: ops before the stop, events before the failing call, last ips, memory"""
    m = img.machine()
    bits = [bool((inp[i // 8] >> (i % 8)) & 1) for i in range(8 * len(inp))]
    pos, calls, events = [0], [0], []

    class Stop(Exception):
        pass

    def tick():
        if calls[0] == k:
            raise Stop()
        calls[0] += 1

    def rd():
        tick()
        if pos[0] >= len(bits):
            events.append(('in', 'EOF'))
            return None
        pos[0] += 1
        events.append(('in', bits[pos[0] - 1]))
        return bits[pos[0] - 1]

    def wr(b):
        tick()
        events.append(('out', bool(b)))

    for _ in range(max_ops):
        snap_mem, snap_n, snap_last = dict(m.mem), m.n, list(m.last)
        try:
            r = m.step(rd, wr)
        except Stop:
            # the op that made the failing call is not executed: state before it (its ip was already registered)
            return dict(stopped=True, ops=snap_n, events=list(events), mem=snap_mem, last=list(m.last))
        if r is not None:
            return dict(stopped=False)
    return None


def run(rep: Report, n: int, seed: int) -> None:
    X = __import__('flipjump.utils.exceptions', fromlist=['x'])
    rng = random.Random(seed * 31 + 5)
    evals, distinct = 0, set()
    kinds = [('library-io', lambda: X.IncompleteOutput('injected')), ('foreign', lambda: Foreign('injected')), ('keyboard-interrupt', lambda: KeyboardInterrupt())]
    engines = [e for e in E.ENGINES if e[0] in ('featured', 'fast', 'native-default', 'native-paged', 'native-window3')]
    with tempfile.TemporaryDirectory() as td:
        for it in range(n):
            img = E.gen_image(rng, layout=rng.choice(['dense', 'two', 'gap']))
            inp = bytes(rng.randrange(256) for _ in range(rng.choice([0, 1, 1])))
            base = E.spec_observation(img, inp, 400)
            if base is None:
                continue
            n_calls = len(base['events'])
            if n_calls == 0:
                continue
            k = rng.randrange(n_calls)
            exp = expected(img, inp, k)
            if not exp or not exp['stopped']:
                continue
            snapshot = sorted({s + i for s, l, _ in img.segments for i in range(min(l, 64))})
            path = Path(td) / f'f{it}.fjm'
            img.write(path, 1)
            kname, mk = rng.choice(kinds)
            ring = rng.choice([None, 0, 2, 4])
            for name, kw, env in engines:
                dev = E.make_device(inp, fail_at=k, fail_exc=mk())
                obs = E.run_engine(path, name, kw, env, inp, last_ops=ring, device=dev)
                evals += 1
                distinct.add((repr(img.describe()), inp, k, kname, ring, name))
                want_cause = {'library-io': 'EXC:IncompleteOutput', 'foreign': 'EXC:FlipJumpRuntimeException', 'keyboard-interrupt': 'keyboard-interrupt'}[kname]
                why = None
                ev = [e for e in obs['events'] if e[0] != 'fail']
                if obs['cause'] != want_cause:
                    why = f'termination: {obs["cause"]!r}, expected {want_cause!r}'
                elif kname == 'foreign' and obs.get('exc_cause') != 'Foreign':
                    why = f'the foreign exception is not chained as the cause ({obs.get("exc_cause")})'
                elif ev != exp['events']:
                    why = f'device calls before the stop: {ev!r}, expected {exp["events"]!r}'
                elif kname == 'keyboard-interrupt' and obs.get('ops') != exp['ops']:
                    why = f'reported op count {obs.get("ops")}, expected {exp["ops"]}'
                elif kname == 'keyboard-interrupt' and ring is not None and obs.get('last_ops') != (exp['last'][-ring:] if ring > 0 else []):
                    why = f'last-ops list {obs.get("last_ops")!r}, expected {(exp["last"][-ring:] if ring > 0 else [])!r}'
                if why is None and dev.memory is not None:
                    try:
                        got = {a: int(dev.memory.read_word(a)) for a in snapshot}
                        want = {a: exp['mem'].get(a, 0) for a in snapshot}
                        if got != want:
                            d = [(a, got[a], want[a]) for a in snapshot if got[a] != want[a]][:3]
                            why = f'memory after the stop differs (word, got, want): {d}'
                    except BaseException as e:
                        why = f'reading memory after the stop raised {e!r}'
                if why:
                    fam = 'native' if name.startswith('native') else name
                    key = f'{fam}:{why.split(":")[0].split(" ")[0]}:{kname}'
                    rep.violation(Violation('bounded:faults.stop_at_a_consistent_point', f'{name} (w={img.w}, {kname} at IO call {k}, last_ops={ring}): {why}', dict(image=img.describe(), input=inp.hex(), fail_at=k, kind=kname, last_ops=ring, engine=name), True, key=key))
            path.unlink(missing_ok=True)
    rep.add_bounded('fault injection at an IO call index (library IO error / foreign exception / KeyboardInterrupt) on 5 engine configurations', f'{n} random programs x 1 random call index x 1 fault kind x ring in (None,0,2,4)', evals, len(distinct))
