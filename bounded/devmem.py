"""C19 / C11 bounded stand-in: device-memory traffic during runs (every engine must agree with the spec machine
whose memory receives the same device accesses), and adversarial direct use of the native Memory API."""
from __future__ import annotations

import random
import tempfile
from pathlib import Path
from typing import Any, Dict, List, Optional, Tuple

from bounded import engines as E
from vc.common import Report, Violation


def scripted_run_spec(img: E.Image, inp: bytes, script: Dict[int, tuple], max_ops: int = 600):
    m = img.machine()
    w = img.w
    mask = (1 << w) - 1
    bits = [bool((inp[i // 8] >> (i % 8)) & 1) for i in range(8 * len(inp))]
    pos, calls, events = [0], [0], []
    dbit = w.bit_length()

    def dev():
        op = script.get(calls[0])
        calls[0] += 1
        if op is None:
            return
        if op[0] == 'r':
            events.append(('mem-read', op[1], m.mem.get(op[1], 0)))
        elif op[0] == 'w':
            m.mem[op[1]] = op[2] & mask
        elif op[0] == 'rb':
            jw = (op[1] >> (w.bit_length() - 1)) + 1
            events.append(('byte-read', op[1], (m.mem.get(jw, 0) >> dbit) & 0xFF))
        elif op[0] == 'wb':
            jw = (op[1] >> (w.bit_length() - 1)) + 1
            cur = m.mem.get(jw, 0)
            m.mem[jw] = ((cur & ~(0xFF << dbit)) | ((op[2] & 0xFF) << dbit)) & mask

    def rd():
        dev()
        if pos[0] >= len(bits):
            events.append(('in', 'EOF'))
            return None
        pos[0] += 1
        events.append(('in', bits[pos[0] - 1]))
        return bits[pos[0] - 1]

    def wr(b):
        dev()
        events.append(('out', bool(b)))

    res = None
    for _ in range(max_ops):
        res = m.step(rd, wr)
        if res is not None:
            break
    if res is None:
        return None
    return dict(cause=E.CAUSE_STR[res[0]], ops=res[1], address=res[2], events=events, mem=m.mem)


def run(rep: Report, n: int, seed: int) -> None:
    rng = random.Random(seed * 17 + 3)
    evals, distinct = 0, set()
    engines = [e for e in E.ENGINES if e[0] != 'native-measure']
    with tempfile.TemporaryDirectory() as td:
        for it in range(n):
            img = E.gen_image(rng, w=rng.choice([16, 32, 64]), layout=rng.choice(['dense', 'two', 'gap', 'edge']))
            w = img.w
            inp = bytes(rng.randrange(256) for _ in range(rng.choice([0, 1, 2])))
            words = [s + i for s, l, _ in img.segments for i in range(l)]
            ops_addrs = [a * w for a in words if a % 2 == 0 and a + 1 in set(words)]
            base = E.spec_observation(img, inp, 600)
            if base is None or not base['events']:
                continue
            script: Dict[int, tuple] = {}
            for k in range(len(base['events']) + 2):
                r = rng.random()
                if r < 0.25:
                    script[k] = ('r', rng.choice(words))
                elif r < 0.45:
                    script[k] = ('w', rng.choice(words), rng.randrange(1 << w))
                elif r < 0.55 and ops_addrs:
                    script[k] = ('rb', rng.choice(ops_addrs))
                elif r < 0.65 and ops_addrs:
                    script[k] = ('wb', rng.choice(ops_addrs), rng.randrange(256))
            spec = scripted_run_spec(img, inp, script)
            if spec is None:
                continue
            snapshot = sorted(words)[:96]
            path = Path(td) / f'd{it}.fjm'
            img.write(path, rng.choice([1, 3]))
            for name, kw, env in engines:
                dev = E.make_device(inp)

                def on_call(d, script=script, w=w):
                    op = script.get(d.calls - 1)
                    if op is None or d.memory is None:
                        return
                    if op[0] == 'r':
                        d.events.append(('mem-read', op[1], int(d.memory.read_word(op[1]))))
                    elif op[0] == 'w':
                        d.memory.write_word(op[1], op[2])
                    elif op[0] == 'rb':
                        d.events.append(('byte-read', op[1], int(d.memory.read_data_byte(op[1]))))
                    elif op[0] == 'wb':
                        d.memory.write_data_byte(op[1], op[2])

                dev.on_call = on_call
                obs = E.run_engine(path, name, kw, env, inp, device=dev, snapshot=snapshot)
                evals += 1
                distinct.add((repr(img.describe()), inp, repr(sorted(script.items())), name))
                why = None
                for k in ('cause', 'ops', 'address', 'events'):
                    if spec[k] != obs.get(k):
                        why = f'{k}: {obs.get(k)!r}, the machine with the same device accesses gives {spec[k]!r}'
                        break
                if why is None and isinstance(obs.get('memory'), dict):
                    want = {a: spec['mem'].get(a, 0) for a in snapshot}
                    if obs['memory'] != want:
                        d3 = [(a, obs['memory'][a], want[a]) for a in snapshot if obs['memory'][a] != want[a]][:3]
                        why = f'final memory (word, got, want): {d3}'
                if why:
                    fam = 'native' if name.startswith('native') else name
                    rep.violation(Violation('bounded:devmem.device_sees_program_memory', f'{name} (w={w}): {why}', dict(image=img.describe(), input=inp.hex(), script={str(k): list(v) for k, v in script.items()}, engine=name), True, key=f'{fam}:{why.split(":")[0]}'))
            path.unlink(missing_ok=True)
            if len(rep.violations) > 20:
                break
    rep.add_bounded('device reads/writes (words and packed bytes) at in-segment addresses interleaved with ops, on every engine', f'{n} random programs x scripted device accesses at every IO call x {len(engines)} engine configurations', evals, len(distinct))
    api_abuse(rep, rng, max(20, n // 4))


def api_abuse(rep: Report, rng: random.Random, n: int) -> None:
    """adversarial direct use of _fjcore.Memory: every failure must be a python exception, never a crash
    (a crash kills this worker process and is reported by the parent)"""
    core = E.load_native()
    evals = 0
    for it in range(n):
        w = rng.choice([8, 16, 32, 64])
        try:
            m = core.Memory(w, flat_max_words=rng.choice([0, 1, 2, 3, 7, 1 << 20, (1 << 64) - 1]))
        except Exception:
            continue
        for _ in range(rng.randrange(1, 12)):
            evals += 1
            try:
                r = rng.random()
                if r < 0.3:
                    m.add_segment(rng.choice([0, 2, 1 << 14, (1 << 64) - 4, rng.randrange(1 << 64)]), rng.choice([0, 2, 4, 1 << 14, 1 << 40, (1 << 64) - 1, rng.randrange(1 << 20)]))
                elif r < 0.5:
                    m.set_words(rng.choice([0, 1, (1 << 14) - 1, rng.randrange(1 << 30), (1 << 64) - 2]), [rng.randrange(1 << 64) for _ in range(rng.randrange(0, 5))])
                elif r < 0.65:
                    m.set_word(rng.randrange(1 << 64) if rng.random() < 0.5 else rng.randrange(64), rng.randrange(1 << 64))
                elif r < 0.8:
                    m.get_word(rng.randrange(1 << 64) if rng.random() < 0.5 else rng.randrange(64))
                elif r < 0.9:
                    import signal

                    old = signal.signal(signal.SIGALRM, E._alarm)
                    signal.alarm(5)
                    try:
                        m.run(lambda: False, lambda b: None, EOFError, last_ops_length=rng.choice([0, 0, 1, 5]), start_ip=rng.choice([0, 0, w, 7, rng.randrange(1 << 16)]))
                    finally:
                        signal.alarm(0)
                        signal.signal(signal.SIGALRM, old)
                else:
                    m.__init__(rng.choice([8, 16, 32, 64, 7]))
            except (ValueError, TypeError, MemoryError, OverflowError, EOFError, E.Timeout):
                pass
            except KeyboardInterrupt:
                raise
            except Exception:
                pass
    rep.add_bounded('adversarial direct use of the native Memory API (overflowing ranges, any 64-bit address, re-init, runs from arbitrary ips)', f'{n} object lifetimes x up to 12 calls', evals, evals)
