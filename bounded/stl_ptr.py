"""
Bounded execution of the POINTER / STACK / CALL macro contracts on the real assembled library (C08).

Builds on bounded/stl.py (same machine definition, same assembler/reader path, same re-execution of ONE assembled
instance), with what the value-formula harness does not have:

  * regions: buffers of cells declared in the program (near the code, and in a second segment FAR away so that
    pointer values differ in their high hexes); a pointer variable is poked with the ADDRESS of a cell; the model of
    a region is the pair of full memory words of every cell, so that the expected state after the macro is stated
    for every bit of every cell of every buffer (the pointed one and all its neighbours);
  * traces: the order in which marker ops (entries of a jump table) are reached;
  * a frame over the whole memory: every written word is compared with its value before the execution; only the
    variables' data bits, the regions (compared with their expected value, all bits) and the library's documented
    global pointer registers (hex/bit.pointers.to_flip / to_jump / *_var / read_byte / nth_ptr) may differ;
    bit 0 of word 0 is the language's own scratch bit;
  * random programs: balanced push/pop sequences and nestings of stl.call/stl.return and stl.fcall/stl.fret with
    marker bytes written on entry/exit of every function; the expected output and variable values come from a
    direct LIFO interpretation of the generated program.
"""

from __future__ import annotations

import collections
import contextlib
import importlib
import io
import random
import tempfile
from dataclasses import dataclass, field
from pathlib import Path
from typing import Any, Callable, Dict, Iterable, List, Optional, Sequence, Tuple, Union

from bounded.stl import Harness, MacroContract, Var
from spec.machine import Machine
from vc.common import Report, Violation

BITS = {'hex': 4, 'bit': 1, 'byte': 8}
WText = Union[str, Callable[[int], str]]


def far_address(w: int) -> int:
    """a dw-aligned address far from the code, with a mixed hex pattern and the top bit set"""
    return {64: 0xA5C3_96E1_7B00_0000, 32: 0xA5C3_9000, 16: 0xF800}[w]


@dataclass
class Region:
    """ncells consecutive ops at `label` (+ first*dw); modelled as [w0, w1] full words per cell"""

    label: str
    ncells: int
    first: int = 0


@dataclass
class Case:
    pokes: Dict[str, int]  # variable -> value poked before the execution
    want: Dict[str, int] = field(default_factory=dict)  # variable -> documented value after (others: unchanged)
    regions: Dict[str, List[List[int]]] = field(default_factory=dict)  # region -> cells poked
    want_regions: Dict[str, List[List[int]]] = field(default_factory=dict)  # region -> documented cells after
    poke_words: Dict[int, int] = field(default_factory=dict)
    want_words: List[Tuple[int, int, int]] = field(default_factory=list)  # (word, mask, value)
    trace: Tuple[str, ...] = ()  # documented order of marker visits
    output: bytes = b''
    soft_frame: bool = False  # tolerate changes inside the code of the macro instance itself (words of [again, done))
    info: Dict[str, Any] = field(default_factory=dict)  # readable description of the operands (witness)


@dataclass
class Program:
    name: str  # the macro (or program family) the obligation is named after
    call: WText  # text between `again:` and `;done`
    vars: Callable[[int], Dict[str, Var]]
    cases: Callable[['PtrHarness', random.Random, str], Iterable[Case]]
    doc: str = ''
    decl: WText = ''  # declarations after the variables (buffers, tables, functions, far segment)
    regions: Callable[[int], Dict[str, Region]] = lambda w: {}
    markers: Callable[[int], Sequence[str]] = lambda w: ()  # 'label' or 'label+k' (k ops further)
    startup: WText = 'stl.startup_and_init_all'
    widths: Tuple[int, ...] = (64, 32)
    external: Tuple[str, ...] = ()  # variables that the library / decl declares itself (label = variable name)
    scratch_stack: int = 0  # number of stack cells: cells above sp are dead after a pop, the stack area is exempt from the frame
    max_ops: int = 2_000_000
    group: str = 'pointer macros'
    variant: str = ''  # distinguishes several applications of one macro
    candidate: str = (
        ''  # non-empty: a known disagreement between documentation and behaviour that is REPORTED (evidence: candidate_findings), not counted
    )


def _t(x: WText, w: int) -> str:
    return x(w) if callable(x) else x


class _Tracked(dict):
    """memory that remembers the first value of every word written since `arm()`"""

    def __init__(self, *a: Any):
        super().__init__(*a)
        self.old: Dict[int, int] = {}

    def __setitem__(self, k: int, v: int) -> None:
        if k not in self.old:
            self.old[k] = self.get(k, 0)
        super().__setitem__(k, v)

    def arm(self) -> None:
        self.old = {}


class PtrHarness(Harness):
    def __init__(self, p: Program, w: int, td: Path):  # noqa: super().__init__ is replaced on purpose (other program skeleton)
        self.p, self.w = p, w
        self.dw = 2 * w
        self.vars = p.vars(w)
        self.c = MacroContract(p.name, _t(p.call, w), self.vars, lambda v: {})  # read/poke of the base class use c.vars
        lines = [_t(p.startup, w), 'again:', '  ' + _t(p.call, w), '  ;done', 'done:', '  stl.loop']
        for nm, v in self.vars.items():
            if nm not in p.external:
                lines.append(f'{nm}: {"bit" if v.kind == "bit" else "hex"}.vec {v.n}')
        if p.decl:
            lines.append(_t(p.decl, w))
        self.source = '\n'.join(lines) + '\n'
        flipjump = importlib.import_module('flipjump')
        R = importlib.import_module('flipjump.fjm.fjm_reader')
        U = importlib.import_module('flipjump.utils.functions')
        src = td / 'h.fj'
        src.write_text(self.source)
        out, dbg = td / 'h.fjm', td / 'h.fjd'
        with contextlib.redirect_stdout(io.StringIO()):
            flipjump.assemble([src], out, memory_width=w, debugging_file_path=dbg, print_time=False, warning_as_errors=False)
        rd = R.Reader(out)
        self.labels = U.load_debugging_labels(dbg)
        segs = [(s.segment_start, s.segment_length) for s in rd.memory_segments]
        self.m = Machine(w, segs, {})
        self.m.mem = _Tracked(rd.memory)
        self.m.last = collections.deque(maxlen=8)
        self.addr = {nm: self.A(nm) for nm in list(self.vars) + ['again', 'done']}
        self.regions = p.regions(w)
        self.raddr = {nm: self.A(r.label) + r.first * self.dw for nm, r in self.regions.items()}
        self.marker_at: Dict[int, str] = {self.A(mk): mk for mk in p.markers(w)}
        self.out_bits: List[bool] = []
        self.inp_bits: List[bool] = []
        self.dbit = w.bit_length()  # position of the data bits inside the second word of a cell
        self.mask = (1 << w) - 1
        self._run_until({self.addr['again']}, 5_000_000)
        self.scratch = self._scratch()

    # ---- addresses
    def _label(self, nm: str) -> int:
        if nm in self.labels:  # a top-level label wins over a macro-local label of the same name
            return self.labels[nm]
        return super()._label(nm)

    def A(self, nm: str) -> int:
        """bit address of 'label' or 'label+k' (k ops after the label)"""
        k = 0
        if '+' in nm:
            nm, ks = nm.rsplit('+', 1)
            k = int(ks)
        return self._label(nm) + k * self.dw

    def has(self, nm: str) -> bool:
        try:
            self._label(nm)
            return True
        except KeyError:
            return False

    def cell(self, region: str, i: int) -> int:
        return self.raddr[region] + i * self.dw

    # ---- variables with 1 / 4 / 8 data bits per cell
    def read(self, nm: str) -> int:
        v = self.vars[nm]
        bits = BITS[v.kind]
        val = 0
        for i in range(v.n):
            val |= ((self.m.mem.get(self.cell_word(nm, i), 0) >> self.dbit) & ((1 << bits) - 1)) << (i * bits)
        return val

    def poke(self, nm: str, value: int) -> None:
        v = self.vars[nm]
        bits = BITS[v.kind]
        for i in range(v.n):
            a = self.cell_word(nm, i)
            cur = self.m.mem.get(a, 0)
            c = (value >> (i * bits)) & ((1 << bits) - 1)
            self.m.mem[a] = (cur & ~(((1 << bits) - 1) << self.dbit)) | (c << self.dbit)

    def var_words(self) -> Dict[int, int]:
        out: Dict[int, int] = {}
        for nm, v in self.vars.items():
            for i in range(v.n):
                out[self.cell_word(nm, i)] = ((1 << BITS[v.kind]) - 1) << self.dbit
        return out

    def _scratch(self) -> Dict[int, int]:
        """the global registers that the documentation of ptr_init / stack_init hands to the pointer macros"""
        w, out = self.w, {}  # type: int, Dict[int, int]
        full = self.mask
        for ns, n, bits in (('hex', w // 4, 4), ('bit', w, 1)):
            if not self.has(f'{ns}.pointers.to_flip'):
                continue
            out[self._label(f'{ns}.pointers.to_flip') // w] = full  # the flipping address (first word)
            out[self._label(f'{ns}.pointers.to_jump') // w + 1] = full  # the jumping address (second word)
            for nm in ('to_flip_var', 'to_jump_var') + (('nth_ptr',) if ns == 'hex' else ()):
                a = self._label(f'{ns}.pointers.{nm}')
                for i in range(n):
                    out[(a + i * self.dw) // w + 1] = ((1 << bits) - 1) << self.dbit
        if self.has('hex.pointers.read_byte'):
            a = self._label('hex.pointers.read_byte')
            for i in range(2):
                out[(a + i * self.dw) // w + 1] = 0xF << self.dbit
        if self.p.scratch_stack:
            a = self._label('hex.pointers.stack')
            for i in range(1, self.p.scratch_stack + 1):  # stack[0] (the error-handler cell) stays in the frame
                out[(a + i * self.dw) // w + 1] = full
        return out

    # ---- one execution
    def execute(self, cs: Case) -> Optional[str]:
        """pokes, runs from `again` to `done`, returns None or the first difference with the documented effect"""
        m, w = self.m, self.w
        mem = m.mem
        for nm, x in cs.pokes.items():
            self.poke(nm, x)
        for rn, cells in cs.regions.items():
            for i, (w0, w1) in enumerate(cells):
                a = self.cell(rn, i) // w
                mem[a], mem[a + 1] = w0 & self.mask, w1 & self.mask
        for a, x in cs.poke_words.items():
            mem[a] = x & self.mask
        before_vars = {nm: self.read(nm) for nm in self.vars}
        self.out_bits = []
        self.inp_bits = []
        mem.arm()
        m.ip = self.addr['again']
        trace: List[str] = []
        res = None
        n0 = m.n
        marker_at = self.marker_at
        for _ in range(self.p.max_ops):
            if marker_at and m.ip in marker_at:
                trace.append(marker_at[m.ip])
            res = m.step(self._rd, self.out_bits.append)
            if res is not None:
                break
        self.ops = m.n - n0
        if not (res is not None and res[0] == 'looping' and m.ip == self.addr['done']):
            return f'did not come back to `done`: {res} after {m.n - n0} ops at ip={m.ip:#x}; markers reached: {trace[:12]}'
        if tuple(trace) != tuple(cs.trace):
            return f'reached the marker ops {trace[:12]}, documented: {list(cs.trace)[:12]}'
        for nm, v in self.vars.items():
            bits = BITS[v.kind] * v.n
            want = cs.want.get(nm, before_vars[nm]) % (1 << bits)
            got = self.read(nm)
            if got != want:
                return f'{nm} = {got:#x}, documented: {want:#x}' + ('' if nm in cs.want else ' (must not change)')
        allowed: Dict[int, int] = {}
        for rn, cells in cs.want_regions.items():
            for i, (w0, w1) in enumerate(cells):
                a = self.cell(rn, i) // w
                allowed[a] = allowed[a + 1] = self.mask
                g0, g1 = mem.get(a, 0), mem.get(a + 1, 0)
                if (g0, g1) != (w0 & self.mask, w1 & self.mask):
                    was = cs.regions.get(rn)
                    wtxt = f' (before: {was[i][0]:#x};{was[i][1]:#x})' if was else ''
                    return f'cell {rn}[{i}] = {g0:#x};{g1:#x}, documented: {w0 & self.mask:#x};{w1 & self.mask:#x}{wtxt}'
        for a, msk, x in cs.want_words:
            allowed[a] = allowed.get(a, 0) | msk
            if mem.get(a, 0) & msk != x & msk:
                return f'word {a:#x} = {mem.get(a, 0) & msk:#x} (mask {msk:#x}), documented: {x & msk:#x}'
        vw = self.var_words()
        broken = []
        for a, old in mem.old.items():
            new = mem.get(a, 0)
            if old != new:
                ok = allowed.get(a, 0) | vw.get(a, 0) | self.scratch.get(a, 0) | (1 if a == 0 else 0)
                if a == 2 and cs.output:
                    ok |= 3  # writing a bit IS flipping bit 0 / 1 of the IO word (2w, 2w+1)
                if (old ^ new) & ~ok and not (cs.soft_frame and self.addr['again'] // w <= a < self.addr['done'] // w):
                    broken.append(a)
        if broken:
            broken.sort()
            names = [k for k, a in self.labels.items() if any(a // w <= x <= a // w + 1 for x in broken[:4])][:3]
            a = broken[0]
            return (
                f'changed memory outside its destinations: words {[hex(x) for x in broken[:4]]} {names}: '
                f'word {a:#x} {mem.old[a]:#x} -> {mem.get(a, 0):#x}'
            )
        nb = len(self.out_bits)
        out_bytes = bytes(sum((1 << j) for j in range(8) if self.out_bits[i + j]) for i in range(0, nb - nb % 8, 8))
        if out_bytes != cs.output or nb % 8:
            return f'output {out_bytes!r} ({nb} bits), documented: {cs.output!r}'
        return None


# ----------------------------------------------------------------------------- running programs


def check_program(p: Program, w: int, tier: str, seed: int) -> Tuple[int, int, List[Violation]]:
    rng = random.Random(f'{p.name}|{p.variant}|{w}|{seed}')  # (str seeds do not depend on PYTHONHASHSEED)
    evals = 0
    distinct = set()
    tag = p.name + (f'[{p.variant}]' if p.variant else '')
    with tempfile.TemporaryDirectory() as tds:
        try:
            h = PtrHarness(p, w, Path(tds))
        except Exception as e:
            return (
                0,
                0,
                [
                    Violation(
                        f'bounded:{p.name}.harness_assembles',
                        f'{tag} (w={w}): the harness program does not assemble / start: {type(e).__name__}: {str(e)[:300]}',
                        dict(call=_t(p.call, w), w=w),
                        True,
                        key=f'{p.name}:assemble',
                    )
                ],
            )
        for cs in p.cases(h, rng, tier):
            why = h.execute(cs)
            evals += 1
            distinct.add(repr(sorted(cs.info.items())))
            if why:
                call = ' ; '.join(x.strip() for x in _t(p.call, w).split('\n'))
                short = call if len(call) < 200 else call[:200] + ' ...'
                v = Violation(
                    f'bounded:{p.name}.contract',
                    f'{short} (w={w}) on {cs.info}: {why}   [doc: {p.doc}]',
                    dict(
                        program=tag,
                        w=w,
                        operands=cs.info,
                        pokes=cs.pokes,
                        source=h.source if len(h.source) < 6000 else h.source[:6000] + '...',
                        executions_before=evals - 1,
                    ),
                    True,
                    key=f'{p.name}:{why.split(" ")[0]}',
                )
                return evals, len(distinct), [v]
    return evals, len(distinct), []


_JOBS: list = []


def _one(idx: int):
    p, w, tier, seed = _JOBS[idx]
    try:
        return check_program(p, w, tier, seed)
    except Exception as e:  # a crash of the harness itself is reported as such (not as a library defect)
        import traceback

        return (
            0,
            0,
            [
                Violation(
                    f'bounded:{p.name}.harness',
                    f'{p.name} (w={w}): harness error {type(e).__name__}: {e}',
                    dict(trace=traceback.format_exc()[-800:]),
                    False,
                    key=f'{p.name}:harness',
                )
            ],
        )


def run_programs(
    rep: Report, programs: List[Program], tier: str, seed: int, prop: str, widths: Callable[[Program], Sequence[int]], procs: int = 16
) -> None:
    import multiprocessing as mp

    global _JOBS
    jobs = [(p, w, tier, seed) for p in programs for w in widths(p)]
    jobs.sort(key=lambda j: -j[0].max_ops)  # (stable) the long programs first
    _JOBS = jobs  # programs hold lambdas: the forked workers read them from here, only indices are pickled
    ctx = mp.get_context('fork')
    with ctx.Pool(max(1, min(procs, len(jobs)))) as pool:
        results = pool.map(_one, range(len(jobs)), chunksize=1)
    per_group: Dict[str, List[int]] = {}
    ws: Dict[str, set] = {}
    names: Dict[str, set] = {}
    found: List[Tuple[int, int, Violation]] = []
    for (p, w, *_), (ev, di, viols) in zip(jobs, results):
        g = per_group.setdefault(p.group, [0, 0, 0])
        g[0] += ev
        g[1] += di
        g[2] += 1
        ws.setdefault(p.group, set()).add(w)
        names.setdefault(p.group, set()).add(p.name)
        for v in viols:
            if p.candidate and not v.obligation.endswith('.harness'):
                rep.extra.setdefault('candidate_findings', []).append(
                    dict(program=p.name, variant=p.variant, w=w, note=p.candidate, observed=v.what)
                )
            else:
                found.append((p.max_ops, len(found), v))
    for _, _, v in sorted(found, key=lambda x: x[:2]):  # the single applications (most precise witness) before the random programs
        rep.violation(v)
    for g, (ev, di, n) in per_group.items():
        rep.add_bounded(
            f'{prop}: {g}',
            f'{n} assembled programs ({len(names[g])} macros / families), widths {sorted(ws[g])}; every execution re-uses the assembled '
            'instance in the state the previous one left; see the module doc of bounded/stl_ptr.py and contracts/fj/pointers.py for the operand domains',
            ev,
            di,
        )
    rep.extra['macros_under_contract'] = sorted({p.name for p in programs})


# ----------------------------------------------------------------------------- helpers for case generators


def euler_pairs(n: int, rng: random.Random) -> List[int]:
    """a walk over range(n) in which every ordered pair (a, b), a == b included, occurs as consecutive elements"""
    perm = list(range(n))
    rng.shuffle(perm)
    nxt = {a: list(range(n)) for a in range(n)}
    for a in nxt:
        rng.shuffle(nxt[a])
    stack, walk = [0], []
    while stack:
        a = stack[-1]
        if nxt[a]:
            stack.append(nxt[a].pop())
        else:
            walk.append(stack.pop())
    walk.reverse()
    return [perm[x] for x in walk]


def cycle_values(rng: random.Random, n: int, count: int) -> List[int]:
    """`count` values of range(n): whole shuffled permutations one after the other (all values occur if count >= n)"""
    out: List[int] = []
    while len(out) < count:
        perm = list(range(n)) if n <= 4096 else [rng.randrange(n) for _ in range(count)]
        if n > 4096:
            perm[:4] = [0, n - 1, 1, n // 2][: len(perm)]
        rng.shuffle(perm)
        out += perm
    return out[:count]
