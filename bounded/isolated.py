"""run a bounded worker in a subprocess (optionally under the ASan build) and fold its result into a Report"""
from __future__ import annotations

import json
import os
import subprocess
import sys
from typing import Any, Dict, List

from vc.common import Report, Violation

VERIF = '/verif'


def run(rep: Report, kind: str, n: int, seed: int, *, timeout: int = 1500, asan: bool = False, label: str = '', only_crashes: bool = False) -> None:
    env = dict(os.environ)
    env['PYTHONPATH'] = '/verif:' + os.environ.get('VERIF_REPO', '/repo')
    env['PYTHONDONTWRITEBYTECODE'] = '1'
    if asan:
        env['VERIF_NATIVE_ASAN'] = '1'
        rt = subprocess.run(['clang', '-print-file-name=libclang_rt.asan-x86_64.so'], capture_output=True, text=True).stdout.strip()
        env['LD_PRELOAD'] = rt
        env['ASAN_OPTIONS'] = 'detect_leaks=0:allocator_may_return_null=1:max_allocation_size_mb=4096:abort_on_error=1:halt_on_error=1'
        env['UBSAN_OPTIONS'] = 'halt_on_error=1:print_stacktrace=1'
    name = label or kind
    try:
        p = subprocess.run([sys.executable, '-m', 'bounded.worker', kind, str(n), str(seed)], capture_output=True, text=True, timeout=timeout, env=env, cwd=VERIF)
    except subprocess.TimeoutExpired:
        rep.undecide(f'obligation=bounded:{name} reason=the bounded run exceeded {timeout}s')
        return
    line = [l for l in p.stdout.splitlines() if l.startswith('@@RESULT@@')]
    if p.returncode != 0 or not line:
        report = (p.stderr or '')[-3000:]
        sanitizer = 'AddressSanitizer' in report or 'runtime error' in report or 'UndefinedBehaviorSanitizer' in report
        crashed = p.returncode < 0 or sanitizer or 'Aborted' in report or 'corrupted' in report or 'double free' in report or 'Segmentation' in report
        if crashed:
            rep.violation(Violation(f'bounded:{name}.host_process_survives', f'the native engine crashed the host process / sanitizer report (exit {p.returncode})', dict(kind=kind, n=n, seed=seed, asan=asan, stderr_tail=report[-1500:]), True, key='sanitizer' if sanitizer else 'crash'))
        else:
            rep.undecide(f'obligation=bounded:{name} reason=worker failed (exit {p.returncode}): {report[-300:]!r}')
        return
    out = json.loads(line[0][len('@@RESULT@@'):])
    for b in out['bounded']:
        b = dict(b)
        nm = b.pop('name')
        dom = b.pop('domain')
        ev = b.pop('evaluations')
        di = b.pop('distinct_nontrivial')
        rep.add_bounded(nm + (' [ASan+UBSan build]' if asan else ''), dom, ev, di, **b)
    rep.samples.extend(out['samples'])
    for v in out['violations']:
        if only_crashes:
            continue  # behavioural differences belong to C01/C07/C18/C19; C11 is about crashes and sanitizer reports
        rep.violation(Violation(v['obligation'], v['what'], v['witness'], v['replayed'], v['key']))
