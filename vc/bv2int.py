"""
bv2int: exact translation of a bit-vector obligation into integer arithmetic.

Why: obligations whose argument is modular arithmetic with a SYMBOLIC modulus (the last-ops ring: index
`k % last_ops_length`) defeat bit-blasting at 64 bits (three 64-bit dividers to be proved equivalent), while the
integer solvers decide them in a second once the quotients are integers.

The translation is a homomorphism, not an abstraction: a bit-vector of width n becomes an integer in [0, 2^n), and
every operation becomes the integer operation followed by the reduction that the machine performs
(`bvadd a b` -> `(a + b) mod 2^n`, `bvurem a b` -> `ite(b = 0, a, a mod b)`, signed comparisons through the two's
complement reading, ...).  Machine wrap-around is therefore KEPT, nothing is "treated as mathematical".  Every
bit-vector model of the original formula maps to an integer model of the translation and back (arrays restricted to
indices in range; base arrays carry the axiom that their elements are in range), so the two are equisatisfiable.
An operator without a rule raises Undecided - nothing is approximated.

`self_test` cross-checks the rules on every run: random values through z3's own bit-vector evaluator against the
translated term's integer value.
"""
from __future__ import annotations

import random
from typing import Any, Dict, List, Tuple

import z3

from vc.common import Undecided


class BV2Int:
    def __init__(self) -> None:
        self.cache: Dict[int, Any] = {}
        self.consts: Dict[str, Tuple[Any, Any]] = {}  # name -> (bv const, int const)
        self.arrays: Dict[str, Tuple[Any, Any]] = {}
        self.side: List[Any] = []  # range facts of the translated constants / axioms of base arrays
        self.ops: Dict[str, int] = {}
        self._fresh = 0

    # -- sorts
    def sort(self, s: Any) -> Any:
        if z3.is_bv_sort(s):
            return z3.IntSort(s.ctx)
        if (s.kind() == z3.Z3_ARRAY_SORT):
            return z3.ArraySort(self.sort(s.domain()), self.sort(s.range()))
        if s.kind() in (z3.Z3_BOOL_SORT, z3.Z3_INT_SORT):
            return s
        raise Undecided(f'bv2int: sort {s} has no rule')

    @staticmethod
    def _signed(x: Any, n: int) -> Any:
        return z3.If(x >= (1 << (n - 1)), x - (1 << n), x)

    def _const(self, e: Any) -> Any:
        name = e.decl().name()
        s = e.sort()
        if z3.is_bv_sort(s):
            if name not in self.consts:
                c = z3.Int(name + '!int', e.ctx)
                self.consts[name] = (e, c)
                self.side.append(z3.And(c >= 0, c < (1 << s.size())))
            return self.consts[name][1]
        if (s.kind() == z3.Z3_ARRAY_SORT):
            if name not in self.arrays:
                a = z3.Const(name + '!int', self.sort(s))
                self.arrays[name] = (e, a)
                if z3.is_bv_sort(s.range()) and z3.is_bv_sort(s.domain()):
                    j = z3.Int(f'j!{name}', e.ctx)
                    self.side.append(z3.ForAll([j], z3.And(z3.Select(a, j) >= 0, z3.Select(a, j) < (1 << s.range().size()))))
                elif not (s.range().kind() in (z3.Z3_BOOL_SORT, z3.Z3_INT_SORT)):
                    raise Undecided(f'bv2int: array constant {name} of sort {s} has no rule')
            return self.arrays[name][1]
        return e  # Bool / Int constant

    def tr(self, e: Any) -> Any:
        key = e.get_id()
        if key in self.cache:
            return self.cache[key]
        r = self._tr(e)
        self.cache[key] = r
        return r

    def _tr(self, e: Any) -> Any:
        if z3.is_quantifier(e):
            n = e.num_vars()
            bvs, ints, guards = [], [], []
            for i in range(n):
                s = e.var_sort(i)
                self._fresh += 1
                nm = f'{e.var_name(i)}!q{self._fresh}'
                bvs.append(z3.Const(nm, s))
                if z3.is_bv_sort(s):
                    c = z3.Int(nm + '!int', e.ctx)
                    guards.append(z3.And(c >= 0, c < (1 << s.size())))
                elif s.kind() in (z3.Z3_BOOL_SORT, z3.Z3_INT_SORT):
                    c = z3.Const(nm + '!int', s)
                else:
                    raise Undecided(f'bv2int: bound variable of sort {s}')
                ints.append(c)
            body = z3.substitute_vars(e.body(), *reversed(bvs))
            sub = BV2Int()
            sub.consts, sub.arrays, sub.side, sub.ops = dict(self.consts), self.arrays, self.side, self.ops
            sub._fresh = self._fresh
            for b, c in zip(bvs, ints):
                if z3.is_bv_sort(b.sort()):
                    sub.consts[b.decl().name()] = (b, c)
            tb = sub.tr(body)
            self._fresh = sub._fresh
            for nm_, pair in sub.consts.items():  # free constants first met inside the body
                if nm_ not in self.consts and not any(nm_ == b.decl().name() for b in bvs):
                    self.consts[nm_] = pair
            g = z3.And(*guards) if guards else z3.BoolVal(True, e.ctx)
            if e.is_forall():
                return z3.ForAll(ints, z3.Implies(g, tb))
            if e.is_exists():
                return z3.Exists(ints, z3.And(g, tb))
            raise Undecided('bv2int: lambda')
        if not z3.is_app(e):
            raise Undecided(f'bv2int: {e}')
        k = e.decl().kind()
        if k == z3.Z3_OP_BNUM:
            return z3.IntVal(e.as_long(), e.ctx)
        if k == z3.Z3_OP_UNINTERPRETED:
            if e.num_args() == 0:
                return self._const(e)
            raise Undecided(f'bv2int: uninterpreted function {e.decl().name()}')
        if z3.is_int_value(e) or z3.is_true(e) or z3.is_false(e):
            return e
        a = [self.tr(c) for c in e.children()]
        self.ops[e.decl().name()] = self.ops.get(e.decl().name(), 0) + 1
        n = e.sort().size() if z3.is_bv(e) else 0
        an = e.arg(0).sort().size() if e.num_args() and z3.is_bv(e.arg(0)) else 0
        if k in (z3.Z3_OP_AND, z3.Z3_OP_OR, z3.Z3_OP_NOT, z3.Z3_OP_IMPLIES, z3.Z3_OP_XOR, z3.Z3_OP_ITE, z3.Z3_OP_EQ, z3.Z3_OP_DISTINCT,
                 z3.Z3_OP_SELECT, z3.Z3_OP_STORE):
            if k == z3.Z3_OP_AND:
                return z3.And(*a)
            if k == z3.Z3_OP_OR:
                return z3.Or(*a)
            if k == z3.Z3_OP_NOT:
                return z3.Not(a[0])
            if k == z3.Z3_OP_IMPLIES:
                return z3.Implies(a[0], a[1])
            if k == z3.Z3_OP_XOR:
                return z3.Xor(a[0], a[1])
            if k == z3.Z3_OP_ITE:
                return z3.If(a[0], a[1], a[2])
            if k == z3.Z3_OP_EQ:
                return a[0] == a[1]
            if k == z3.Z3_OP_DISTINCT:
                return z3.Distinct(*a)
            if k == z3.Z3_OP_SELECT:
                return z3.Select(a[0], a[1])
            return z3.Store(a[0], a[1], a[2])
        if k == z3.Z3_OP_BADD:
            return sum(a[1:], a[0]) % (1 << n)
        if k == z3.Z3_OP_BSUB:
            r = a[0]
            for x in a[1:]:
                r = r - x
            return r % (1 << n)
        if k == z3.Z3_OP_BMUL:
            r = a[0]
            for x in a[1:]:
                r = r * x
            return r % (1 << n)
        if k == z3.Z3_OP_BNEG:
            return (-a[0]) % (1 << n)
        if k in (z3.Z3_OP_BUREM, z3.Z3_OP_BUREM_I):
            return z3.If(a[1] == 0, a[0], a[0] % a[1])
        if k in (z3.Z3_OP_BUDIV, z3.Z3_OP_BUDIV_I):
            return z3.If(a[1] == 0, z3.IntVal((1 << n) - 1, e.ctx), a[0] / a[1])
        if k == z3.Z3_OP_ULT:
            return a[0] < a[1]
        if k == z3.Z3_OP_ULEQ:
            return a[0] <= a[1]
        if k == z3.Z3_OP_UGT:
            return a[0] > a[1]
        if k == z3.Z3_OP_UGEQ:
            return a[0] >= a[1]
        if k == z3.Z3_OP_SLT:
            return self._signed(a[0], an) < self._signed(a[1], an)
        if k == z3.Z3_OP_SLEQ:
            return self._signed(a[0], an) <= self._signed(a[1], an)
        if k == z3.Z3_OP_SGT:
            return self._signed(a[0], an) > self._signed(a[1], an)
        if k == z3.Z3_OP_SGEQ:
            return self._signed(a[0], an) >= self._signed(a[1], an)
        if k == z3.Z3_OP_ZERO_EXT:
            return a[0]
        if k == z3.Z3_OP_SIGN_EXT:
            return z3.If(a[0] >= (1 << (an - 1)), a[0] + ((1 << n) - (1 << an)), a[0])
        if k == z3.Z3_OP_EXTRACT:
            hi, lo = e.params()
            return (a[0] / (1 << lo)) % (1 << (hi - lo + 1))
        if k == z3.Z3_OP_CONCAT:
            r = a[0]
            for c, x in zip(e.children()[1:], a[1:]):
                r = r * (1 << c.sort().size()) + x
            return r
        raise Undecided(f'bv2int: operator {e.decl().name()} has no rule (nothing is approximated)')

    def formulas(self, fs: List[Any]) -> List[Any]:
        return [self.tr(f) for f in fs]


def translate_obligation(hyps: List[Any], goal: Any) -> Tuple[List[Any], Any, BV2Int]:
    """(hyps, goal) over bit-vectors -> (hyps', goal') over integers, equisatisfiable (see module text)"""
    t = BV2Int()
    g = t.tr(goal) if goal is not None else None
    hs = t.formulas(hyps)
    return list(t.side) + hs, g, t


def self_test(terms: List[Any], rounds: int = 40, seed: int = 1) -> int:
    """quantifier-free, array-free bit-vector / boolean terms: z3's bit-vector evaluation == value of the translation under
    the same assignment.  -> number of (term, assignment) comparisons; raises Undecided on the first disagreement."""
    rnd = random.Random(seed)
    n_checked = 0
    for term in terms:
        t = BV2Int()
        ti = t.tr(term)
        if t.arrays:
            continue
        for _ in range(rounds):
            sub_bv, sub_int = [], []
            for name, (b, c) in t.consts.items():
                w = b.sort().size()
                v = rnd.choice([0, 1, 2, (1 << w) - 1, (1 << (w - 1)), (1 << (w - 1)) - 1, rnd.getrandbits(w), rnd.getrandbits(rnd.randint(1, w))]) & ((1 << w) - 1)
                sub_bv.append((b, z3.BitVecVal(v, w)))
                sub_int.append((c, z3.IntVal(v)))
            vb = z3.simplify(z3.substitute(term, *sub_bv)) if sub_bv else z3.simplify(term)
            vi = z3.simplify(z3.substitute(ti, *sub_int)) if sub_int else z3.simplify(ti)
            if z3.is_bv(term):
                ok = z3.is_bv_value(vb) and z3.is_int_value(vi) and vb.as_long() == vi.as_long()
            else:
                ok = (z3.is_true(vb) and z3.is_true(vi)) or (z3.is_false(vb) and z3.is_false(vi))
            if not ok:
                raise Undecided(f'bv2int self-test: {term} evaluates to {vb} but its translation to {vi}')
            n_checked += 1
    return n_checked
