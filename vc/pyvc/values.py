"""
Value model of the Python symbolic executor.

Python ints are either concrete `int`s or terms of the chosen integer theory:
  * IntMath : z3 Int (exact, unbounded).  Bit operators are supported where one operand is a
    concrete mask 2^k-1 / shift amount (they become mod / div / mul); everything else is Undecided.
  * IntBV(N): z3 BitVec(N), two's complement.  Every value carries a conservative signed bit-size
    bound; an operation whose result could need N bits or more is Undecided, so BV arithmetic
    coincides with mathematical arithmetic on everything that is verified (checked, not assumed).
Python bools are concrete or z3 Bool.  Containers: SList (list/bytes of ints or of fixed-arity int
tuples) and SDict (int -> int), both functional values (length/domain + z3 arrays); mutable ones
live on the heap behind a Ref.  Obj is an instance of a real class of the repository with a
field dictionary.  Anything else is an ordinary concrete Python object of the imported module.
"""
from __future__ import annotations

import itertools
from dataclasses import dataclass, field
from typing import Any, Dict, List, Optional, Tuple

import z3

from vc.common import Undecided

_fresh = itertools.count()


def fresh_name(base: str) -> str:
    return f'{base}!{next(_fresh)}'


# --------------------------------------------------------------------------- integer theories


class IntMath:
    name = 'math-int'

    def sort(self):
        return z3.IntSort()

    def const(self, name: str):
        return z3.Int(name)

    def val(self, v: int):
        return z3.IntVal(v)

    def is_term(self, x) -> bool:
        return isinstance(x, z3.ArithRef)

    def lift(self, x):
        if isinstance(x, bool):
            return z3.IntVal(1 if x else 0)
        if isinstance(x, int):
            return z3.IntVal(x)
        if isinstance(x, z3.BoolRef):
            return z3.If(x, z3.IntVal(1), z3.IntVal(0))
        return x

    # arithmetic
    def add(self, a, b):
        return a + b

    def sub(self, a, b):
        return a - b

    def mul(self, a, b):
        return a * b

    def neg(self, a):
        return -a

    def floordiv(self, a, b):
        # python floor division; z3 div is Euclidean (floor for b > 0, ceil for b < 0)
        if isinstance(b, int) or z3.is_int_value(b):
            bv = b if isinstance(b, int) else b.as_long()
            if bv > 0:
                return a / bv
            raise Undecided('floordiv by a non-positive constant')
        b = self.lift(b)
        q = a / b
        return z3.If(b > 0, q, z3.If(a % b == 0, q, q - 1))

    def mod(self, a, b):
        if isinstance(b, int) or z3.is_int_value(b):
            bv = b if isinstance(b, int) else b.as_long()
            if bv > 0:
                return a % bv
            raise Undecided('mod by a non-positive constant')
        b = self.lift(b)
        r = a % b  # in [0, |b|)
        return z3.If(b > 0, r, z3.If(r == 0, r, r + b))

    def lt(self, a, b):
        return a < b

    def le(self, a, b):
        return a <= b

    def eq(self, a, b):
        return a == b

    # bit operators: only with concrete masks / shift amounts
    @staticmethod
    def _conc(x) -> Optional[int]:
        if isinstance(x, bool):
            return int(x)
        if isinstance(x, int):
            return x
        if z3.is_int_value(x):
            return x.as_long()
        return None

    def shl(self, a, b):
        k = self._conc(b)
        if k is None or k < 0:
            raise Undecided('<< by a symbolic amount in the mathematical-integer theory')
        return self.lift(a) * (1 << k)

    def shr(self, a, b):
        k = self._conc(b)
        if k is None or k < 0:
            raise Undecided('>> by a symbolic amount in the mathematical-integer theory')
        return self.lift(a) / (1 << k)

    def and_(self, a, b):
        ka, kb = self._conc(a), self._conc(b)
        if ka is not None and kb is None:
            a, b, ka, kb = b, a, kb, ka
        if kb is not None and kb >= 0 and (kb & (kb + 1)) == 0:  # mask 2^k - 1
            return self.lift(a) % (kb + 1)
        if kb is not None and kb > 0 and (kb & (kb - 1)) == 0:  # single bit
            return z3.If((self.lift(a) / kb) % 2 == 1, z3.IntVal(kb), z3.IntVal(0))
        raise Undecided('& with a non-mask operand in the mathematical-integer theory')

    def or_(self, a, b):
        raise Undecided('| in the mathematical-integer theory')

    def xor(self, a, b):
        raise Undecided('^ in the mathematical-integer theory')

    def invert(self, a):
        return -self.lift(a) - 1


@dataclass
class BVInfo:
    bits: int  # value is in [-2^bits, 2^bits)
    nonneg: bool


class IntBV:
    """Two's-complement bit-vectors of N bits with a conservative size bound per term."""

    def __init__(self, n: int = 256):
        self.n = n
        self.name = f'bv{n}-with-no-overflow-bounds'
        self._info: Dict[int, BVInfo] = {}

    def sort(self):
        return z3.BitVecSort(self.n)

    def const(self, name: str, bits: Optional[int] = None, nonneg: bool = False):
        c = z3.BitVec(name, self.n)
        if bits is not None:
            self.note(c, bits, nonneg)
        return c

    def val(self, v: int):
        t = z3.BitVecVal(v, self.n)
        self.note(t, max(1, abs(v).bit_length()), v >= 0)
        return t

    def note(self, t, bits: int, nonneg: bool):
        if bits >= self.n - 1:
            raise Undecided(f'bit-vector width {self.n} cannot hold a value of up to {bits} bits')
        self._info[t.get_id()] = BVInfo(bits, nonneg)
        self._keep = getattr(self, '_keep', [])
        self._keep.append(t)  # keep ids alive
        return t

    def info(self, t) -> BVInfo:
        if isinstance(t, bool):
            return BVInfo(1, True)
        if isinstance(t, int):
            return BVInfo(max(1, abs(t).bit_length()), t >= 0)
        i = self._info.get(t.get_id())
        if i is None:
            if z3.is_bv_value(t):
                v = t.as_signed_long()
                return BVInfo(max(1, abs(v).bit_length()), v >= 0)
            if z3.is_app_of(t, z3.Z3_OP_ITE):
                a, b = self.info(t.arg(1)), self.info(t.arg(2))
                return BVInfo(max(a.bits, b.bits), a.nonneg and b.nonneg)
            raise Undecided(f'bit-vector term without a size bound: {t.sexpr()[:80]}')
        return i

    def range_hyps(self, t) -> List[Any]:
        """the hypotheses that justify a declared bound (to be assumed by whoever declares it)"""
        i = self.info(t)
        lo = z3.BitVecVal(0, self.n) if i.nonneg else z3.BitVecVal(-(1 << i.bits), self.n)
        return [lo <= t, t < z3.BitVecVal(1 << i.bits, self.n)]

    def is_term(self, x) -> bool:
        return isinstance(x, z3.BitVecRef)

    def lift(self, x):
        if isinstance(x, bool):
            return self.val(1 if x else 0)
        if isinstance(x, int):
            return self.val(x)
        if isinstance(x, z3.BoolRef):
            t = z3.If(x, z3.BitVecVal(1, self.n), z3.BitVecVal(0, self.n))
            return self.note(t, 1, True)
        return x

    def _bin(self, a, b):
        a, b = self.lift(a), self.lift(b)
        return a, b, self.info(a), self.info(b)

    def add(self, a, b):
        a, b, ia, ib = self._bin(a, b)
        return self.note(a + b, max(ia.bits, ib.bits) + 1, ia.nonneg and ib.nonneg)

    def sub(self, a, b):
        a, b, ia, ib = self._bin(a, b)
        return self.note(a - b, max(ia.bits, ib.bits) + 1, False)

    def mul(self, a, b):
        a, b, ia, ib = self._bin(a, b)
        return self.note(a * b, ia.bits + ib.bits, ia.nonneg and ib.nonneg)

    def neg(self, a):
        a = self.lift(a)
        return self.note(-a, self.info(a).bits + 1, False)

    def floordiv(self, a, b):
        a, b, ia, ib = self._bin(a, b)
        if ia.nonneg and ib.nonneg:
            return self.note(z3.UDiv(a, b), ia.bits, True)
        q = a / b  # signed, truncating
        r = z3.SRem(a, b)
        adj = z3.If(z3.And(r != 0, (r < 0) != (b < 0)), q - 1, q)
        return self.note(adj, ia.bits + 1, False)

    def mod(self, a, b):
        a, b, ia, ib = self._bin(a, b)
        if ia.nonneg and ib.nonneg:
            return self.note(z3.URem(a, b), ib.bits, True)
        r = z3.SRem(a, b)
        adj = z3.If(z3.And(r != 0, (r < 0) != (b < 0)), r + b, r)
        return self.note(adj, ib.bits + 1, False)

    def lt(self, a, b):
        a, b, _, _ = self._bin(a, b)
        return a < b  # signed

    def le(self, a, b):
        a, b, _, _ = self._bin(a, b)
        return a <= b

    def eq(self, a, b):
        a, b, _, _ = self._bin(a, b)
        return a == b

    def shl(self, a, b):
        a, b, ia, ib = self._bin(a, b)
        if not ib.nonneg:
            raise Undecided('<< by a possibly negative amount')
        if z3.is_bv_value(b):
            k = b.as_long()
            return self.note(a << b, ia.bits + k, ia.nonneg)
        # symbolic amount: bounded by its own size bound (the caller's path condition bounds it further,
        # but only the declared bound is used here, so it must be small)
        maxk = (1 << ib.bits) - 1
        return self.note(a << b, ia.bits + maxk, ia.nonneg)

    def shl_bounded(self, a, b, maxk: int):
        """a << b where the caller knows (and has put on the path) b <= maxk"""
        a, b, ia, ib = self._bin(a, b)
        return self.note(a << b, ia.bits + maxk, ia.nonneg)

    def shr(self, a, b):
        a, b, ia, ib = self._bin(a, b)
        if not ib.nonneg:
            raise Undecided('>> by a possibly negative amount')
        return self.note(a >> b, ia.bits, ia.nonneg)  # arithmetic shift = python floor semantics

    def and_(self, a, b):
        a, b, ia, ib = self._bin(a, b)
        if ia.nonneg and ib.nonneg:
            bits = min(ia.bits, ib.bits)
        elif ia.nonneg:
            bits = ia.bits
        elif ib.nonneg:
            bits = ib.bits
        else:
            bits = max(ia.bits, ib.bits)
        return self.note(a & b, bits, ia.nonneg or ib.nonneg)

    def or_(self, a, b):
        a, b, ia, ib = self._bin(a, b)
        return self.note(a | b, max(ia.bits, ib.bits), ia.nonneg and ib.nonneg)

    def xor(self, a, b):
        a, b, ia, ib = self._bin(a, b)
        return self.note(a ^ b, max(ia.bits, ib.bits), ia.nonneg and ib.nonneg)

    def invert(self, a):
        a = self.lift(a)
        return self.note(~a, self.info(a).bits + 1, False)


# --------------------------------------------------------------------------- containers / objects


@dataclass(frozen=True)
class Ref:
    """reference to a heap cell"""

    id: int

    def __repr__(self) -> str:
        return f'<ref {self.id}>'


@dataclass
class SList:
    """list / bytes of ints (ncols == 0) or of int tuples of arity ncols; functional value."""

    length: Any  # theory term
    cols: Tuple[Any, ...]  # z3 arrays index -> int   (one per tuple component; one if ncols == 0)
    ncols: int = 0
    kind: str = 'list'  # 'list' | 'bytes'
    elem_bool: bool = False  # elements are python bools (stored as 0/1)


@dataclass
class SDict:
    """dict int -> int; functional value"""

    dom: Any  # array int -> Bool
    val: Any  # array int -> int


@dataclass
class Obj:
    cls: Any  # the real class object
    fields: Dict[str, Any] = field(default_factory=dict)


@dataclass
class ExcVal:
    cls: Any  # real exception class
    args: Tuple[Any, ...] = ()
    fields: Dict[str, Any] = field(default_factory=dict)
    cause: Any = None

    def __repr__(self) -> str:
        return f'<exc {getattr(self.cls, "__name__", self.cls)}>'


@dataclass
class Opaque:
    """a value whose content is not modelled (formatted strings, file objects, ...)"""

    tag: str
    payload: Any = None

    def __repr__(self) -> str:
        return f'<opaque {self.tag}>'


@dataclass
class BoundMethod:
    recv: Any  # Ref / SList / concrete
    func: Any  # python function object (real) or a builtin-method name (str)


@dataclass
class Closure:
    """a lambda / nested def evaluated symbolically"""

    node: Any
    env: Dict[str, Any]
    module: Any
