"""
Body-against-contract check.  A contract handler (the thing a CALLER is checked against) is run on the
same symbolic pre-state as the real body; every path of the body must be matched by an outcome of
the contract of the same kind (return / raise of the same class) with equal value and equal
post-state, under the body path's condition.  Contracts used this way must be deterministic
(no fresh symbols), which holds for the Reader / device-memory contracts.
"""
from __future__ import annotations

from typing import Any, Callable, List, Tuple

import z3

from vc.common import Obl, Undecided
from vc.pyvc.engine import OK, Engine, State
from vc.pyvc.values import ExcVal, Obj, Ref, SDict, SList


def value_eq(eng: Engine, a: Any, b: Any) -> Any:
    T = eng.T
    if a is None or b is None:
        return z3.BoolVal(a is None and b is None)
    if isinstance(a, (tuple, list)) and isinstance(b, (tuple, list)):
        if len(a) != len(b):
            return z3.BoolVal(False)
        return z3.And(*[value_eq(eng, x, y) for x, y in zip(a, b)]) if a else z3.BoolVal(True)
    if isinstance(a, ExcVal) and isinstance(b, ExcVal):
        # b is the contract's exception: every field it names must be present and equal (message texts are opaque)
        if a.cls is not b.cls or not set(b.fields) <= set(a.fields):
            return z3.BoolVal(False)
        return z3.And(*[value_eq(eng, a.fields[k], b.fields[k]) for k in b.fields]) if b.fields else z3.BoolVal(True)
    boolish = lambda x: isinstance(x, (bool, z3.BoolRef))  # noqa: E731
    if boolish(a) and boolish(b):
        return (z3.BoolVal(a) if isinstance(a, bool) else a) == (z3.BoolVal(b) if isinstance(b, bool) else b)
    if boolish(a) != boolish(b):
        return z3.BoolVal(False)  # bool vs int: different python values as far as contracts go
    if eng.is_int(a) and eng.is_int(b):
        return T.lift(a) == T.lift(b)
    if isinstance(a, Ref) and isinstance(b, Ref):
        return z3.BoolVal(a.id == b.id)
    return z3.BoolVal(a is b or a == b)


def heap_eq(eng: Engine, s1: State, s2: State, refs: List[Ref]) -> Any:
    cs = []
    for r in refs:
        o1, o2 = s1.heap[r.id], s2.heap[r.id]
        if isinstance(o1, SDict) and isinstance(o2, SDict):
            cs += [o1.dom == o2.dom, o1.val == o2.val]
        elif isinstance(o1, SList) and isinstance(o2, SList):
            if len(o1.cols) != len(o2.cols):
                return z3.BoolVal(False)
            k = z3.Const('k_heq', eng.T.sort())
            cs.append(o1.length == o2.length)
            for c1, c2 in zip(o1.cols, o2.cols):
                cs.append(z3.ForAll([k], z3.Implies(z3.And(k >= 0, k < o1.length), z3.Select(c1, k) == z3.Select(c2, k))))
        elif isinstance(o1, Obj) and isinstance(o2, Obj):
            if set(o1.fields) != set(o2.fields):
                return z3.BoolVal(False)
            for f in o1.fields:
                cs.append(value_eq(eng, o1.fields[f], o2.fields[f]))
        else:
            return z3.BoolVal(False)
    return z3.And(*cs) if cs else z3.BoolVal(True)


def refines(eng: Engine, pre: State, body_outs: List[Tuple[State, Any]], contract: Callable, args: List[Any], refs: List[Ref], name: str) -> List[Obl]:
    """obligations: each body outcome is one of the contract's outcomes"""
    c_eng_obls = len(eng.obligations)
    c_outs = list(contract(eng, pre, args, {}))
    del eng.obligations[c_eng_obls:]  # preconditions of the contract are the harness's assumptions here
    npc = len(pre.pc)
    obls = []
    for i, (sb, sig) in enumerate(body_outs):
        kind = OK if sig[0] == 'return' else 'raise'
        vb = sig[1]
        alts = []
        for kc, sc, vc_ in c_outs:
            if kc != kind:
                continue
            if kind == 'raise' and (not isinstance(vb, ExcVal) or not isinstance(vc_, ExcVal) or vb.cls is not vc_.cls):
                continue
            alts.append(z3.And(*(list(sc.pc[npc:]) + [value_eq(eng, vb, vc_), heap_eq(eng, sb, sc, refs)])))
        goal = z3.Or(*alts) if alts else z3.BoolVal(False)
        what = 'returns' if kind == OK else f'raises_{getattr(getattr(vb, "cls", None), "__name__", "?")}'
        obls.append(Obl(f'{name}:path{i}.{what}_as_the_contract_says', list(sb.pc), goal, meta=dict(path='/'.join(sb.path[-6:]))))
        obls.append(Obl(f'{name}:path{i}.cover', list(sb.pc), None, 'cover'))
    if not body_outs:
        raise Undecided(f'{name}: the body has no paths')
    return obls
