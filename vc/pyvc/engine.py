"""
pyvc - a path-wise symbolic executor for the Python subset used by the functions under contract.

The code it executes is the AST of the REAL function, re-read from the working tree on every run
(`inspect.getsource` of the imported module object under /repo).  Module globals are the real
objects of the imported module (constants, enum members, exception classes, functions).

Outcome protocol: evaluating an expression yields ('ok', state, value) or ('raise', state, ExcVal);
executing statements yields (state, signal) with signal in
  None | ('return', v) | ('raise', ExcVal) | ('break',) | ('continue',).

What is dropped (and nothing else): comments, docstrings, annotations, the CONTENT of f-strings
(their value is an opaque string; the embedded expressions are not evaluated), print() calls.
"""
from __future__ import annotations

import ast
import builtins
import inspect
import textwrap
import types
from typing import Any, Callable, Dict, Iterator, List, Optional, Tuple

import z3

from vc.common import Obl, Undecided, _has_quantifier
from vc.pyvc.values import (
    BoundMethod,
    Closure,
    ExcVal,
    IntBV,
    IntMath,
    Obj,
    Opaque,
    Ref,
    SDict,
    SList,
    fresh_name,
)

OK, RAISE = 'ok', 'raise'


class State:
    def __init__(self) -> None:
        self.locals: Dict[str, Any] = {}
        self.heap: Dict[int, Any] = {}
        self.pc: List[Any] = []
        self.ghost: Dict[str, Any] = {}
        self.trace: List[Any] = []  # external events (IO calls, file writes, ...)
        self.next_ref = 1
        self.path: List[str] = []  # branch decisions, for obligation names

    def fork(self) -> 'State':
        s = State()
        s.locals = dict(self.locals)
        s.heap = dict(self.heap)
        s.pc = list(self.pc)
        s.ghost = dict(self.ghost)
        s.trace = list(self.trace)
        s.next_ref = self.next_ref
        s.path = list(self.path)
        return s

    def alloc(self, obj: Any) -> Ref:
        r = Ref(self.next_ref)
        self.next_ref += 1
        self.heap[r.id] = obj
        return r

    def assume(self, c: Any) -> None:
        if c is True:
            return
        self.pc.append(c if not isinstance(c, bool) else z3.BoolVal(c))

    def deref(self, r: Any) -> Any:
        return self.heap[r.id] if isinstance(r, Ref) else r


class LoopSpec:
    """invariant(state, k) -> list of z3 bools (k: iteration index term, None for while loops);
    modifies: names of locals and Refs / (Ref, field) heap locations the body may change;
    unroll: iterate concretely instead (the iterable must be concrete and short)."""

    def __init__(self, invariant: Optional[Callable] = None, havoc: Optional[Callable] = None, unroll: bool = False, name: str = ''):
        self.invariant, self.havoc, self.unroll, self.name = invariant, havoc, unroll, name


class Engine:
    def __init__(self, theory: Any, *, name: str = '', feas_timeout_ms: int = 3000):
        self.T = theory
        self.name = name
        self.obligations: List[Obl] = []
        self.contracts: Dict[Any, Callable] = {}  # real function object -> handler(engine, st, args, kwargs) yielding outcomes
        self.externals: Dict[Any, Callable] = {}  # real callable (builtin / library) -> handler
        self.method_handlers: Dict[Tuple[str, str], Callable] = {}
        self.loop_specs: Dict[Tuple[str, int], LoopSpec] = {}
        self.inline: set = set()  # real function objects allowed to be executed by body
        self.dropped: List[str] = []
        self.feas_timeout_ms = feas_timeout_ms
        self._fn_stack: List[str] = []
        self._loop_counter: List[Dict[int, int]] = []
        self.solver_calls = 0
        self.max_paths = 20000

    # ------------------------------------------------------------------ helpers
    def note_drop(self, what: str) -> None:
        if what not in self.dropped:
            self.dropped.append(what)

    def oblige(self, st: State, name: str, goal: Any, **meta: Any) -> None:
        full = f'{self.name}:{name}' if self.name else name
        n = sum(1 for o in self.obligations if o.name.split('#')[0] == full)
        if n:
            full = f'{full}#{n}'
        self.obligations.append(Obl(full, list(st.pc), goal, 'vc', dict(meta)))

    def feasible(self, st: State, cond: Any = None) -> bool:
        if cond is False:
            return False
        if cond is True or cond is None:
            if not st.pc:
                return True
        # only the quantifier-free part of the path condition is used: dropping hypotheses can only keep
        # MORE paths (sound), and satisfiability with quantified hypotheses is what makes solvers hang
        s = z3.Solver()
        s.set('timeout', self.feas_timeout_ms)
        s.add(*[c for c in st.pc if not _has_quantifier(c)])
        if cond is not None and cond is not True:
            s.add(cond)
        self.solver_calls += 1
        return s.check() != z3.unsat  # unknown => keep the path (over-approximation is sound)

    def is_sym_int(self, v: Any) -> bool:
        return self.T.is_term(v)

    def is_int(self, v: Any) -> bool:
        return (isinstance(v, int)) or self.T.is_term(v) or isinstance(v, z3.BoolRef)

    def truth(self, v: Any, st: State) -> Any:
        """python truthiness as a concrete bool or a z3 Bool"""
        if isinstance(v, z3.BoolRef):
            return v
        if self.T.is_term(v):
            return z3.Not(self.T.eq(v, 0))
        if isinstance(v, Ref):
            o = st.heap[v.id]
            if isinstance(o, SList):
                return z3.Not(self.T.eq(o.length, 0))
            if isinstance(o, SDict):
                raise Undecided('truthiness of a symbolic dict')
            return True
        if isinstance(v, SList):
            return z3.Not(self.T.eq(v.length, 0))
        if isinstance(v, (Obj, ExcVal, BoundMethod, Closure)):
            return True
        if isinstance(v, Opaque):
            raise Undecided(f'truthiness of opaque value {v.tag}')
        return bool(v)

    def fresh_int(self, base: str, st: State, lo: Optional[int] = None, hi: Optional[int] = None, bits: Optional[int] = None) -> Any:
        """a fresh symbolic int; lo <= x < hi assumed when given"""
        nm = fresh_name(base)
        if isinstance(self.T, IntBV):
            if bits is None:
                if hi is None:
                    raise Undecided(f'fresh bit-vector int {base} needs a bound')
                bits = max(1, (hi - 1).bit_length(), (abs(lo).bit_length() if lo is not None and lo < 0 else 0))
            x = self.T.const(nm, bits, nonneg=(lo is not None and lo >= 0))
            for h in self.T.range_hyps(x):
                st.assume(h)
        else:
            x = self.T.const(nm)
        if lo is not None:
            st.assume(self.T.le(lo, x))
        if hi is not None:
            st.assume(self.T.lt(x, hi))
        return x

    def fresh_bool(self, base: str) -> Any:
        return z3.Bool(fresh_name(base))

    def fresh_array(self, base: str, rng: Any = None) -> Any:
        return z3.Array(fresh_name(base), self.T.sort(), rng if rng is not None else self.T.sort())

    def fresh_list(self, base: str, st: State, ncols: int = 0, kind: str = 'list', max_len: Optional[int] = None) -> SList:
        n = self.fresh_int(base + '_len', st, 0, max_len if max_len is not None else (1 << 62))
        cols = tuple(self.fresh_array(f'{base}_c{i}') for i in range(max(1, ncols)))
        return SList(n, cols, ncols, kind)

    def idx(self, v: Any) -> Any:
        """index/key term in the theory's sort"""
        return self.T.lift(v)

    # ------------------------------------------------------------------ source access
    @staticmethod
    def func_ast(fn: Any) -> ast.FunctionDef:
        fn = inspect.unwrap(fn)
        if isinstance(fn, (staticmethod, classmethod)):
            fn = fn.__func__
        try:
            src = textwrap.dedent(inspect.getsource(fn))
        except (OSError, TypeError) as e:
            raise Undecided(f'source of {fn!r} not available: {e}')
        try:
            node = ast.parse(src).body[0]
        except SyntaxError:
            # a lambda inside a display (`'&&': lambda a, b: ...,`): parse from the keyword on
            if 'lambda' not in src:
                raise Undecided(f'cannot parse the source of {fn!r}')
            node = ast.parse('(' + src[src.index('lambda') :].strip().rstrip(',') + ')').body[0]
        if not isinstance(node, (ast.FunctionDef, ast.Lambda)):
            # lambdas in a dict display etc.
            for sub in ast.walk(node):
                if isinstance(sub, ast.Lambda):
                    return sub  # type: ignore[return-value]
            raise Undecided(f'cannot locate the def of {fn!r}')
        return node  # type: ignore[return-value]

    @staticmethod
    def func_lines(fn: Any) -> str:
        try:
            lines, start = inspect.getsourcelines(inspect.unwrap(fn))
            return f'{start}-{start + len(lines) - 1}'
        except Exception:
            return ''

    # ------------------------------------------------------------------ running a function
    def run_function(self, fn: Any, st: State, args: List[Any], kwargs: Optional[Dict[str, Any]] = None) -> List[Tuple[State, Any]]:
        """symbolically execute the body of real function `fn`; returns [(state, signal)] with signal
        ('return', v) or ('raise', exc)."""
        kwargs = kwargs or {}
        node = self.func_ast(fn)
        module = inspect.getmodule(fn)
        saved = st.locals
        frame: Dict[str, Any] = {'__module__': module, '__func__': fn}
        a = node.args
        params = [p.arg for p in a.posonlyargs + a.args]
        defaults = a.defaults
        real_defaults = getattr(fn, '__defaults__', None) or ()
        if len(args) > len(params) and a.vararg is None:
            raise Undecided(f'too many positional arguments for {fn.__name__}')
        for i, p in enumerate(params):
            if i < len(args):
                frame[p] = args[i]
            elif p in kwargs:
                frame[p] = kwargs[p]
            else:
                di = i - (len(params) - len(defaults))
                if di < 0:
                    raise Undecided(f'missing argument {p} for {fn.__name__}')
                frame[p] = real_defaults[di]
        kwd = getattr(fn, '__kwdefaults__', None) or {}
        for p in a.kwonlyargs:
            frame[p.arg] = kwargs[p.arg] if p.arg in kwargs else kwd.get(p.arg)
        fname = getattr(fn, '__qualname__', getattr(fn, '__name__', '<lambda>'))
        self._fn_stack.append(fname)
        loops = sorted((n for n in ast.walk(node) if isinstance(n, (ast.For, ast.While))), key=lambda n: (n.lineno, n.col_offset))
        self._loop_counter.append({(n.lineno, n.col_offset): i for i, n in enumerate(loops)})
        try:
            st = st.fork()
            st.locals = frame
            if isinstance(node, ast.Lambda):
                outs = [(s, ('return', v)) if k == OK else (s, ('raise', v)) for k, s, v in self.ev(node.body, st)]
            else:
                outs = self.exec_block(node.body, st)
            res = []
            for s, sig in outs:
                s.locals = saved
                if sig is None:
                    sig = ('return', None)
                if sig[0] in ('break', 'continue'):
                    raise Undecided('break/continue escaped a function body')
                res.append((s, sig))
            return res
        finally:
            self._fn_stack.pop()
            self._loop_counter.pop()

    # ------------------------------------------------------------------ statements
    def exec_block(self, stmts: List[ast.stmt], st: State) -> List[Tuple[State, Any]]:
        live = [st]
        done: List[Tuple[State, Any]] = []
        for stmt in stmts:
            nxt = []
            for s in live:
                for s2, sig in self.exec_stmt(stmt, s):
                    if sig is None:
                        nxt.append(s2)
                    else:
                        done.append((s2, sig))
            live = nxt
            if len(live) + len(done) > self.max_paths:
                raise Undecided('path explosion')
            if not live:
                break
        return done + [(s, None) for s in live]

    def exec_stmt(self, node: ast.stmt, st: State) -> List[Tuple[State, Any]]:
        m = getattr(self, 'st_' + type(node).__name__, None)
        if m is None:
            raise Undecided(f'statement {type(node).__name__} not supported (line {getattr(node, "lineno", "?")})')
        return m(node, st)

    def st_Pass(self, node, st):
        return [(st, None)]

    def st_Global(self, node, st):
        raise Undecided('global statement')

    def st_Expr(self, node, st):
        if isinstance(node.value, ast.Constant):  # docstring
            return [(st, None)]
        if isinstance(node.value, ast.Call) and isinstance(node.value.func, ast.Name) and node.value.func.id == 'print':
            self.note_drop('print() calls')
            return [(st, None)]
        return [(s, None) if k == OK else (s, ('raise', v)) for k, s, v in self.ev(node.value, st)]

    def st_Return(self, node, st):
        if node.value is None:
            return [(st, ('return', None))]
        return [(s, ('return', v)) if k == OK else (s, ('raise', v)) for k, s, v in self.ev(node.value, st)]

    def st_Break(self, node, st):
        return [(st, ('break',))]

    def st_Continue(self, node, st):
        return [(st, ('continue',))]

    def st_Assert(self, node, st):
        outs = []
        for k, s, v in self.ev(node.test, st):
            if k != OK:
                outs.append((s, ('raise', v)))
                continue
            t = self.truth(v, s)
            for s2, taken in self.branch(s, t, 'assert'):
                if taken:
                    outs.append((s2, None))
                else:
                    outs.append((s2, ('raise', ExcVal(AssertionError))))
        return outs

    def st_Raise(self, node, st):
        if node.exc is None:
            exc = st.locals.get('__current_exc__')
            if exc is None:
                raise Undecided('bare raise outside except')
            return [(st, ('raise', exc))]
        outs = []
        for k, s, v in self.ev(node.exc, st):
            if k != OK:
                outs.append((s, ('raise', v)))
                continue
            if isinstance(v, type) and issubclass(v, BaseException):
                v = ExcVal(v)
            if not isinstance(v, ExcVal):
                raise Undecided(f'raise of a non-exception value {v!r}')
            if node.cause is not None:
                # `from e` / `from None`: only the chain is affected
                v = ExcVal(v.cls, v.args, dict(v.fields), cause='set')
            outs.append((s, ('raise', v)))
        return outs

    def st_Assign(self, node, st):
        outs = []
        for k, s, v in self.ev(node.value, st):
            if k != OK:
                outs.append((s, ('raise', v)))
                continue
            states = [s]
            for tgt in node.targets:
                nstates = []
                for s1 in states:
                    for s2, sig in self.assign(tgt, v, s1):
                        if sig is None:
                            nstates.append(s2)
                        else:
                            outs.append((s2, sig))
                states = nstates
            outs.extend((s1, None) for s1 in states)
        return outs

    def st_AnnAssign(self, node, st):
        if node.value is None:
            return [(st, None)]
        fake = ast.Assign(targets=[node.target], value=node.value)
        return self.st_Assign(fake, st)

    def st_AugAssign(self, node, st):
        load = _as_load(node.target)
        outs = []
        for k, s, cur in self.ev(load, st):
            if k != OK:
                outs.append((s, ('raise', cur)))
                continue
            for k2, s2, rhs in self.ev(node.value, s):
                if k2 != OK:
                    outs.append((s2, ('raise', rhs)))
                    continue
                # list += list mutates in place
                if isinstance(node.op, ast.Add) and isinstance(cur, Ref) and isinstance(s2.heap[cur.id], SList):
                    s3 = s2.fork()
                    s3.heap[cur.id] = self.concat(s3.heap[cur.id], s3.deref(rhs), s3)
                    outs.append((s3, None))
                    continue
                for k3, s3, res in self.binop(node.op, cur, rhs, s2):
                    if k3 != OK:
                        outs.append((s3, ('raise', res)))
                        continue
                    outs.extend(self.assign(node.target, res, s3))
        return outs

    def st_If(self, node, st):
        outs = []
        for k, s, v in self.ev(node.test, st):
            if k != OK:
                outs.append((s, ('raise', v)))
                continue
            t = self.truth(v, s)
            for s2, taken in self.branch(s, t, f'if@{node.lineno}'):
                outs.extend(self.exec_block(node.body if taken else node.orelse, s2))
        return outs

    def branch(self, st: State, t: Any, label: str) -> List[Tuple[State, bool]]:
        """fork on a (concrete or symbolic) condition, pruning infeasible sides"""
        if isinstance(t, bool):
            return [(st, t)]
        t = z3.simplify(t)
        if z3.is_true(t):
            return [(st, True)]
        if z3.is_false(t):
            return [(st, False)]
        res = []
        if self.feasible(st, t):
            s1 = st.fork()
            s1.assume(t)
            s1.path.append(label + ':T')
            res.append((s1, True))
        nt = z3.Not(t)
        if self.feasible(st, nt):
            s2 = st.fork()
            s2.assume(nt)
            s2.path.append(label + ':F')
            res.append((s2, False))
        return res

    def st_With(self, node, st):
        # only context managers registered as externals (open(), timers); body executed in between
        states = [st]
        outs: List[Tuple[State, Any]] = []
        exits = []
        for item in node.items:
            nstates = []
            for s in states:
                for k, s2, v in self.ev(item.context_expr, s):
                    if k != OK:
                        outs.append((s2, ('raise', v)))
                        continue
                    cm = v
                    entered = cm
                    if isinstance(cm, Opaque) and cm.tag in ('file', 'timer', 'ctx'):
                        entered = cm
                    elif isinstance(cm, Ref) and isinstance(s2.heap[cm.id], Obj) and hasattr(s2.heap[cm.id].cls, '__enter__'):
                        self.note_drop(f'context manager {s2.heap[cm.id].cls.__name__}.__enter__/__exit__ (timing only)')
                        entered = None
                    else:
                        raise Undecided(f'with-statement over {cm!r}')
                    if item.optional_vars is not None:
                        for s3, sig in self.assign(item.optional_vars, entered, s2):
                            if sig is None:
                                nstates.append(s3)
                            else:
                                outs.append((s3, sig))
                    else:
                        nstates.append(s2)
            states = nstates
        for s in states:
            outs.extend(self.exec_block(node.body, s))
        return outs

    def st_Try(self, node, st):
        outs: List[Tuple[State, Any]] = []
        body_outs = self.exec_block(node.body, st)
        after: List[Tuple[State, Any]] = []
        for s, sig in body_outs:
            if sig is not None and sig[0] == 'raise':
                exc = sig[1]
                handled = False
                for h in node.handlers:
                    match = self.exc_matches(exc, h.type, s)
                    if match:
                        s2 = s.fork()
                        if h.name:
                            s2.locals[h.name] = exc
                        prev = s2.locals.get('__current_exc__')
                        s2.locals['__current_exc__'] = exc
                        for s3, sig3 in self.exec_block(h.body, s2):
                            if prev is None:
                                s3.locals.pop('__current_exc__', None)
                            else:
                                s3.locals['__current_exc__'] = prev
                            after.append((s3, sig3))
                        handled = True
                        break
                if not handled:
                    after.append((s, sig))
            elif sig is None and node.orelse:
                after.extend(self.exec_block(node.orelse, s))
            else:
                after.append((s, sig))
        if not node.finalbody:
            return after
        for s, sig in after:
            for s2, sig2 in self.exec_block(node.finalbody, s):
                outs.append((s2, sig2 if sig2 is not None else sig))
        return outs

    def exc_matches(self, exc: ExcVal, type_node: Optional[ast.expr], st: State) -> bool:
        if type_node is None:
            return True
        res = list(self.ev(type_node, st))
        if len(res) != 1 or res[0][0] != OK:
            raise Undecided('except clause type is not a simple expression')
        t = res[0][2]
        types_ = t if isinstance(t, tuple) else (t,)
        return any(isinstance(c, type) and isinstance(exc.cls, type) and issubclass(exc.cls, c) for c in types_)

    def st_Delete(self, node, st):
        raise Undecided('del statement')

    # ---- loops
    def _loop_key(self, node) -> Tuple[str, int]:
        # loops are numbered in source order within their function
        return (self._fn_stack[-1], self._loop_counter[-1][(node.lineno, node.col_offset)])

    def st_While(self, node, st):
        key = self._loop_key(node)
        spec = self.loop_specs.get(key)
        if spec is None or spec.invariant is None:
            raise Undecided(f'while loop {key} has no invariant')
        return self._loop_with_invariant(node, st, key, spec, None)

    def st_For(self, node, st):
        key = self._loop_key(node)
        spec = self.loop_specs.get(key)
        outs: List[Tuple[State, Any]] = []
        for k, s, it in self.ev(node.iter, st):
            if k != OK:
                outs.append((s, ('raise', it)))
                continue
            seq = self.as_iteration(it, s)
            if seq[0] == 'concrete':
                outs.extend(self._unroll(node, s, seq[1]))
            else:
                if spec is None or spec.invariant is None:
                    raise Undecided(f'for loop {key} over a symbolic range has no invariant')
                outs.extend(self._loop_with_invariant(node, s, key, spec, seq))
        return outs

    def as_iteration(self, it: Any, st: State) -> tuple:
        """('concrete', [values]) or ('sym', length_term, elem(k) -> value)"""
        T = self.T
        if isinstance(it, (tuple, list, range, frozenset, set)):
            vals = sorted(it) if isinstance(it, (set, frozenset)) else list(it)
            if len(vals) > 4096:
                raise Undecided('concrete iteration too long')
            return ('concrete', vals)
        if isinstance(it, Opaque) and it.tag == 'range':
            start, stop, step = it.payload
            if not isinstance(step, int) or step <= 0:
                raise Undecided('range with a symbolic or non-positive step')
            if isinstance(start, int) and isinstance(stop, int):
                return ('concrete', list(range(start, stop, step)))
            # number of iterations = max(0, ceil((stop-start)/step))
            diff = T.sub(stop, start)
            cnt = T.floordiv(T.add(diff, step - 1), step)
            n = z3.If(T.le(diff, 0), T.lift(0), cnt)
            if isinstance(T, IntBV):
                T.note(n, T.info(cnt).bits, True)
            return ('sym', n, lambda k: T.add(start, T.mul(k, step)))
        if isinstance(it, Opaque) and it.tag == 'enumerate':
            inner, start = it.payload
            sub = self.as_iteration(inner, st)
            if sub[0] == 'concrete':
                return ('concrete', [(start + i, v) for i, v in enumerate(sub[1])])
            return ('sym', sub[1], lambda k: (T.add(k, start) if start else k, sub[2](k)))
        lst = st.deref(it)
        if isinstance(lst, SList):
            return ('sym', lst.length, lambda k: self.list_get(lst, k))
        raise Undecided(f'iteration over {it!r}')

    def _unroll(self, node, st, vals):
        outs: List[Tuple[State, Any]] = []
        live = [st]
        for v in vals:
            nxt = []
            for s in live:
                for s1, sig in self.assign(node.target, v, s):
                    if sig is not None:
                        outs.append((s1, sig))
                        continue
                    for s2, sig2 in self.exec_block(node.body, s1):
                        if sig2 is None or sig2[0] == 'continue':
                            nxt.append(s2)
                        elif sig2[0] == 'break':
                            outs.append((s2, None))
                        else:
                            outs.append((s2, sig2))
            live = nxt
            if not live:
                break
        for s in live:
            if getattr(node, 'orelse', None):
                outs.extend(self.exec_block(node.orelse, s))
            else:
                outs.append((s, None))
        return outs

    def _loop_with_invariant(self, node, st, key, spec: LoopSpec, seq):
        """Floyd/Hoare loop rule.  seq: None for while, else ('sym', n, elem)."""
        T = self.T
        outs: List[Tuple[State, Any]] = []
        tag = f'{key[0]}.loop{key[1]}'
        zero = T.lift(0)
        st = st.fork()
        st.ghost[f'entry:{tag}'] = st  # invariants may refer to the state at loop entry
        # 1. initiation
        for i, c in enumerate(spec.invariant(st, zero if seq else None)):
            self.oblige(st, f'{tag}.inv_init[{i}]', c)
        # 2. arbitrary iteration
        sh = st.fork()
        spec.havoc(sh, self) if spec.havoc else self._default_havoc(node, sh)
        kvar = None
        if seq:
            kvar = self.fresh_int(f'{tag}.k', sh, 0, None, bits=(T.info(seq[1]).bits if isinstance(T, IntBV) else None))
            sh.assume(T.lt(kvar, seq[1]))
        for c in spec.invariant(sh, kvar):
            sh.assume(c)
        sh.path.append(f'{tag}:iter')
        if seq:
            entered = [(s1, sig) for s1, sig in self.assign(node.target, seq[2](kvar), sh)]
        else:
            entered = []
            for k, s1, v in self.ev(node.test, sh):
                if k != OK:
                    outs.append((s1, ('raise', v)))
                    continue
                for s2, taken in self.branch(s1, self.truth(v, s1), f'{tag}.cond'):
                    if taken:
                        entered.append((s2, None))
        if self.feasible(sh):
            for s1, sig in entered:
                if sig is not None:
                    outs.append((s1, sig))
                    continue
                for s2, sig2 in self.exec_block(node.body, s1):
                    if sig2 is None or sig2[0] == 'continue':
                        nk = T.add(kvar, 1) if seq else None
                        for i, c in enumerate(spec.invariant(s2, nk)):
                            self.oblige(s2, f'{tag}.inv_preserved[{i}]', c, path='/'.join(s2.path[-6:]))
                    elif sig2[0] == 'break':
                        outs.append((s2, None))
                    else:
                        outs.append((s2, sig2))
        # 3. exit
        se = st.fork()
        spec.havoc(se, self) if spec.havoc else self._default_havoc(node, se)
        if seq:
            for c in spec.invariant(se, seq[1]):
                se.assume(c)
            se.path.append(f'{tag}:exit')
            if getattr(node, 'orelse', None):
                outs.extend(self.exec_block(node.orelse, se))
            else:
                outs.append((se, None))
        else:
            for c in spec.invariant(se, None):
                se.assume(c)
            for k, s1, v in self.ev(node.test, se):
                if k != OK:
                    outs.append((s1, ('raise', v)))
                    continue
                for s2, taken in self.branch(s1, self.truth(v, s1), f'{tag}.cond'):
                    if not taken:
                        s2.path.append(f'{tag}:exit')
                        outs.append((s2, None))
        return outs

    def _default_havoc(self, node, st: State) -> None:
        """havoc every local assigned in the loop body (heap effects need an explicit havoc)"""
        for sub in ast.walk(node):
            tgt_names = []
            if isinstance(sub, ast.Name) and isinstance(sub.ctx, ast.Store):
                tgt_names.append(sub.id)
            for nm in tgt_names:
                cur = st.locals.get(nm)
                if cur is None:
                    continue
                if isinstance(cur, (bool, z3.BoolRef)):
                    st.locals[nm] = self.fresh_bool(nm)
                elif self.is_int(cur):
                    st.locals[nm] = self.fresh_int(nm, st, bits=(self.T.n - 8 if isinstance(self.T, IntBV) else None))
                else:
                    raise Undecided(f'cannot havoc local {nm} of kind {type(cur).__name__}; give the loop a havoc function')
            if isinstance(sub, (ast.Attribute, ast.Subscript)) and isinstance(sub.ctx, ast.Store):
                raise Undecided('loop body writes to the heap; give the loop a havoc function')

    # ------------------------------------------------------------------ assignment
    def assign(self, tgt: ast.expr, v: Any, st: State) -> List[Tuple[State, Any]]:
        if isinstance(tgt, ast.Name):
            s = st.fork()
            s.locals[tgt.id] = v
            return [(s, None)]
        if isinstance(tgt, (ast.Tuple, ast.List)):
            vals = self.unpack(v, len(tgt.elts), st)
            states = [st]
            outs = []
            for t, x in zip(tgt.elts, vals):
                nstates = []
                for s in states:
                    for s2, sig in self.assign(t, x, s):
                        if sig is None:
                            nstates.append(s2)
                        else:
                            outs.append((s2, sig))
                states = nstates
            return outs + [(s, None) for s in states]
        if isinstance(tgt, ast.Attribute):
            outs = []
            for k, s, recv in self.ev(tgt.value, st):
                if k != OK:
                    outs.append((s, ('raise', recv)))
                    continue
                if not isinstance(recv, Ref) or not isinstance(s.heap[recv.id], Obj):
                    raise Undecided(f'attribute store on {recv!r}')
                s2 = s.fork()
                o = s2.heap[recv.id]
                s2.heap[recv.id] = Obj(o.cls, {**o.fields, tgt.attr: v})
                outs.append((s2, None))
            return outs
        if isinstance(tgt, ast.Subscript):
            outs = []
            for k, s, recv in self.ev(tgt.value, st):
                if k != OK:
                    outs.append((s, ('raise', recv)))
                    continue
                for k2, s2, ix in self.ev(tgt.slice, s):
                    if k2 != OK:
                        outs.append((s2, ('raise', ix)))
                        continue
                    outs.extend(self.store_item(recv, ix, v, s2))
            return outs
        raise Undecided(f'assignment target {type(tgt).__name__}')

    def unpack(self, v: Any, n: int, st: State) -> List[Any]:
        if isinstance(v, (tuple, list)):
            if len(v) != n:
                raise Undecided('tuple unpack arity mismatch')
            return list(v)
        raise Undecided(f'cannot unpack {v!r}')

    def store_item(self, recv: Any, ix: Any, v: Any, st: State) -> List[Tuple[State, Any]]:
        T = self.T
        if not isinstance(recv, Ref):
            raise Undecided(f'item store on {recv!r}')
        o = st.heap[recv.id]
        if isinstance(o, SDict):
            s = st.fork()
            key = self.idx(ix)
            vv = T.lift(v)
            vb = getattr(o, 'val_width', None)
            if vb is not None:
                # values are stored as val_width-bit words: the stored value must fit (safety obligation)
                self.oblige(st, f'{self._fn_stack[-1] if self._fn_stack else ""}.stored_word_fits_{vb}_bits', z3.And(T.le(0, vv), T.lt(vv, 1 << vb)))
                vv = z3.Extract(vb - 1, 0, vv)
            n = SDict(z3.Store(o.dom, key, z3.BoolVal(True)), z3.Store(o.val, key, vv))
            for a in ('val_width',):
                if hasattr(o, a):
                    setattr(n, a, getattr(o, a))
            s.heap[recv.id] = n
            return [(s, None)]
        if isinstance(o, SList):
            if o.ncols:
                raise Undecided('item store into a list of tuples')
            outs = []
            i = self.idx(ix)
            inb = z3.And(T.le(0, i), T.lt(i, o.length))
            for s, ok in self.branch(st, inb, 'setitem-inbounds'):
                if ok:
                    s.heap[recv.id] = SList(o.length, (z3.Store(o.cols[0], i, T.lift(v)),), 0, o.kind, o.elem_bool)
                    outs.append((s, None))
                else:
                    outs.append((s, ('raise', ExcVal(IndexError))))
            # negative indices are python-legal (they wrap); the verified code never relies on that, so
            # non-negativity is a safety obligation rather than a modelled behaviour
            if not isinstance(ix, int) or ix < 0:
                self.oblige(st, f'{self._fn_stack[-1] if self._fn_stack else ""}.list_index_nonnegative', T.le(0, i))
            return outs
        raise Undecided(f'item store on heap object {type(o).__name__}')

    # ------------------------------------------------------------------ expressions
    def ev(self, node: ast.expr, st: State) -> Iterator[Tuple[str, State, Any]]:
        m = getattr(self, 'ex_' + type(node).__name__, None)
        if m is None:
            raise Undecided(f'expression {type(node).__name__} not supported (line {getattr(node, "lineno", "?")})')
        return m(node, st)

    def evs(self, nodes: List[ast.expr], st: State) -> Iterator[Tuple[str, State, Any]]:
        """evaluate left to right; yields ('ok', st, [values]) or a raise"""
        if not nodes:
            yield (OK, st, [])
            return
        for k, s, v in self.ev(nodes[0], st):
            if k != OK:
                yield (k, s, v)
                continue
            for k2, s2, rest in self.evs(nodes[1:], s):
                if k2 != OK:
                    yield (k2, s2, rest)
                else:
                    yield (OK, s2, [v] + rest)

    def ex_Constant(self, node, st):
        v = node.value
        if isinstance(v, bytes):
            T = self.T
            arr = z3.K(T.sort(), T.lift(0))
            for i, b in enumerate(v):
                arr = z3.Store(arr, T.lift(i), T.lift(b))
            v = SList(T.lift(len(v)), (arr,), 0, 'bytes')
        yield (OK, st, v)

    def ex_JoinedStr(self, node, st):
        # format strings: only the simple pieces (names, attributes, len(), constants) are evaluated so
        # that struct format strings keep their structure; everything else is an opaque string piece
        parts: List[Any] = []
        simple = True
        for v in node.values:
            if isinstance(v, ast.Constant):
                parts.append(v.value)
                continue
            e = v.value
            ok = isinstance(e, (ast.Name, ast.Constant)) or (isinstance(e, ast.Attribute) and isinstance(e.value, ast.Name)) or (
                isinstance(e, ast.Call) and isinstance(e.func, ast.Name) and e.func.id == 'len' and len(e.args) == 1 and isinstance(e.args[0], (ast.Name, ast.Attribute))
            )
            if not ok or v.format_spec is not None or v.conversion != -1:
                simple = False
                break
            try:
                res = list(self.ev(e, st.fork()))
            except Undecided:
                simple = False
                break
            if len(res) != 1 or res[0][0] != OK:
                simple = False
                break
            parts.append(('val', res[0][2]))
        if simple and all(isinstance(p, str) or (isinstance(p[1], (int, str)) and not isinstance(p[1], bool)) for p in parts):
            yield (OK, st, ''.join(p if isinstance(p, str) else str(p[1]) for p in parts))
            return
        if simple:
            yield (OK, st, Opaque('fstr', parts))
            return
        self.note_drop('f-string contents of messages (value is an opaque string; embedded expressions not evaluated)')
        yield (OK, st, Opaque('str'))

    def ex_Name(self, node, st):
        nm = node.id
        if nm in st.locals:
            yield (OK, st, st.locals[nm])
            return
        mod = st.locals.get('__module__')
        if mod is not None and hasattr(mod, nm):
            yield (OK, st, getattr(mod, nm))
            return
        if hasattr(builtins, nm):
            yield (OK, st, getattr(builtins, nm))
            return
        cl = st.locals.get('__closure__')
        if cl and nm in cl:
            yield (OK, st, cl[nm])
            return
        raise Undecided(f'unbound name {nm}')

    def ex_Tuple(self, node, st):
        if any(isinstance(e, ast.Starred) for e in node.elts):
            raise Undecided('starred element in a tuple display')
        for k, s, vals in self.evs(node.elts, st):
            yield (k, s, tuple(vals) if k == OK else vals)

    def ex_List(self, node, st):
        for k, s, vals in self.evs(node.elts, st):
            if k != OK:
                yield (k, s, vals)
                continue
            if all(self.is_int(v) for v in vals):
                T = self.T
                arr = z3.K(T.sort(), T.lift(0))
                for i, b in enumerate(vals):
                    arr = z3.Store(arr, T.lift(i), T.lift(b))
                s2 = s.fork()
                r = s2.alloc(SList(T.lift(len(vals)), (arr,), 0, 'list'))
                yield (OK, s2, r)
            else:
                raise Undecided('list display of non-int elements')

    def ex_Dict(self, node, st):
        if node.keys:
            # concrete-key dictionaries used as tables ({8: 'B', ...})
            for k, s, ks in self.evs(list(node.keys), st):
                if k != OK:
                    yield (k, s, ks)
                    continue
                for k2, s2, vs in self.evs(list(node.values), s):
                    if k2 != OK:
                        yield (k2, s2, vs)
                    else:
                        yield (OK, s2, dict(zip(ks, vs)))
            return
        T = self.T
        s2 = st.fork()
        r = s2.alloc(SDict(z3.K(T.sort(), z3.BoolVal(False)), z3.K(T.sort(), T.lift(0))))
        yield (OK, s2, r)

    def ex_Attribute(self, node, st):
        for k, s, recv in self.ev(node.value, st):
            if k != OK:
                yield (k, s, recv)
                continue
            yield (OK, s, self.getattr(recv, node.attr, s))

    def getattr(self, recv: Any, attr: str, st: State) -> Any:
        if isinstance(recv, Ref):
            o = st.heap[recv.id]
            if isinstance(o, Obj):
                if attr in o.fields:
                    return o.fields[attr]
                if ('Obj', attr) in self.method_handlers:
                    return BoundMethod(recv, attr)  # an external container modelled by a registered handler
                cv = inspect.getattr_static(o.cls, attr, None)
                if cv is None:
                    raise Undecided(f'attribute {attr} of {o.cls.__name__} not set in the symbolic state')
                if isinstance(cv, staticmethod):
                    return cv.__func__
                if isinstance(cv, types.FunctionType):
                    return BoundMethod(recv, cv)
                if isinstance(cv, classmethod):
                    raise Undecided('classmethod access')
                if isinstance(cv, property):
                    raise Undecided('property access')
                return cv
            return BoundMethod(recv, attr)
        if isinstance(recv, (SList, SDict)):
            return BoundMethod(recv, attr)
        if isinstance(recv, ExcVal):
            if attr in recv.fields:
                return recv.fields[attr]
            raise Undecided(f'attribute {attr} of exception value')
        if self.is_sym_int(recv) or isinstance(recv, z3.BoolRef):
            return BoundMethod(recv, attr)
        if isinstance(recv, Opaque):
            return BoundMethod(recv, attr)
        return getattr(recv, attr)

    def ex_Subscript(self, node, st):
        for k, s, recv in self.ev(node.value, st):
            if k != OK:
                yield (k, s, recv)
                continue
            if isinstance(node.slice, ast.Slice):
                sl = node.slice
                parts = [p if p is not None else ast.Constant(value=None) for p in (sl.lower, sl.upper, sl.step)]
                for k2, s2, lhs in self.evs(parts, s):
                    if k2 != OK:
                        yield (k2, s2, lhs)
                        continue
                    yield (OK, s2, self.slice(recv, lhs[0], lhs[1], lhs[2], s2))
                continue
            for k2, s2, ix in self.ev(node.slice, s):
                if k2 != OK:
                    yield (k2, s2, ix)
                    continue
                yield from self.load_item(recv, ix, s2)

    def list_get(self, lst: SList, i: Any) -> Any:
        i = self.idx(i)
        if lst.ncols:
            return tuple(self._sel(lst, c, i) for c in range(lst.ncols))
        v = self._sel(lst, 0, i)
        return v

    def _sel(self, lst: SList, c: int, i: Any) -> Any:
        t = z3.Select(lst.cols[c], i)
        if isinstance(self.T, IntBV):
            bits = getattr(lst, 'elem_bits', None)
            self.T.note(t, bits if bits is not None else self.T.n - 8, getattr(lst, 'elem_nonneg', False))
        return t

    def load_item(self, recv: Any, ix: Any, st: State):
        T = self.T
        o = st.deref(recv)
        if isinstance(o, SList):
            i = self.idx(ix)
            inb = z3.And(T.le(0, i), T.lt(i, o.length))
            for s, ok in self.branch(st, inb, 'getitem-inbounds'):
                if ok:
                    yield (OK, s, self.list_get(o, i))
                else:
                    yield (RAISE, s, ExcVal(IndexError))
            if not isinstance(ix, int) or ix < 0:
                self.oblige(st, f'{self._fn_stack[-1] if self._fn_stack else ""}.list_index_nonnegative', T.le(0, i))
            return
        if isinstance(o, SDict):
            key = self.idx(ix)
            for s, ok in self.branch(st, z3.Select(o.dom, key), 'dict-has-key'):
                if ok:
                    yield (OK, s, self.dict_val(o, key))
                else:
                    yield (RAISE, s, ExcVal(KeyError))
            return
        if isinstance(o, (tuple, list, dict, str)) and not self.is_sym_int(ix) and not isinstance(ix, z3.BoolRef):
            try:
                yield (OK, st, o[ix])
            except (KeyError, IndexError) as e:
                yield (RAISE, st, ExcVal(type(e)))
            return
        if isinstance(o, dict) and self.is_sym_int(ix):
            # concrete table indexed by a symbolic key: case split
            hit = False
            for key, val in o.items():
                for s, ok in self.branch(st, T.eq(ix, key), f'table-key={key}'):
                    if ok:
                        yield (OK, s, val)
            s = st.fork()
            for key in o:
                s.assume(z3.Not(T.eq(ix, key)))
            if self.feasible(s):
                yield (RAISE, s, ExcVal(KeyError))
            return
        raise Undecided(f'subscript of {o!r}')

    def dict_val(self, o: SDict, key: Any) -> Any:
        T = self.T
        t = z3.Select(o.val, key)
        vb = getattr(o, 'val_width', None)
        if vb is not None:
            t = z3.ZeroExt(T.n - vb, t)
            T.note(t, vb, True)
        elif isinstance(T, IntBV):
            T.note(t, getattr(o, 'val_bits', T.n - 8), getattr(o, 'val_nonneg', False))
        return t

    def slice(self, recv: Any, lo: Any, hi: Any, step: Any, st: State) -> Any:
        T = self.T
        o = st.deref(recv)
        if isinstance(o, (tuple, list, str)) and all(x is None or isinstance(x, int) for x in (lo, hi, step)):
            return o[lo:hi:step]  # concrete sequence, concrete bounds: CPython's own slicing
        if step is not None:
            raise Undecided('slice with a step')
        if isinstance(o, SList):
            lo = T.lift(0) if lo is None else self.idx(lo)
            hi_ = o.length if hi is None else self.idx(hi)
            # python clamps; supported when 0 <= lo (clamped to len) and hi clamped to len
            lo_c = z3.If(T.lt(o.length, lo), o.length, lo)
            hi_c = z3.If(T.lt(o.length, hi_), o.length, hi_)
            if self.feasible(st, z3.Or(T.lt(lo, 0), T.lt(hi_, 0))):
                raise Undecided('possibly negative slice bound')
            n = z3.If(T.lt(hi_c, lo_c), T.lift(0), T.sub(hi_c, lo_c))
            if isinstance(T, IntBV):
                T.note(lo_c, T.info(o.length).bits, True)
                T.note(n, T.info(o.length).bits, True)
            k = z3.Const(fresh_name('sl'), T.sort())
            cols = tuple(z3.Lambda([k], z3.Select(c, k + lo_c)) for c in o.cols)
            res = SList(n, cols, o.ncols, o.kind, o.elem_bool)
            for a in ('elem_bits', 'elem_nonneg'):
                if hasattr(o, a):
                    setattr(res, a, getattr(o, a))
            if o.kind == 'list':
                raise Undecided('slice of a mutable list (would need a heap copy)')
            return res
        if isinstance(o, (tuple, str, bytes, list)):
            return o[lo:hi]
        raise Undecided(f'slice of {o!r}')

    def concat(self, a: SList, b: Any, st: State) -> SList:
        T = self.T
        if not isinstance(b, SList) or a.ncols != b.ncols:
            raise Undecided('concatenation of incompatible sequences')
        k = z3.Const(fresh_name('cc'), T.sort())
        cols = tuple(z3.Lambda([k], z3.If(k < a.length, z3.Select(ca, k), z3.Select(cb, k - a.length))) for ca, cb in zip(a.cols, b.cols))
        res = SList(T.add(a.length, b.length), cols, a.ncols, a.kind, a.elem_bool)
        return res

    def ex_UnaryOp(self, node, st):
        T = self.T
        for k, s, v in self.ev(node.operand, st):
            if k != OK:
                yield (k, s, v)
                continue
            if isinstance(node.op, ast.Not):
                t = self.truth(v, s)
                yield (OK, s, (not t) if isinstance(t, bool) else z3.Not(t))
            elif isinstance(node.op, ast.USub):
                yield (OK, s, -v if isinstance(v, int) and not isinstance(v, bool) else T.neg(T.lift(v)))
            elif isinstance(node.op, ast.Invert):
                yield (OK, s, ~v if isinstance(v, int) and not isinstance(v, bool) else T.invert(T.lift(v)))
            elif isinstance(node.op, ast.UAdd):
                yield (OK, s, v)
            else:
                raise Undecided('unary operator')

    def ex_BinOp(self, node, st):
        for k, s, ab in self.evs([node.left, node.right], st):
            if k != OK:
                yield (k, s, ab)
                continue
            yield from self.binop(node.op, ab[0], ab[1], s)

    def binop(self, op: ast.operator, a: Any, b: Any, st: State):
        T = self.T
        conc = lambda x: isinstance(x, int)  # noqa: E731  (bool included)
        if conc(a) and conc(b):
            try:
                yield (OK, st, _PYOPS[type(op)](a, b))
            except ZeroDivisionError:
                yield (RAISE, st, ExcVal(ZeroDivisionError))
            except ValueError:
                yield (RAISE, st, ExcVal(ValueError))
            return
        da, db = st.deref(a), st.deref(b)
        if isinstance(op, ast.Add) and isinstance(da, SList) and isinstance(db, SList):
            if isinstance(a, Ref):
                raise Undecided('list + list (fresh list) ')
            yield (OK, st, self.concat(da, db, st))
            return
        if isinstance(a, str) or isinstance(b, str) or isinstance(a, Opaque) or isinstance(b, Opaque):
            if isinstance(op, (ast.Add, ast.Mod)):
                yield (OK, st, Opaque('str'))
                return
        if not (self.is_int(a) and self.is_int(b)):
            raise Undecided(f'binary operator on {a!r}, {b!r}')
        a2, b2 = T.lift(a), T.lift(b)
        if isinstance(op, ast.Add):
            yield (OK, st, T.add(a2, b2))
        elif isinstance(op, ast.Sub):
            yield (OK, st, T.sub(a2, b2))
        elif isinstance(op, ast.Mult):
            yield (OK, st, T.mul(a2, b2))
        elif isinstance(op, (ast.FloorDiv, ast.Mod)):
            for s, z in self.branch(st, T.eq(b2, 0), 'div-by-zero'):
                if z:
                    yield (RAISE, s, ExcVal(ZeroDivisionError))
                else:
                    f = T.floordiv if isinstance(op, ast.FloorDiv) else T.mod
                    yield (OK, s, f(a2, b if conc(b) else b2))
        elif isinstance(op, (ast.LShift, ast.RShift)):
            for s, neg in self.branch(st, T.lt(b2, 0), 'negative-shift'):
                if neg:
                    yield (RAISE, s, ExcVal(ValueError))
                else:
                    if isinstance(T, IntBV) and isinstance(op, ast.LShift) and not conc(b):
                        # find a small concrete bound of the shift amount on this path
                        mk = self._max_shift(s, b2)
                        yield (OK, s, T.shl_bounded(a2, b2, mk))
                    else:
                        f = T.shl if isinstance(op, ast.LShift) else T.shr
                        yield (OK, s, f(a2, b if conc(b) else b2))
        elif isinstance(op, ast.BitAnd):
            yield (OK, st, T.and_(a if conc(a) else a2, b if conc(b) else b2))
        elif isinstance(op, ast.BitOr):
            yield (OK, st, T.or_(a2, b2))
        elif isinstance(op, ast.BitXor):
            yield (OK, st, T.xor(a2, b2))
        elif isinstance(op, ast.Pow):
            raise Undecided('** on symbolic operands')
        else:
            raise Undecided(f'operator {type(op).__name__}')

    def _max_shift(self, st: State, amount: Any) -> int:
        for bound in (1, 3, 7, 8, 15, 31, 63, 64, 127):
            if not self.feasible(st, self.T.lt(bound, amount)):
                return bound
        raise Undecided('shift amount without a small bound on this path')

    def ex_BoolOp(self, node, st):
        is_and = isinstance(node.op, ast.And)

        def go(i: int, s: State):
            for k, s1, v in self.ev(node.values[i], s):
                if k != OK:
                    yield (k, s1, v)
                    continue
                if i == len(node.values) - 1:
                    yield (OK, s1, v)
                    continue
                t = self.truth(v, s1)
                for s2, taken in self.branch(s1, t, 'and' if is_and else 'or'):
                    if taken == is_and:
                        yield from go(i + 1, s2)
                    else:
                        yield (OK, s2, v if not self.is_int(v) or isinstance(v, (bool, z3.BoolRef)) else v)

        # value of a short-circuit chain is only used for truthiness in the verified code; when all
        # operands are booleans the python value and the truth value coincide.
        for k, s, v in go(0, st):
            if k == OK and isinstance(v, z3.BoolRef):
                # on this path the deciding operand's truth value is fixed by the branch; keep v
                pass
            yield (k, s, v)

    def ex_Compare(self, node, st):
        T = self.T

        def go(i: int, left: Any, s: State):
            for k, s1, right in self.ev(node.comparators[i], s):
                if k != OK:
                    yield (k, s1, right)
                    continue
                c = self.compare(node.ops[i], left, right, s1)
                if i == len(node.ops) - 1:
                    yield (OK, s1, c)
                    continue
                for s2, taken in self.branch(s1, c, 'cmp-chain'):
                    if taken:
                        yield from go(i + 1, right, s2)
                    else:
                        yield (OK, s2, False)

        for k, s, left in self.ev(node.left, st):
            if k != OK:
                yield (k, s, left)
                continue
            yield from go(0, left, s)

    def compare(self, op: ast.cmpop, a: Any, b: Any, st: State) -> Any:
        T = self.T
        if isinstance(op, (ast.Is, ast.IsNot)):
            if a is None or b is None:
                other = b if a is None else a
                r = other is None
            elif isinstance(a, Ref) and isinstance(b, Ref):
                r = a.id == b.id
            else:
                r = a is b
                if self.is_sym_int(a) or self.is_sym_int(b):
                    raise Undecided('identity comparison of ints')
            return r if isinstance(op, ast.Is) else (not r)
        if isinstance(op, (ast.In, ast.NotIn)):
            r = self.contains(b, a, st)
            if isinstance(op, ast.In):
                return r
            return (not r) if isinstance(r, bool) else z3.Not(r)
        symbolic = any(self.is_sym_int(x) or isinstance(x, z3.BoolRef) for x in (a, b))
        if not symbolic:
            if isinstance(a, (Ref, SList, Obj, Opaque)) or isinstance(b, (Ref, SList, Obj, Opaque)):
                if isinstance(op, (ast.Eq, ast.NotEq)) and (a is None or b is None):
                    return isinstance(op, ast.NotEq)
                raise Undecided(f'comparison of {a!r} and {b!r}')
            return _PYCMP[type(op)](a, b)
        if a is None or b is None:
            return isinstance(op, ast.NotEq)
        if isinstance(a, z3.BoolRef) and isinstance(b, (bool, z3.BoolRef)) and isinstance(op, (ast.Eq, ast.NotEq)):
            e = a == (z3.BoolVal(b) if isinstance(b, bool) else b)
            return e if isinstance(op, ast.Eq) else z3.Not(e)
        if not (self.is_int(a) and self.is_int(b)):
            if isinstance(op, ast.Eq):
                return False
            if isinstance(op, ast.NotEq):
                return True
            raise Undecided(f'ordering comparison of {a!r} and {b!r}')
        a2, b2 = T.lift(a), T.lift(b)
        if isinstance(op, ast.Eq):
            return T.eq(a2, b2)
        if isinstance(op, ast.NotEq):
            return z3.Not(T.eq(a2, b2))
        if isinstance(op, ast.Lt):
            return T.lt(a2, b2)
        if isinstance(op, ast.LtE):
            return T.le(a2, b2)
        if isinstance(op, ast.Gt):
            return T.lt(b2, a2)
        if isinstance(op, ast.GtE):
            return T.le(b2, a2)
        raise Undecided('comparison operator')

    def contains(self, container: Any, item: Any, st: State) -> Any:
        T = self.T
        c = st.deref(container)
        if isinstance(c, SDict):
            return z3.Select(c.dom, self.idx(item))
        if isinstance(c, Opaque) and c.tag == 'range':
            start, stop, step = c.payload
            if step != 1:
                raise Undecided('membership in a stepped range')
            return z3.And(T.le(start, item), T.lt(item, stop)) if not (isinstance(item, int) and isinstance(start, int) and isinstance(stop, int)) else (start <= item < stop)
        if isinstance(c, (tuple, list, set, frozenset, dict, range)):
            if self.is_sym_int(item) or isinstance(item, z3.BoolRef):
                keys = list(c)
                if not all(isinstance(k, int) for k in keys):
                    raise Undecided('symbolic membership in a non-int collection')
                return z3.Or(*[T.eq(item, k) for k in keys]) if keys else False
            if any(self.is_sym_int(k) for k in c):
                return z3.Or(*[self.compare(ast.Eq(), item, k, st) for k in c])
            return item in c
        if isinstance(c, str) and isinstance(item, str):
            return item in c  # concrete substring test
        raise Undecided(f'membership test in {c!r}')

    def ex_IfExp(self, node, st):
        for k, s, v in self.ev(node.test, st):
            if k != OK:
                yield (k, s, v)
                continue
            for s2, taken in self.branch(s, self.truth(v, s), 'ifexp'):
                yield from self.ev(node.body if taken else node.orelse, s2)

    def ex_Lambda(self, node, st):
        yield (OK, st, Closure(node, dict(st.locals), st.locals.get('__module__')))

    def ex_GeneratorExp(self, node, st):
        yield (OK, st, Opaque('genexp', (node, dict(st.locals))))

    def _comp_concrete(self, node, st, kind):
        """comprehensions over a CONCRETE iterable whose elements evaluate without forking: unrolled"""
        if len(node.generators) != 1 or node.generators[0].ifs:
            raise Undecided('comprehension with conditions / several generators')
        comp = node.generators[0]
        res = list(self.ev(comp.iter, st))
        if len(res) != 1 or res[0][0] != OK:
            raise Undecided('comprehension over a forking iterable')
        it = res[0][2]
        seq = self.as_iteration(it, st) if not isinstance(it, dict) else ('concrete', list(it))
        if seq[0] != 'concrete':
            raise Undecided('comprehension over a symbolic sequence (needs a contract-level summary)')
        out = []
        s = st
        for v in seq[1]:
            s1 = s.fork()
            r1 = self.assign(comp.target, v, s1)
            if len(r1) != 1 or r1[0][1] is not None:
                raise Undecided('comprehension target')
            elts = [node.key, node.value] if kind == 'dict' else [node.elt]
            r2 = list(self.evs(elts, r1[0][0]))
            if len(r2) != 1 or r2[0][0] != OK:
                raise Undecided('comprehension element forks or raises')
            out.append(tuple(r2[0][2]) if kind == 'dict' else r2[0][2][0])
        if kind == 'set':
            return set(out)
        if kind == 'dict':
            return dict(out)
        return out

    def ex_ListComp(self, node, st):
        vals = self._comp_concrete(node, st, 'list')
        if all(_is_concrete(v) for v in vals):
            yield (OK, st, vals)
        else:
            raise Undecided('list comprehension with symbolic elements')

    def ex_SetComp(self, node, st):
        yield (OK, st, self._comp_concrete(node, st, 'set'))

    def ex_DictComp(self, node, st):
        yield (OK, st, self._comp_concrete(node, st, 'dict'))

    def ex_Starred(self, node, st):
        raise Undecided('starred expression')

    # ------------------------------------------------------------------ calls
    def ex_Call(self, node, st):
        for k, s, f in self.ev(node.func, st):
            if k != OK:
                yield (k, s, f)
                continue
            # any()/all() over a generator expression on a concrete iterable: unroll
            if f in (any, all) and len(node.args) == 1 and isinstance(node.args[0], ast.GeneratorExp):
                yield from self._any_all(f is any, node.args[0], s)
                continue
            if any(isinstance(a, ast.Starred) for a in node.args) or any(kw.arg is None for kw in node.keywords):
                yield from self._call_starred(f, node, s)
                continue
            for k2, s2, args in self.evs(list(node.args), s):
                if k2 != OK:
                    yield (k2, s2, args)
                    continue
                for k3, s3, kwv in self.evs([kw.value for kw in node.keywords], s2):
                    if k3 != OK:
                        yield (k3, s3, kwv)
                        continue
                    kwargs = {kw.arg: v for kw, v in zip(node.keywords, kwv)}
                    yield from self.call(f, args, kwargs, s3)

    def _call_starred(self, f, node, st):
        if node.keywords:
            raise Undecided('starred call with keywords')
        plain = [a for a in node.args if not isinstance(a, ast.Starred)]
        star = [a for a in node.args if isinstance(a, ast.Starred)]
        if len(star) != 1 or node.args[-1] is not star[0]:
            raise Undecided('starred argument not in last position')
        for k, s, args in self.evs(plain, st):
            if k != OK:
                yield (k, s, args)
                continue
            for k2, s2, sv in self.ev(star[0].value, s):
                if k2 != OK:
                    yield (k2, s2, sv)
                    continue
                yield from self.call(f, args + [Opaque('star', sv)], {}, s2)

    def _any_all(self, is_any: bool, gen: ast.GeneratorExp, st: State):
        if len(gen.generators) != 1 or gen.generators[0].ifs:
            raise Undecided('complex generator expression')
        comp = gen.generators[0]
        for k, s, it in self.ev(comp.iter, st):
            if k != OK:
                yield (k, s, it)
                continue
            seq = self.as_iteration(it, s)
            if seq[0] != 'concrete':
                raise Undecided('any/all over a symbolic sequence (needs a contract-level summary)')

            def go(i: int, s1: State):
                if i == len(seq[1]):
                    yield (OK, s1, not is_any)
                    return
                for s2, sig in self.assign(comp.target, seq[1][i], s1):
                    if sig is not None:
                        yield (RAISE, s2, sig[1])
                        continue
                    for k3, s3, v in self.ev(gen.elt, s2):
                        if k3 != OK:
                            yield (k3, s3, v)
                            continue
                        for s4, taken in self.branch(s3, self.truth(v, s3), 'any' if is_any else 'all'):
                            if taken == is_any:
                                yield (OK, s4, is_any)
                            else:
                                yield from go(i + 1, s4)

            saved = dict(s.locals)
            for k4, s5, v in go(0, s):
                # the comprehension variable does not leak
                s5.locals = {**saved, **{kk: vv for kk, vv in s5.locals.items() if kk in saved}}
                yield (k4, s5, v)

    def call(self, f: Any, args: List[Any], kwargs: Dict[str, Any], st: State):
        T = self.T
        # 1. bound methods
        if isinstance(f, BoundMethod):
            if isinstance(f.func, str):
                yield from self.call_builtin_method(f.recv, f.func, args, kwargs, st)
                return
            yield from self.call(f.func, [f.recv] + args, kwargs, st)
            return
        if isinstance(f, Closure):
            s = st.fork()
            saved = s.locals
            s.locals = dict(f.env)
            params = [p.arg for p in f.node.args.args]
            if len(params) != len(args):
                raise Undecided('lambda arity')
            s.locals.update(dict(zip(params, args)))
            for k, s2, v in self.ev(f.node.body, s):
                s2.locals = saved
                yield (k, s2, v)
            return
        if isinstance(f, types.BuiltinMethodType) and getattr(f, '__self__', None) is not None and not isinstance(f.__self__, types.ModuleType):
            h = self.method_handlers.get((type(f.__self__).__name__, f.__name__))
            if h is not None:
                yield from h(self, st, f.__self__, args, kwargs)
                return
            if isinstance(f.__self__, str) and f.__name__ in ('join', 'format', 'ljust', 'rjust') and not all(_is_concrete(a) for a in args):
                self.note_drop('message formatting (str.join / str.format over non-concrete values): an opaque string')
                yield (OK, st, Opaque('str'))
                return
            if isinstance(f.__self__, (int, str, bytes, tuple, frozenset)) and all(_is_concrete(a) for a in args) and not kwargs:
                try:
                    yield (OK, st, f(*args))
                except Exception as e:
                    yield (RAISE, st, ExcVal(type(e)))
                return
            if isinstance(f.__self__, dict) and f.__name__ in ('get', 'keys', 'values', 'items') and all(_is_concrete(a) or self.is_sym_int(a) for a in args[:1]) and _is_concrete(args[0] if args else 0) and not kwargs:
                yield (OK, st, f(*args))  # read-only query of a concrete-keyed dict (values may be symbolic)
                return
        # 2. contracts and externals (keyed by the real object)
        key = f
        try:
            h = self.contracts.get(key) or self.externals.get(key)
        except TypeError:
            h = None
        if h is not None:
            yield from h(self, st, args, kwargs)
            return
        # 3. exception classes: constructing an exception value
        if isinstance(f, type) and issubclass(f, BaseException):
            fields = {}
            # keep named fields for exceptions with an explicit __init__ (memory_address)
            init = f.__dict__.get('__init__')
            if init is not None:
                names = list(inspect.signature(init).parameters)[1:]
                for nme, val in zip(names, args):
                    fields[nme] = val
                fields.update(kwargs)
            yield (OK, st, ExcVal(f, tuple(args), fields))
            return
        # 4. classes of the repository: allocate + run __init__ symbolically
        if isinstance(f, type) and f.__module__.startswith('flipjump'):
            import enum

            if issubclass(f, enum.Enum):
                if len(args) == 1 and isinstance(args[0], int):
                    try:
                        yield (OK, st, f(args[0]))
                    except ValueError:
                        yield (RAISE, st, ExcVal(ValueError))
                    return
                if len(args) == 1 and self.is_sym_int(args[0]):
                    for mem in f:
                        for s, ok in self.branch(st, T.eq(args[0], mem.value), f'enum={mem.name}'):
                            if ok:
                                yield (OK, s, mem)
                    s = st.fork()
                    for mem in f:
                        s.assume(z3.Not(T.eq(args[0], mem.value)))
                    if self.feasible(s):
                        yield (RAISE, s, ExcVal(ValueError))
                    return
                raise Undecided('enum construction')
            s = st.fork()
            r = s.alloc(Obj(f, {}))
            init = getattr(f, '__init__', None)
            if init is object.__init__:
                yield (OK, s, r)
                return
            import dataclasses

            if dataclasses.is_dataclass(f):
                names = [fl.name for fl in dataclasses.fields(f)]
                o = Obj(f, dict(zip(names, args)))
                o.fields.update(kwargs)
                s.heap[r.id] = o
                yield (OK, s, r)
                return
            for k, s2, v in self.call(init, [r] + args, kwargs, s):
                yield (k, s2, r if k == OK else v)
            return
        # 5. pure builtins on concrete arguments
        if f in _PURE_BUILTINS and all(_is_concrete(a) for a in args) and all(_is_concrete(a) for a in kwargs.values()):
            try:
                yield (OK, st, f(*args, **kwargs))
            except Exception as e:  # the real builtin's own exception
                yield (RAISE, st, ExcVal(type(e)))
            return
        b = _BUILTIN_HANDLERS.get(getattr(f, '__name__', None)) if f in _KNOWN_BUILTINS else None
        if b is not None:
            yield from b(self, st, args, kwargs)
            return
        # 6. repository functions explicitly allowed to be executed by body
        if isinstance(f, types.FunctionType):
            if f in self.inline or getattr(f, '__module__', '').startswith('vc.') or (f.__name__ == '__init__' and f not in self.contracts):  # constructors are executed by body
                for s, sig in self.run_function(f, st, args, kwargs):
                    if sig[0] == 'return':
                        yield (OK, s, sig[1])
                    else:
                        yield (RAISE, s, sig[1])
                return
            raise Undecided(f'call to {f.__module__}.{f.__qualname__} which has no contract')
        raise Undecided(f'call to {f!r} is not modelled')

    def call_builtin_method(self, recv: Any, name: str, args: List[Any], kwargs: Dict[str, Any], st: State):
        T = self.T
        o = st.deref(recv)
        h = self.method_handlers.get((type(o).__name__ if not isinstance(o, Opaque) else 'Opaque:' + o.tag, name))
        if h is not None:
            yield from h(self, st, recv, args, kwargs)
            return
        if (self.is_sym_int(o) or isinstance(o, z3.BoolRef)) and name == 'to_bytes':
            if args[:2] == [1, 'little'] or (args[:1] == [1] and (args[1:] or [kwargs.get('byteorder')]) == ['little']):
                v = T.lift(o)
                for s, ok in self.branch(st, z3.And(T.le(0, v), T.lt(v, 256)), 'to_bytes-range'):
                    if ok:
                        yield (OK, s, SList(T.lift(1), (z3.Store(z3.K(T.sort(), T.lift(0)), T.lift(0), v),), 0, 'bytes'))
                    else:
                        yield (RAISE, s, ExcVal(OverflowError))
                return
            raise Undecided('int.to_bytes with other arguments')
        if isinstance(o, int) and not isinstance(o, bool) and name == 'bit_length':
            yield (OK, st, o.bit_length())
            return
        if isinstance(o, SList) and isinstance(recv, Ref):
            if name == 'append':
                s = st.fork()
                v = args[0]
                if isinstance(v, Ref) and isinstance(s.heap[v.id], Obj):
                    import dataclasses as _dc

                    rec = s.heap[v.id]
                    if not _dc.is_dataclass(rec.cls):
                        raise Undecided('append of an object to a list')
                    v = tuple(rec.fields[f.name] for f in _dc.fields(rec.cls))
                    o.elem_cls = rec.cls  # type: ignore[attr-defined]
                if isinstance(v, tuple) and not o.ncols and z3.is_int_value(z3.simplify(o.length)) and z3.simplify(o.length).as_long() == 0 if isinstance(T, IntMath) else False:
                    o = SList(o.length, tuple(z3.K(T.sort(), T.lift(0)) for _ in v), len(v), o.kind)
                if o.ncols:
                    if not isinstance(v, tuple) or len(v) != o.ncols:
                        raise Undecided('append of a non-tuple to a tuple list')
                    cols = tuple(z3.Store(c, o.length, T.lift(x)) for c, x in zip(o.cols, v))
                else:
                    cols = (z3.Store(o.cols[0], o.length, T.lift(v)),)
                n = SList(T.add(o.length, 1), cols, o.ncols, o.kind, o.elem_bool)
                s.heap[recv.id] = n
                yield (OK, s, None)
                return
        if isinstance(o, SDict):
            if name == 'get':
                key = self.idx(args[0])
                default = args[1] if len(args) > 1 else None
                for s, ok in self.branch(st, z3.Select(o.dom, key), 'dict.get-hit'):
                    if ok:
                        yield (OK, s, self.dict_val(o, key))
                    else:
                        yield (OK, s, default)
                return
        if isinstance(o, dict) and name == 'get' and all(_is_concrete(a) for a in args):
            yield (OK, st, o.get(*args))
            return
        raise Undecided(f'method {name} of {type(o).__name__} is not modelled')


# --------------------------------------------------------------------------- tables

import operator as _op

_PYOPS = {
    ast.Add: _op.add,
    ast.Sub: _op.sub,
    ast.Mult: _op.mul,
    ast.FloorDiv: _op.floordiv,
    ast.Mod: _op.mod,
    ast.LShift: _op.lshift,
    ast.RShift: _op.rshift,
    ast.BitAnd: _op.and_,
    ast.BitOr: _op.or_,
    ast.BitXor: _op.xor,
    ast.Pow: _op.pow,
}
_PYCMP = {ast.Eq: _op.eq, ast.NotEq: _op.ne, ast.Lt: _op.lt, ast.LtE: _op.le, ast.Gt: _op.gt, ast.GtE: _op.ge}


def _is_concrete(v: Any) -> bool:
    if isinstance(v, (z3.ExprRef, Ref, SList, SDict, Obj, Opaque, ExcVal, BoundMethod, Closure)):
        return False
    if isinstance(v, (tuple, list)):
        return all(_is_concrete(x) for x in v)
    return True


_PURE_BUILTINS = {len, hex, str, sorted, int, bool, tuple, min, max, abs, isinstance, issubclass, repr, ord, chr, sum, divmod, frozenset, set, list, any, all}
_KNOWN_BUILTINS = {len, range, enumerate, isinstance, int, bool, min, max, hex, str, repr, sorted, tuple, list}


def _b_len(eng: Engine, st: State, args, kwargs):
    o = st.deref(args[0])
    if isinstance(o, SList):
        yield (OK, st, o.length)
    elif isinstance(o, (tuple, list, dict, str, bytes, set, frozenset)):
        yield (OK, st, len(o))
    else:
        raise Undecided(f'len of {o!r}')


def _b_range(eng: Engine, st: State, args, kwargs):
    if len(args) == 1:
        start, stop, step = 0, args[0], 1
    elif len(args) == 2:
        start, stop, step = args[0], args[1], 1
    else:
        start, stop, step = args
    if all(isinstance(x, int) for x in (start, stop, step)):
        yield (OK, st, range(start, stop, step))
    else:
        yield (OK, st, Opaque('range', (start, stop, step)))


def _b_enumerate(eng: Engine, st: State, args, kwargs):
    start = kwargs.get('start', args[1] if len(args) > 1 else 0)
    yield (OK, st, Opaque('enumerate', (args[0], start)))


def _b_isinstance(eng: Engine, st: State, args, kwargs):
    v, t = args
    types_ = t if isinstance(t, tuple) else (t,)
    if eng.is_sym_int(v):
        yield (OK, st, int in types_)
    elif isinstance(v, z3.BoolRef):
        yield (OK, st, int in types_ or bool in types_)
    elif isinstance(v, Ref):
        o = st.heap[v.id]
        if isinstance(o, Obj):
            yield (OK, st, any(isinstance(c, type) and issubclass(o.cls, c) for c in types_))
        elif isinstance(o, SList):
            yield (OK, st, (list if o.kind == 'list' else bytes) in types_)
        elif isinstance(o, SDict):
            yield (OK, st, dict in types_)
        else:
            raise Undecided('isinstance of heap object')
    elif isinstance(v, ExcVal):
        yield (OK, st, any(issubclass(v.cls, c) for c in types_))
    elif isinstance(v, Opaque):
        if v.tag == 'str':
            yield (OK, st, str in types_)
        else:
            raise Undecided('isinstance of opaque value')
    else:
        yield (OK, st, isinstance(v, t))


def _b_int(eng: Engine, st: State, args, kwargs):
    v = args[0]
    if eng.is_sym_int(v):
        yield (OK, st, v)
    elif isinstance(v, z3.BoolRef):
        yield (OK, st, eng.T.lift(v))
    else:
        raise Undecided(f'int() of {v!r}')


def _b_bool(eng: Engine, st: State, args, kwargs):
    yield (OK, st, eng.truth(args[0], st))


def _b_opaque_str(eng: Engine, st: State, args, kwargs):
    yield (OK, st, Opaque('str'))


_BUILTIN_HANDLERS = {
    'len': _b_len,
    'range': _b_range,
    'enumerate': _b_enumerate,
    'isinstance': _b_isinstance,
    'int': _b_int,
    'bool': _b_bool,
    'hex': _b_opaque_str,
    'str': _b_opaque_str,
    'repr': _b_opaque_str,
}


def _as_load(t: ast.expr) -> ast.expr:
    import copy

    t2 = copy.deepcopy(t)
    for n in ast.walk(t2):
        if hasattr(n, 'ctx'):
            n.ctx = ast.Load()
    return t2
