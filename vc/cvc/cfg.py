"""
cvc front end: clang JSON AST of ONE function of the current _fjcore.c  ->  a flat list of instructions
with explicit control flow (labels, conditional branches, gotos), so that function-scope label webs
(the run loops' cold blocks) and structured loops are handled uniformly and every loop can be cut at a
label that carries an invariant.

  ('stmt', expr_node)                 expression / declaration statement
  ('branch', cond_node, Ltrue, Lfalse)
  ('goto', L)      ('label', L)       ('return', expr_node | None)

Generated labels: loops are numbered in source order k = 0,1,..:
  @loop{k}.head  (for/while: before the condition; do: start of the body)
  @loop{k}.cont  (target of `continue`: for -> increment, while -> head, do -> condition)
  @loop{k}.end
Source labels keep their names.
"""
from __future__ import annotations

import json
import os
import subprocess
import sysconfig
from pathlib import Path
from typing import Any, Dict, List, Optional, Tuple

from vc.common import Undecided

REPO = Path(os.environ.get('VERIF_REPO', '/repo'))
_AST_CACHE: Dict[str, Any] = {}


def load_functions(src: Optional[Path] = None) -> Dict[str, Any]:
    """FunctionDecl nodes (with bodies) of the current _fjcore.c, by name; plus '#records' (struct layouts)"""
    src = src or (REPO / 'flipjump' / 'interpreter' / '_fjcore.c')
    key = str(src) + ':' + str(src.stat().st_mtime_ns)
    if key in _AST_CACHE:
        return _AST_CACHE[key]
    inc = sysconfig.get_paths()['include']
    p = subprocess.run(['clang', '-fsyntax-only', f'-I{inc}', '-Xclang', '-ast-dump=json', str(src)], capture_output=True, text=True)
    if p.returncode != 0 or not p.stdout:
        raise Undecided('clang could not parse _fjcore.c: ' + p.stderr[-500:])
    d = json.loads(p.stdout)
    fns: Dict[str, Any] = {}
    for n in d['inner']:
        if n.get('kind') == 'FunctionDecl' and any(c.get('kind') == 'CompoundStmt' for c in n.get('inner', [])):
            fns[n['name']] = n
    _AST_CACHE[key] = fns
    return fns


class Linear:
    def __init__(self, fn: Any):
        self.name = fn['name']
        self.params = [(c['name'], c['type']) for c in fn.get('inner', []) if c.get('kind') == 'ParmVarDecl']
        self.ret_type = fn['type']['qualType'].split('(')[0].strip()
        self.ins: List[tuple] = []
        self.labels: Dict[str, int] = {}
        self._loop_n = 0
        self._tmp_n = 0
        self._label_names: Dict[str, str] = {}  # declId -> name
        body = [c for c in fn['inner'] if c.get('kind') == 'CompoundStmt'][0]
        self._collect_labels(body)
        self._loops: List[Tuple[str, str]] = []  # (continue target, break target)
        self._stmt(body)
        self.ins.append(('return', None))
        for i, x in enumerate(self.ins):
            if x[0] == 'label':
                self.labels[x[1]] = i
        self.lines = (fn.get('range', {}).get('begin', {}).get('line'), fn.get('range', {}).get('end', {}).get('line'))

    def _collect_labels(self, n: Any) -> None:
        if n.get('kind') == 'LabelStmt':
            self._label_names[n['declId']] = n['name']
        for c in n.get('inner', []):
            self._collect_labels(c)

    def _new(self, base: str) -> str:
        self._tmp_n += 1
        return f'@{base}{self._tmp_n}'

    def _emit(self, *x: Any) -> None:
        self.ins.append(tuple(x))

    def _stmt(self, n: Any) -> None:
        k = n.get('kind')
        if k is None:  # empty slot
            return
        if k == 'CompoundStmt':
            for c in n.get('inner', []):
                self._stmt(c)
        elif k in ('DeclStmt',):
            self._emit('stmt', n)
        elif k == 'NullStmt':
            pass
        elif k == 'IfStmt':
            inner = n['inner']
            cond, then = inner[0], inner[1]
            els = inner[2] if len(inner) > 2 else None
            lt, lf, le = self._new('then'), self._new('else'), self._new('endif')
            self._emit('branch', cond, lt, lf)
            self._emit('label', lt)
            self._stmt(then)
            self._emit('goto', le)
            self._emit('label', lf)
            if els is not None:
                self._stmt(els)
            self._emit('label', le)
        elif k in ('ForStmt', 'WhileStmt', 'DoStmt'):
            i = self._loop_n
            self._loop_n += 1
            head, cont, end = f'@loop{i}.head', f'@loop{i}.cont', f'@loop{i}.end'
            if k == 'ForStmt':
                init, _condvar, cond, inc, body = n['inner']
                if init.get('kind'):
                    self._stmt(init)
                self._emit('label', head)
                if cond.get('kind'):
                    lb = self._new('body')
                    self._emit('branch', cond, lb, end)
                    self._emit('label', lb)
                self._loops.append((cont, end))
                self._stmt(body)
                self._loops.pop()
                self._emit('label', cont)
                if inc.get('kind'):
                    self._emit('stmt', inc)
                self._emit('goto', head)
            elif k == 'WhileStmt':
                cond, body = n['inner'][0], n['inner'][1]
                self._emit('label', head)
                lb = self._new('body')
                self._emit('branch', cond, lb, end)
                self._emit('label', lb)
                self._loops.append((head, end))
                self._stmt(body)
                self._loops.pop()
                self._emit('label', cont)
                self._emit('goto', head)
            else:
                body, cond = n['inner'][0], n['inner'][1]
                self._emit('label', head)
                self._loops.append((cont, end))
                self._stmt(body)
                self._loops.pop()
                self._emit('label', cont)
                self._emit('branch', cond, head, end)
            self._emit('label', end)
        elif k == 'ContinueStmt':
            self._emit('goto', self._loops[-1][0])
        elif k == 'BreakStmt':
            self._emit('goto', self._loops[-1][1])
        elif k == 'GotoStmt':
            self._emit('goto', self._label_names[n['targetLabelDeclId']])
        elif k == 'LabelStmt':
            self._emit('label', n['name'])
            for c in n.get('inner', []):
                self._stmt(c)
        elif k == 'ReturnStmt':
            inner = n.get('inner', [])
            self._emit('return', inner[0] if inner else None)
        elif k == 'SwitchStmt':
            self._switch(n)
        elif k in ('CaseStmt', 'DefaultStmt'):
            raise Undecided('case label outside the supported switch shape')
        else:
            self._emit('stmt', n)  # an expression statement

    def _switch(self, n: Any) -> None:
        """switch (e) { case K: return/stmts ...; default: ... } with every arm ending in return/break"""
        cond, body = n['inner'][0], n['inner'][1]
        end = self._new('endswitch')
        arms = []
        for c in body.get('inner', []):
            if c['kind'] == 'CaseStmt':
                arms.append((c['inner'][0], c['inner'][1:]))
            elif c['kind'] == 'DefaultStmt':
                arms.append((None, c['inner']))
            else:
                if not arms:
                    raise Undecided('statement before the first case')
                arms[-1][1].append(c)
        self._loops.append((self._loops[-1][0] if self._loops else end, end))
        default = None
        for val, stmts in arms:
            if val is None:
                default = stmts
                continue
            lt, lf = self._new('case'), self._new('nextcase')
            self._emit('branch', ('eq', cond, val), lt, lf)
            self._emit('label', lt)
            for s in stmts:
                self._stmt(s)
            self._emit('goto', end)  # (arms that fall through are not used in this file)
            self._emit('label', lf)
        if default is not None:
            for s in default:
                self._stmt(s)
        self._loops.pop()
        self._emit('label', end)
