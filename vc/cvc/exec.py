"""
cvc executor: path-wise symbolic execution of a linearised C function (vc/cvc/cfg.py) of _fjcore.c.

Machine arithmetic is modelled exactly (bit-vectors of the C type's width, wrap-around included);
shifts by >= width and signed overflow are undefined behaviour -> obligations.  Memory is a typed,
region-based heap (distinct allocations never alias; pointer arithmetic stays inside its region, which
the bounds obligations guarantee):

  MemoryObject fields            M['f:<name>']            scalars
  MemoryObject array fields      M['a:<name>'] (+ '#null' for arrays of pointers)   index BV64
  flat array                     M['flat'] : BV64 -> BV64,  allocation size M['f:flat_count'] when non-NULL
  pages (by page index)          M['pg_exists'], M['pg_words'] : idx -> (off -> BV64), M['pg_valid_start'/'pg_valid_end']
  segments                       M['seg_start'], M['seg_end']
  last-ops ring                  M['ring'] with size 'ring_len' (a local of the caller)

Every dereference / subscript / memset / memcpy emits a bounds obligation (C11).
Calls are replaced by contracts (handlers registered by name); a call without a contract is Undecided.
"""
from __future__ import annotations

import re
from typing import Any, Callable, Dict, Iterator, List, Optional, Tuple

import z3

from vc.common import Obl, Undecided, _has_quantifier
from vc.cvc.cfg import Linear

BV64 = z3.BitVecSort(64)


def u64(v: int):
    return z3.BitVecVal(v & ((1 << 64) - 1), 64)


# ----------------------------------------------------------------------------- C types


class CT:
    def __init__(self, kind: str, bits: int = 0, signed: bool = False, pointee: str = ''):
        self.kind, self.bits, self.signed, self.pointee = kind, bits, signed, pointee

    def __repr__(self) -> str:
        return f'{self.kind}{self.bits}{"s" if self.signed else "u"}{self.pointee}'


_INT_TYPES = {
    'int': (32, True), 'unsigned int': (32, False), 'long': (64, True), 'unsigned long': (64, False), 'long long': (64, True),
    'unsigned long long': (64, False), 'uint64_t': (64, False), 'int64_t': (64, True), 'size_t': (64, False), 'Py_ssize_t': (64, True),
    'char': (8, True), 'unsigned char': (8, False), 'short': (16, True), 'unsigned short': (16, False), '_Bool': (8, False), 'uint32_t': (32, False),
    'ssize_t': (64, True),
}


def ctype(t: Any) -> CT:
    q = t.get('desugaredQualType') or t.get('qualType') if isinstance(t, dict) else t
    q0 = t.get('qualType') if isinstance(t, dict) else t
    q = re.sub(r'\b(const|volatile|restrict)\b', '', q).strip()
    q = re.sub(r'\s+', ' ', q)
    if q.endswith('*') or '(*)' in q:
        pointee = q[:-1].strip() if q.endswith('*') else 'fn'
        q0c = re.sub(r'\b(const|volatile)\b', '', q0).strip()
        if q0c.endswith('*'):
            pointee = re.sub(r'\s+', ' ', q0c[:-1]).strip()
        return CT('ptr', 64, False, pointee)
    if q in _INT_TYPES:
        b, s = _INT_TYPES[q]
        return CT('int', b, s)
    if q in ('double', 'float'):
        return CT('double')
    if q == 'void':
        return CT('void')
    if '(' in q:
        return CT('fn')
    if q.startswith('struct') or q in ('MemoryObject', 'Page', 'Slot', 'SegmentRange', 'SpecShadow', 'SpecSlot'):
        return CT('struct', pointee=q)
    if '[' in q:
        return CT('array', pointee=q)
    raise Undecided(f'C type {q0!r} is not modelled')


STRUCT_FIELDS = {'SpecShadow': ['slots', 'slot_count', 'slots_used']}


class Ptr:
    """pointer value.  kind: 'mem' | 'page' | 'u64' | 'pyobj' | 'seg' | 'opaque'.
    where: for 'page' the page index; for 'u64' a tuple ('flat', off) | ('pagewords', pidx, off) | ('local', name) | ('ring', off)"""

    def __init__(self, kind: str, where: Any = None, null: Any = None):
        self.kind, self.where = kind, where
        self.null = z3.BoolVal(False) if null is None else null

    def __repr__(self) -> str:
        return f'<ptr {self.kind} {self.where}>'


NULL = Ptr('null', None, z3.BoolVal(True))


class CState:
    def __init__(self) -> None:
        self.vars: Dict[str, Any] = {}
        self.M: Dict[str, Any] = {}
        self.pc: List[Any] = []
        self.trace: List[tuple] = []
        self.path: List[str] = []
        self.ghost: Dict[str, Any] = {}

    def fork(self) -> 'CState':
        s = CState()
        s.vars, s.M, s.pc, s.trace, s.path, s.ghost = dict(self.vars), dict(self.M), list(self.pc), list(self.trace), list(self.path), dict(self.ghost)
        return s

    def assume(self, c: Any) -> None:
        self.pc.append(c)


class CExec:
    def __init__(self, lin: Linear, name: str = ''):
        self.lin = lin
        self.name = name or lin.name
        self.obligations: List[Obl] = []
        self.contracts: Dict[str, Callable] = {}
        self.cuts: set = set()
        self.fresh_n = 0
        self.feas_timeout_ms = 2000
        self.consts: Dict[str, Any] = {}  # literal instantiation of parameters (width, ww, with_ring)
        self.assumed_calls: List[str] = []
        self.max_steps = 4000

    # ---- helpers
    def fresh(self, base: str, bits: int = 64):
        self.fresh_n += 1
        return z3.BitVec(f'{base}!c{self.fresh_n}', bits)

    def fresh_bool(self, base: str):
        self.fresh_n += 1
        return z3.Bool(f'{base}!c{self.fresh_n}')

    def oblige(self, st: CState, name: str, goal: Any, **meta: Any) -> None:
        full = f'{self.name}:{name}'
        n = sum(1 for o in self.obligations if o.name.split('#')[0] == full)
        if n:
            full = f'{full}#{n}'
        meta.setdefault('path', '/'.join(st.path[-6:]))
        self.obligations.append(Obl(full, list(st.pc), goal, 'vc', dict(meta)))

    def feasible(self, st: CState, cond: Any = None) -> bool:
        s = z3.Solver()
        s.set('timeout', self.feas_timeout_ms)
        s.add(*[c for c in st.pc if not _has_quantifier(c)])
        if cond is not None:
            s.add(cond)
        return s.check() != z3.unsat

    def branch(self, st: CState, c: Any, label: str) -> List[Tuple[CState, bool]]:
        c = z3.simplify(c)
        if z3.is_true(c):
            return [(st, True)]
        if z3.is_false(c):
            return [(st, False)]
        out = []
        if self.feasible(st, c):
            s1 = st.fork()
            s1.assume(c)
            s1.path.append(label + ':T')
            out.append((s1, True))
        if self.feasible(st, z3.Not(c)):
            s2 = st.fork()
            s2.assume(z3.Not(c))
            s2.path.append(label + ':F')
            out.append((s2, False))
        return out

    # ---- integer conversions
    def conv(self, v: Any, src: CT, dst: CT) -> Any:
        if dst.kind == 'double' or src.kind == 'double':
            return ('double',)
        if dst.kind != 'int' or src.kind != 'int':
            return v
        if isinstance(v, tuple):
            return v
        if dst.bits == src.bits:
            return v
        if dst.bits < src.bits:
            return z3.Extract(dst.bits - 1, 0, v)
        return z3.SignExt(dst.bits - src.bits, v) if src.signed else z3.ZeroExt(dst.bits - src.bits, v)

    def truth(self, v: Any, t: CT) -> Any:
        if isinstance(v, Ptr):
            return z3.Not(v.null)
        if isinstance(v, z3.BoolRef):
            return v
        if isinstance(v, tuple):
            raise Undecided('truth value of a double')
        return v != 0

    def as_int(self, b: Any, bits: int = 32):
        """a z3 Bool as a C int"""
        if isinstance(b, z3.BoolRef):
            return z3.If(b, z3.BitVecVal(1, bits), z3.BitVecVal(0, bits))
        return b

    # ---- running
    def run(self, st: CState, start: Any = 0, stop: Optional[set] = None) -> List[Tuple[CState, tuple]]:
        """execute from instruction index / label `start` until a label in `stop` (not checked at the start
        position itself) or a return.  -> [(state, ('label', L) | ('return', value))]"""
        stop = stop if stop is not None else self.cuts
        pc0 = self.lin.labels[start] + 1 if isinstance(start, str) else start
        work = [(st, pc0, 0)]
        outs: List[Tuple[CState, tuple]] = []
        while work:
            s, i, steps = work.pop()
            if steps > self.max_steps:
                raise Undecided(f'{self.name}: path too long (a loop without a cut label?)')
            ins = self.lin.ins[i]
            k = ins[0]
            if k == 'label':
                if ins[1] in stop:
                    outs.append((s, ('label', ins[1])))
                else:
                    work.append((s, i + 1, steps + 1))
            elif k == 'goto':
                work.append((s, self.lin.labels[ins[1]], steps + 1))
            elif k == 'return':
                if ins[1] is None:
                    outs.append((s, ('return', None)))
                else:
                    for s2, v in self.ev(ins[1], s):
                        outs.append((s2, ('return', v)))
            elif k == 'branch':
                cond = ins[1]
                if isinstance(cond, tuple) and cond[0] == 'eq':
                    for s2, a in self.ev(cond[1], s):
                        for s3, b in self.ev(cond[2], s2):
                            for s4, t in self.branch(s3, a == b, 'case'):
                                work.append((s4, self.lin.labels[ins[2] if t else ins[3]], steps + 1))
                    continue
                for s2, v in self.ev(cond, s):
                    c = self.truth(v, ctype(cond['type']))
                    for s3, t in self.branch(s2, c, f'br@{cond.get("range", {}).get("begin", {}).get("line", "?")}'):
                        work.append((s3, self.lin.labels[ins[2] if t else ins[3]], steps + 1))
            elif k == 'stmt':
                for s2 in self.exec_stmt(ins[1], s):
                    work.append((s2, i + 1, steps + 1))
            else:
                raise Undecided(f'instruction {k}')
        return outs

    def exec_stmt(self, n: Any, st: CState) -> List[CState]:
        if n['kind'] == 'DeclStmt':
            states = [st]
            for d in n.get('inner', []):
                if d['kind'] != 'VarDecl':
                    continue
                nxt = []
                for s in states:
                    init = [c for c in d.get('inner', []) if c.get('kind') and not c['kind'].endswith('Attr')]
                    t = ctype(d['type'])
                    if not init:
                        s2 = s.fork()
                        s2.vars[d['name']] = self.undef(d['name'], t)
                        nxt.append(s2)
                        continue
                    if init[0]['kind'] == 'InitListExpr':
                        fields = STRUCT_FIELDS.get(t.pointee)
                        if fields is None and re.fullmatch(r'char \*\s*\[\d*\]', (d['type'].get('qualType') or '').replace('const ', '').strip()):
                            # a table of string literals (keyword names): an opaque constant object, only ever handed to an API call
                            s2 = s.fork()
                            s2.vars[d['name']] = Ptr('opaque', ('strtable', d['name']))
                            nxt.append(s2)
                            continue
                        if fields is None:
                            raise Undecided(f'initialiser list for {t.pointee}')
                        s2 = s.fork()
                        for fname, el in zip(fields, init[0].get('inner', [])):
                            vals = list(self.ev(el, s2))
                            if len(vals) != 1:
                                raise Undecided('initialiser with side effects')
                            s2, v0 = vals[0]
                            s2 = s2.fork()
                            s2.vars[f'{d["name"]}.{fname}'] = v0
                        nxt.append(s2)
                        continue
                    for s2, v in self.ev(init[0], s):
                        s3 = s2.fork()
                        s3.vars[d['name']] = v
                        nxt.append(s3)
                states = nxt
            return states
        return [s for s, _ in self.ev(n, st)]

    def undef(self, name: str, t: CT) -> Any:
        if t.kind == 'int':
            return self.fresh('undef_' + name, t.bits)
        if t.kind == 'ptr':
            return Ptr('undef', name, self.fresh_bool('undef_null_' + name))
        if t.kind == 'double':
            return ('double',)
        return ('undef',)

    # ---- expressions: yield (state, value)
    def ev(self, n: Any, st: CState) -> Iterator[Tuple[CState, Any]]:
        m = getattr(self, 'e_' + n['kind'], None)
        if m is None:
            raise Undecided(f'C expression {n["kind"]} not modelled (line {n.get("range", {}).get("begin", {}).get("line", "?")})')
        return m(n, st)

    def e_ParenExpr(self, n, st):
        return self.ev(n['inner'][0], st)

    def e_ConstantExpr(self, n, st):
        return self.ev(n['inner'][0], st)

    def e_IntegerLiteral(self, n, st):
        t = ctype(n['type'])
        yield (st, z3.BitVecVal(int(n['value']), t.bits))

    def e_CharacterLiteral(self, n, st):
        yield (st, z3.BitVecVal(int(n['value']), 32))

    def e_FloatingLiteral(self, n, st):
        yield (st, ('double',))

    def e_StringLiteral(self, n, st):
        yield (st, Ptr('cstr', n.get('value')))

    def e_UnaryExprOrTypeTraitExpr(self, n, st):
        # sizeof(T): only sizes of the modelled element types are needed
        a = n.get('argType', {}).get('qualType') or (n['inner'][0]['type']['qualType'] if n.get('inner') else '')
        sizes = {'uint64_t': 8, 'Page': 24, 'Slot': 16, 'SegmentRange': 16, 'SpecSlot': 16}
        a2 = re.sub(r'\[\d+\]', '', a).strip()
        if a2 in sizes:
            mult = 1
            mm = re.search(r'\[(\d+)\]', a)
            if mm:
                mult = int(mm.group(1))
            yield (st, u64(sizes[a2] * mult))
        elif a2.endswith('*'):
            mm = re.search(r'\[(\d+)\]', a)
            yield (st, u64(8 * (int(mm.group(1)) if mm else 1)))
        else:
            raise Undecided(f'sizeof({a})')

    def e_DeclRefExpr(self, n, st):
        rd = n['referencedDecl']
        if rd['kind'] == 'FunctionDecl':
            yield (st, ('fn', rd['name']))
            return
        if rd['kind'] == 'EnumConstantDecl':
            raise Undecided('enum constant')
        yield (st, ('lv', ('var', rd['name'])))

    def e_ImplicitCastExpr(self, n, st):
        ck = n['castKind']
        for s, v in self.ev(n['inner'][0], st):
            yield from self.cast(ck, v, n['inner'][0], n, s)

    e_CStyleCastExpr = e_ImplicitCastExpr

    def cast(self, ck: str, v: Any, src_node: Any, n: Any, st: CState):
        if ck == 'LValueToRValue':
            yield from self.load(v, ctype(n['type']), st)
        elif ck in ('NoOp', 'FunctionToPointerDecay', 'BuiltinFnToFnPtr'):
            yield (st, v)
        elif ck == 'ArrayToPointerDecay':
            # an array lvalue becomes a pointer to its first element
            if isinstance(v, tuple) and v[0] == 'lv':
                loc = v[1]
                if loc[0] == 'field':  # MemoryObject array field
                    yield (st, Ptr('fieldarr', (loc[1], u64(0))))
                    return
                if loc[0] == 'var':
                    yield (st, Ptr('localarr', loc[1]))
                    return
            yield (st, v)
        elif ck == 'IntegralCast':
            yield (st, self.conv(v, ctype(src_node['type']), ctype(n['type'])))
        elif ck == 'NullToPointer':
            yield (st, NULL)
        elif ck == 'BitCast':
            yield (st, v)
        elif ck in ('PointerToBoolean', 'IntegralToBoolean'):
            yield (st, self.truth(v, ctype(src_node['type'])))
        elif ck in ('IntegralToFloating', 'FloatingCast', 'FloatingToIntegral'):
            yield (st, ('double',))
        elif ck == 'ToVoid':
            yield (st, None)
        elif ck == 'PointerToIntegral' or ck == 'IntegralToPointer':
            raise Undecided(f'cast {ck}')
        else:
            raise Undecided(f'cast kind {ck}')

    # ---- lvalues / memory
    def load(self, v: Any, t: CT, st: CState):
        if not (isinstance(v, tuple) and v and v[0] == 'lv'):
            yield (st, v)
            return
        loc = v[1]
        k = loc[0]
        if k == 'var':
            if loc[1] not in st.vars:
                if loc[1] in self.consts:
                    yield (st, self.consts[loc[1]])
                    return
                raise Undecided(f'read of unknown variable {loc[1]}')
            yield (st, st.vars[loc[1]])
        elif k == 'field':
            yield (st, self.load_field(loc[1], t, st))
        elif k == 'fieldarr':
            name, idx = loc[1], loc[2]
            self.bounds(st, f'{name}[i]', z3.ULT(idx, u64(16)))
            yield (st, self.load_fieldarr(name, idx, t, st))
        elif k == 'flat':
            self.bounds(st, 'flat[i]', z3.And(st.M['flat_nonnull'], z3.ULT(loc[1], st.M['f:flat_count'])))
            val = z3.Select(st.M['flat'], loc[1])
            hook = getattr(self, 'on_flat_load', None)
            if hook:
                hook(st, loc[1], val)
            yield (st, val)
        elif k == 'pagewords':
            self.bounds(st, 'page->words[i]', z3.And(z3.Select(st.M['pg_exists'], loc[1]), z3.ULT(loc[2], u64(1 << 14))))
            yield (st, z3.Select(z3.Select(st.M['pg_words'], loc[1]), loc[2]))
        elif k == 'pagefield':
            self.bounds(st, f'page->{loc[2]}', z3.Select(st.M['pg_exists'], loc[1]))
            if loc[2] == 'words':
                yield (st, Ptr('u64', ('pagewords', loc[1], u64(0))))
            else:
                yield (st, z3.Select(st.M['pg_' + loc[2]], loc[1]))
        elif k == 'seg':
            self.bounds(st, 'segments[i]', z3.And(loc[1] >= 0, loc[1] < st.M['f:segment_count']))
            yield (st, z3.Select(st.M['seg_' + loc[2]], loc[1]))
        elif k == 'segelem':
            # a whole SegmentRange read (struct copy): both fields
            self.bounds(st, 'segments[i]', z3.And(loc[1] >= 0, loc[1] < st.M['f:segment_count']))
            yield (st, ('SegmentRange', z3.Select(st.M['seg_start'], loc[1]), z3.Select(st.M['seg_end'], loc[1])))
        elif k == 'ring':
            self.bounds(st, 'last_ops_ring[i]', z3.ULT(loc[1], self.ring_len(st)))
            yield (st, z3.Select(st.M['ring'], loc[1]))
        elif k == 'deref_local':
            yield (st, st.vars[loc[1]])
        else:
            raise Undecided(f'load from {loc}')

    def ring_len(self, st: CState):
        v = st.vars.get('last_ops_length')
        return v if v is not None else st.M['ring_len']

    def bounds(self, st: CState, what: str, cond: Any) -> None:
        self.oblige(st, f'bounds.{what}', cond, kind='memory-safety')

    PTR_FIELDS = {'flat': 'u64', 'slots': 'slots', 'segments': 'seg'}
    PTR_ARRAYS = {'page_cache_page': 'page', 'page_cache_words': 'pagewords'}

    def load_field(self, name: str, t: CT, st: CState) -> Any:
        if name == 'flat':
            return Ptr('u64', ('flat', u64(0)), z3.Not(st.M['flat_nonnull']))
        if name == 'segments':
            return Ptr('seg', ('segments', u64(0)), z3.BoolVal(False))
        if name == 'slots':
            return Ptr('slots', None, z3.Not(st.M.get('slots_nonnull', z3.BoolVal(True))))
        if t.kind == 'double':
            return ('double',)
        key = 'f:' + name
        if key not in st.M:
            raise Undecided(f'MemoryObject field {name} is not part of the symbolic state')
        return st.M[key]

    def load_fieldarr(self, name: str, idx: Any, t: CT, st: CState) -> Any:
        arr = st.M['a:' + name]
        if name == 'page_cache_page':
            return Ptr('page', z3.Select(arr, idx), z3.Select(st.M['a:' + name + '#null'], idx))
        if name == 'page_cache_words':
            return Ptr('u64', ('pagewords', z3.Select(arr, idx), u64(0)), z3.Select(st.M['a:' + name + '#null'], idx))
        return z3.Select(arr, idx)

    def store(self, v: Any, val: Any, st: CState) -> CState:
        loc = v[1]
        k = loc[0]
        s = st.fork()
        if k == 'var':
            s.vars[loc[1]] = val
        elif k == 'deref_local':
            s.vars[loc[1]] = val
        elif k == 'field':
            if loc[1] == 'flat':
                s.M['flat_nonnull'] = z3.Not(val.null)
            elif isinstance(val, tuple):
                pass  # doubles: not modelled
            else:
                s.M['f:' + loc[1]] = val
        elif k == 'fieldarr':
            name, idx = loc[1], loc[2]
            self.bounds(st, f'{name}[i]', z3.ULT(idx, u64(16)))
            if isinstance(val, Ptr):
                tgt = val.where if val.kind == 'page' else (val.where[1] if val.where else u64(0))
                s.M['a:' + name] = z3.Store(s.M['a:' + name], idx, tgt if tgt is not None else u64(0))
                s.M['a:' + name + '#null'] = z3.Store(s.M['a:' + name + '#null'], idx, val.null)
            else:
                s.M['a:' + name] = z3.Store(s.M['a:' + name], idx, val)
        elif k == 'flat':
            self.bounds(st, 'flat[i]', z3.And(st.M['flat_nonnull'], z3.ULT(loc[1], st.M['f:flat_count'])))
            s.M['flat'] = z3.Store(s.M['flat'], loc[1], val)
        elif k == 'pagewords':
            self.bounds(st, 'page->words[i]', z3.And(z3.Select(st.M['pg_exists'], loc[1]), z3.ULT(loc[2], u64(1 << 14))))
            s.M['pg_words'] = z3.Store(s.M['pg_words'], loc[1], z3.Store(z3.Select(s.M['pg_words'], loc[1]), loc[2], val))
        elif k == 'pagefield':
            s.M['pg_' + loc[2]] = z3.Store(s.M['pg_' + loc[2]], loc[1], val)
        elif k == 'seg':
            self.bounds(st, 'segments[i]', z3.And(loc[1] >= 0, loc[1] < st.M['f:segment_capacity']))
            s.M['seg_' + loc[2]] = z3.Store(s.M['seg_' + loc[2]], loc[1], val)
        elif k == 'segelem':
            if not (isinstance(val, tuple) and val and val[0] == 'SegmentRange'):
                raise Undecided('store of a non-SegmentRange value into segments[i]')
            self.bounds(st, 'segments[i]', z3.And(loc[1] >= 0, loc[1] < st.M['f:segment_capacity']))
            s.M['seg_start'] = z3.Store(s.M['seg_start'], loc[1], val[1])
            s.M['seg_end'] = z3.Store(s.M['seg_end'], loc[1], val[2])
        elif k == 'ring':
            self.bounds(st, 'last_ops_ring[i]', z3.ULT(loc[1], self.ring_len(st)))
            s.M['ring'] = z3.Store(s.M['ring'], loc[1], val)
        else:
            raise Undecided(f'store to {loc}')
        return s

    def e_MemberExpr(self, n, st):
        name = n['name']
        for s, base in self.ev(n['inner'][0], st):
            if n.get('isArrow'):
                p = base
                if not isinstance(p, Ptr):
                    raise Undecided(f'-> on {p!r}')
                if p.kind == 'mem':
                    yield (s, ('lv', ('field', name)))
                elif p.kind == 'page':
                    self.oblige(s, f'nonnull.page->{name}', z3.Not(p.null), kind='memory-safety')
                    yield (s, ('lv', ('pagefield', p.where, name)))
                elif p.kind == 'local-struct':
                    yield (s, ('lv', ('var', f'{p.where}.{name}')))
                else:
                    raise Undecided(f'-> on pointer kind {p.kind}')
            else:
                if isinstance(base, tuple) and base[0] == 'lv' and base[1][0] == 'segelem':
                    yield (s, ('lv', ('seg', base[1][1], name)))
                elif isinstance(base, tuple) and base[0] == 'lv' and base[1][0] == 'var':
                    yield (s, ('lv', ('var', f'{base[1][1]}.{name}')))
                else:
                    raise Undecided(f'. on {base!r}')

    def e_ArraySubscriptExpr(self, n, st):
        for s, base in self.ev(n['inner'][0], st):
            for s2, idx in self.ev(n['inner'][1], s):
                it = ctype(n['inner'][1]['type'])
                idx64 = self.conv(idx, it, CT('int', 64, it.signed))
                if isinstance(base, Ptr):
                    yield (s2, ('lv', self.index(base, idx64, s2)))
                else:
                    raise Undecided(f'subscript of {base!r}')

    def index(self, p: Ptr, idx: Any, st: CState) -> tuple:
        if p.kind == 'u64':
            self.oblige(st, 'nonnull.subscript', z3.Not(p.null), kind='memory-safety')
            w = p.where
            if w[0] == 'flat':
                return ('flat', w[1] + idx)
            if w[0] == 'pagewords':
                return ('pagewords', w[1], w[2] + idx)
            if w[0] == 'ring':
                return ('ring', w[1] + idx)
        if p.kind == 'fieldarr':
            return ('fieldarr', p.where[0], p.where[1] + idx)
        if p.kind == 'seg':
            return ('segelem', p.where[1] + idx)
        raise Undecided(f'subscript of pointer kind {p.kind}')

    # ---- operators
    def e_UnaryOperator(self, n, st):
        op = n['opcode']
        sub = n['inner'][0]
        t = ctype(n['type'])
        if op in ('++', '--'):
            for s, lv in self.ev(sub, st):
                for s2, cur in self.load(lv, t, s):
                    st_t = ctype(sub['type'])
                    if isinstance(cur, Ptr):
                        raise Undecided('pointer increment')
                    one = z3.BitVecVal(1, st_t.bits)
                    new = cur + one if op == '++' else cur - one
                    if st_t.signed:
                        self.oblige(s2, 'ub.signed_overflow', (cur != (1 << (st_t.bits - 1)) - 1) if op == '++' else (cur != -(1 << (st_t.bits - 1))), kind='undefined-behaviour')
                    s3 = self.store(lv, new, s2)
                    yield (s3, cur if n.get('isPostfix') else new)
            return
        if op == '&':
            inner = sub
            while inner.get('kind') == 'ParenExpr':
                inner = inner['inner'][0]
            if inner.get('kind') == 'DeclRefExpr' and inner['referencedDecl']['name'].startswith('_Py_'):
                yield (st, Ptr('pyobj', inner['referencedDecl']['name']))
                return
            for s, lv in self.ev(sub, st):
                loc = lv[1]
                if loc[0] == 'var':
                    tt = ctype(sub['type'])
                    if tt.kind == 'struct':
                        yield (s, Ptr('local-struct', loc[1]))
                    else:
                        yield (s, Ptr('u64' if tt.kind == 'int' and tt.bits == 64 else 'localptr', ('local', loc[1])))
                elif loc[0] == 'flat':
                    yield (s, Ptr('u64', ('flat', loc[1])))
                elif loc[0] == 'field':
                    yield (s, Ptr('fieldref', loc[1]))
                else:
                    raise Undecided(f'address of {loc}')
            return
        if op == '*':
            for s, p in self.ev(sub, st):
                if not isinstance(p, Ptr):
                    raise Undecided('* of a non-pointer')
                self.oblige(s, 'nonnull.deref', z3.Not(p.null), kind='memory-safety')
                if p.kind == 'u64':
                    w = p.where
                    if w[0] == 'local':
                        yield (s, ('lv', ('deref_local', w[1])))
                    elif w[0] == 'flat':
                        yield (s, ('lv', ('flat', w[1])))
                    elif w[0] == 'pagewords':
                        yield (s, ('lv', ('pagewords', w[1], w[2])))
                    elif w[0] == 'ring':
                        yield (s, ('lv', ('ring', w[1])))
                    else:
                        raise Undecided(f'deref of {w}')
                elif p.kind == 'localptr':
                    yield (s, ('lv', ('deref_local', p.where[1])))
                elif p.kind == 'fieldref':  # *(&self->field), as Py_CLEAR expands
                    yield (s, ('lv', ('field', p.where)))
                else:
                    raise Undecided(f'deref of pointer kind {p.kind}')
            return
        for s, v in self.ev(sub, st):
            if op == '!':
                yield (s, z3.Not(self.truth(v, ctype(sub['type']))))
            elif op == '-':
                v = self.as_int(v, t.bits)
                if t.signed:
                    self.oblige(s, 'ub.signed_negate', v != -(1 << (t.bits - 1)), kind='undefined-behaviour')
                yield (s, -v)
            elif op == '~':
                yield (s, ~self.as_int(v, t.bits))
            elif op == '+':
                yield (s, v)
            else:
                raise Undecided(f'unary {op}')

    def e_BinaryOperator(self, n, st):
        op = n['opcode']
        L, R = n['inner']
        t = ctype(n['type'])
        if op == '=':
            for s, lv in self.ev(L, st):
                for s2, v in self.ev(R, s):
                    if isinstance(v, z3.BoolRef):
                        v = self.as_int(v, ctype(L['type']).bits or 32)
                    s3 = self.store(lv, v, s2)
                    yield (s3, v)
            return
        if op in ('&&', '||'):
            for s, a in self.ev(L, st):
                ta = self.truth(a, ctype(L['type']))
                for s2, taken in self.branch(s, ta, op):
                    if taken == (op == '&&'):
                        for s3, b in self.ev(R, s2):
                            yield (s3, self.truth(b, ctype(R['type'])))
                    else:
                        yield (s2, z3.BoolVal(op == '||'))
            return
        if op == ',':
            for s, _ in self.ev(L, st):
                yield from self.ev(R, s)
            return
        for s, a in self.ev(L, st):
            for s2, b in self.ev(R, s):
                yield (s2, self.binop(op, a, b, ctype(L['type']), ctype(R['type']), t, s2))

    def binop(self, op: str, a: Any, b: Any, ta: CT, tb: CT, t: CT, st: CState) -> Any:
        if isinstance(a, tuple) or isinstance(b, tuple) or t.kind == 'double':
            if op in ('<', '>', '<=', '>=', '==', '!='):
                return self.fresh_bool('double_cmp')
            return ('double',)
        if isinstance(a, Ptr) or isinstance(b, Ptr):
            return self.ptr_binop(op, a, b, st)
        a, b = self.as_int(a, ta.bits or 32), self.as_int(b, tb.bits or 32)
        if op in ('<<', '>>'):
            if tb.bits != ta.bits:
                b = self.conv(b, tb, CT('int', ta.bits, tb.signed))
            self.oblige(st, 'ub.shift_amount_below_width', z3.ULT(b, z3.BitVecVal(ta.bits, ta.bits)), kind='undefined-behaviour')
            if op == '<<':
                return a << b
            return (a >> b) if ta.signed else z3.LShR(a, b)
        signed = ta.signed
        if op == '+':
            r = a + b
            if t.signed:
                self.oblige(st, 'ub.signed_overflow', z3.Not(z3.And((a < 0) == (b < 0), (r < 0) != (a < 0))), kind='undefined-behaviour')
            return r
        if op == '-':
            r = a - b
            if t.signed:
                self.oblige(st, 'ub.signed_overflow', z3.Not(z3.And((a < 0) != (b < 0), (r < 0) != (a < 0))), kind='undefined-behaviour')
            return r
        if op == '*':
            if t.signed:
                self.oblige(st, 'ub.signed_overflow', z3.BVMulNoOverflow(a, b, True), kind='undefined-behaviour')
            return a * b
        if op in ('/', '%'):
            self.oblige(st, 'ub.division_by_zero', b != 0, kind='undefined-behaviour')
            if op == '/':
                return (a / b) if signed else z3.UDiv(a, b)
            return z3.SRem(a, b) if signed else z3.URem(a, b)
        if op == '&':
            return a & b
        if op == '|':
            return a | b
        if op == '^':
            return a ^ b
        if op == '<':
            return (a < b) if signed else z3.ULT(a, b)
        if op == '<=':
            return (a <= b) if signed else z3.ULE(a, b)
        if op == '>':
            return (a > b) if signed else z3.UGT(a, b)
        if op == '>=':
            return (a >= b) if signed else z3.UGE(a, b)
        if op == '==':
            return a == b
        if op == '!=':
            return a != b
        raise Undecided(f'binary {op}')

    def ptr_binop(self, op: str, a: Any, b: Any, st: CState) -> Any:
        if op in ('==', '!='):
            if isinstance(a, Ptr) and isinstance(b, Ptr) and (a.kind == 'null' or b.kind == 'null'):
                other = b if a.kind == 'null' else a
                return other.null if op == '==' else z3.Not(other.null)
            raise Undecided('comparison of two non-null pointers')
        if op == '+' and isinstance(a, Ptr) and not isinstance(b, Ptr):
            if z3.is_bv(b) and b.size() < 64:
                b = z3.SignExt(64 - b.size(), b)  # int offsets are converted to ptrdiff_t
            if a.kind == 'u64' and a.where[0] in ('flat', 'ring'):
                return Ptr('u64', (a.where[0], a.where[1] + b), a.null)
            if a.kind == 'u64' and a.where[0] == 'pagewords':
                return Ptr('u64', ('pagewords', a.where[1], a.where[2] + b), a.null)
        if op == '-' and isinstance(a, Ptr) and isinstance(b, Ptr) and a.kind == b.kind == 'u64' and a.where[0] == b.where[0] == 'flat':
            return a.where[1] - b.where[1]
        raise Undecided(f'pointer arithmetic {op} on {a!r}, {b!r}')

    def e_CompoundAssignOperator(self, n, st):
        op = n['opcode'][:-1]
        L, R = n['inner']
        tl = ctype(L['type'])
        for s, lv in self.ev(L, st):
            for s2, cur in self.load(lv, tl, s):
                for s3, b in self.ev(R, s2):
                    if isinstance(cur, tuple):  # double accumulation: not modelled
                        yield (s3, cur)
                        continue
                    tr = ctype(R['type'])
                    ct = ctype(n.get('computeResultType', n['type']))
                    a2 = self.conv(cur, tl, ct)
                    b2 = self.conv(self.as_int(b, tr.bits or 32), tr, ct) if op not in ('<<', '>>') else b
                    r = self.binop(op, a2, b2, ct, ct if op not in ('<<', '>>') else tr, ct, s3)
                    r = self.conv(r, ct, tl)
                    s4 = self.store(lv, r, s3)
                    yield (s4, r)

    def e_ConditionalOperator(self, n, st):
        c, a, b = n['inner']
        for s, v in self.ev(c, st):
            for s2, taken in self.branch(s, self.truth(v, ctype(c['type'])), '?:'):
                yield from self.ev(a if taken else b, s2)

    def e_CallExpr(self, n, st):
        callee = n['inner'][0]
        args = n['inner'][1:]
        for s, f in self.ev(callee, st):
            if not (isinstance(f, tuple) and f[0] == 'fn'):
                raise Undecided('indirect call')
            name = f[1]

            def go(i: int, s1: CState, acc: List[Any]):
                if i == len(args):
                    h = self.contracts.get(name)
                    if h is None:
                        raise Undecided(f'call to {name} which has no contract')
                    yield from h(self, s1, acc, n)
                    return
                for s2, v in self.ev(args[i], s1):
                    yield from go(i + 1, s2, acc + [v])

            yield from go(0, s, [])

    def e_StmtExpr(self, n, st):
        raise Undecided('GNU statement expression (a CPython macro) needs a contract by name')
