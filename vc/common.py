"""
Shared plumbing of the checks: obligation records, solver discharge (z3 first, cvc5 CLI for
z3's unknowns), verdict protocol (VIOLATION / KNOWN-FINDING / UNDECIDED lines, exit codes),
evidence and replay files.

Exit codes: 0 held, 1 violation, 2 undecided, 3 checker crash.
"""
from __future__ import annotations

import hashlib
import json
import os
import subprocess
import sys
import tempfile
import time
import traceback
from dataclasses import dataclass, field
from pathlib import Path
from typing import Any, Callable, Dict, List, Optional, Tuple

import z3

VERIF = Path(__file__).resolve().parent.parent
REPO = Path(os.environ.get('VERIF_REPO', '/repo'))
EVIDENCE_DIR = Path(os.environ['VERIF_EVIDENCE_DIR']) if os.environ.get('VERIF_EVIDENCE_DIR') else VERIF / 'evidence'  # (scratch runs on seeded copies write elsewhere)
REPLAY_DIR = VERIF / 'replays'

Z3_TIMEOUT_MS = int(os.environ.get('VERIF_Z3_TIMEOUT_MS', '40000'))
CVC5_TIMEOUT_S = int(os.environ.get('VERIF_CVC5_TIMEOUT_S', '40'))


class Undecided(Exception):
    """A construct outside the supported subset, a missing function, a stale contract, ...:
    the obligation cannot be generated.  Never reported as a violation."""


# --------------------------------------------------------------------------- obligations


@dataclass
class Obl:
    """One proof obligation: under `hyps`, `goal` must hold (kind='vc'), or `hyps` must be
    satisfiable (kind='cover': vacuity guard), or `hyps => False` must FAIL (kind='canary')."""

    name: str
    hyps: List[Any]
    goal: Any = None
    kind: str = 'vc'
    meta: Dict[str, Any] = field(default_factory=dict)
    # optional: turn a counter-model into a concrete, JSON-able witness; receives ev(term) -> value term
    extract: Optional[Callable[[Any], Dict[str, Any]]] = None
    # picklable alternative: witness field -> names of integer constants whose model values are wanted
    witness_consts: Optional[Dict[str, List[str]]] = None


@dataclass
class OblResult:
    name: str
    kind: str
    status: str  # 'proved' | 'failed' | 'unknown' | 'covered' | 'uncovered'
    backend: str = 'z3'
    seconds: float = 0.0
    model: Optional[Dict[str, str]] = None
    detail: str = ''
    meta: Dict[str, Any] = field(default_factory=dict)
    witness: Optional[Dict[str, Any]] = None

    def to_json(self) -> Dict[str, Any]:
        d = dict(name=self.name, kind=self.kind, status=self.status, backend=self.backend, seconds=round(self.seconds, 4))
        if self.model is not None:
            d['model'] = self.model
        if self.witness is not None:
            d['witness'] = self.witness
        if self.detail:
            d['detail'] = self.detail
        if self.meta:
            d['meta'] = self.meta
        return d


def _model_to_dict(m: z3.ModelRef) -> Dict[str, str]:
    out = {}
    for d in m.decls():
        try:
            out[d.name()] = str(m[d])
        except Exception:  # pragma: no cover
            out[d.name()] = '?'
    return out


def _cvc5_check(smt2: str, want_model: bool = False) -> str:
    """Run the cvc5 CLI on an SMT-LIB2 script.  Returns 'sat' | 'unsat' | 'unknown'."""
    with tempfile.NamedTemporaryFile('w', suffix='.smt2', delete=False) as f:
        f.write('(set-logic ALL)\n' + smt2 + '\n(check-sat)\n')
        path = f.name
    try:
        p = subprocess.run(
            ['/usr/bin/cvc5', '--lang', 'smt2', f'--tlimit={CVC5_TIMEOUT_S * 1000}', path],
            capture_output=True,
            text=True,
            timeout=CVC5_TIMEOUT_S + 10,
        )
        out = p.stdout.strip().splitlines()
        return out[0].strip() if out and out[0].strip() in ('sat', 'unsat', 'unknown') else 'unknown'
    except Exception:
        return 'unknown'
    finally:
        os.unlink(path)


COVER_TIMEOUT_MS = int(os.environ.get('VERIF_COVER_TIMEOUT_MS', '2500'))


_HQ_CACHE: Dict[int, bool] = {}
_HQ_KEEP: List[Any] = []


def _has_quantifier(e: Any) -> bool:
    i = e.get_id()
    if i not in _HQ_CACHE:
        _HQ_CACHE[i] = _has_quantifier_uncached(e)
        _HQ_KEEP.append(e)  # keeps the id alive
    return _HQ_CACHE[i]


def _has_quantifier_uncached(e: Any) -> bool:
    seen = set()
    stack = [e]
    while stack:
        x = stack.pop()
        if x.get_id() in seen:
            continue
        seen.add(x.get_id())
        if z3.is_quantifier(x):
            return True
        stack.extend(x.children())
    return False


def _discharge_cover(obl: Obl) -> OblResult:
    """vacuity guards.  Satisfiability of quantified hypotheses is often out of reach of the solvers
    (they answer `unknown`); then the ground part alone is checked: `unsat` there is a definite
    'uncovered'; `sat` there is reported as covered by backend 'z3-ground(quantified hyps not refuted)'."""
    t0 = time.time()
    s = z3.Solver()
    s.set('timeout', COVER_TIMEOUT_MS)
    s.add(*obl.hyps)
    r = s.check()
    backend = 'z3'
    if r == z3.unknown:
        g = z3.Solver()
        g.set('timeout', COVER_TIMEOUT_MS)
        g.add(*[h for h in obl.hyps if not _has_quantifier(h)])
        r = g.check()
        backend = 'z3-ground(quantified hyps not refuted)'
    dt = time.time() - t0
    if r == z3.sat:
        return OblResult(obl.name, obl.kind, 'covered', backend, dt, meta=obl.meta)
    if r == z3.unsat:
        return OblResult(obl.name, obl.kind, 'uncovered', backend, dt, meta=obl.meta)
    return OblResult(obl.name, obl.kind, 'unknown', backend, dt, detail='cover undecided', meta=obl.meta)


def _mentions_bitvectors(assertions: List[Any]) -> bool:
    seen = set()
    stack = list(assertions)
    n = 0
    while stack and n < 400:
        x = stack.pop()
        if x.get_id() in seen:
            continue
        seen.add(x.get_id())
        n += 1
        if z3.is_bv(x):
            return True
        stack.extend(x.children())
    return False


def _index_terms(assertions: List[Any], limit: int = 60) -> Dict[Any, List[Any]]:
    """ground terms worth instantiating quantifiers with: indices of selects/stores and constants, by sort"""
    out: Dict[Any, List[Any]] = {}
    seen = set()
    stack = list(assertions)
    bound_depth = 0
    while stack:
        x = stack.pop()
        if x.get_id() in seen:
            continue
        seen.add(x.get_id())
        if z3.is_quantifier(x):
            continue  # terms under binders mention bound variables
        if z3.is_app(x):
            k = x.decl().kind()
            if k in (z3.Z3_OP_SELECT, z3.Z3_OP_STORE):
                for idx in x.children()[1 : (2 if k == z3.Z3_OP_SELECT else 2)]:
                    if not _has_var(idx):
                        out.setdefault(idx.sort().sexpr(), [])
                        if all(not idx.eq(t) for t in out[idx.sort().sexpr()]) and len(out[idx.sort().sexpr()]) < limit:
                            out[idx.sort().sexpr()].append(idx)
            elif x.num_args() == 0 and k == z3.Z3_OP_UNINTERPRETED and (z3.is_bv(x) or z3.is_int(x)):
                out.setdefault(x.sort().sexpr(), [])
                if all(not x.eq(t) for t in out[x.sort().sexpr()]) and len(out[x.sort().sexpr()]) < limit:
                    out[x.sort().sexpr()].append(x)
            stack.extend(x.children())
    return out


def _has_var(e: Any) -> bool:
    stack = [e]
    seen = set()
    while stack:
        x = stack.pop()
        if x.get_id() in seen:
            continue
        seen.add(x.get_id())
        if z3.is_var(x):
            return True
        if z3.is_quantifier(x):
            continue
        stack.extend(x.children())
    return False


_SK = [0]


def _skolemize_negated_universals(a: Any) -> Any:
    """not(forall xs. body) -> not(body[sk]);  not(and(..)) -> or(not ..) recursively.  Equisatisfiable."""
    if z3.is_not(a):
        b = a.arg(0)
        if z3.is_quantifier(b) and b.is_forall():
            cs = []
            for i in range(b.num_vars()):
                _SK[0] += 1
                cs.append(z3.Const(f'sk!{_SK[0]}_{b.var_name(i)}', b.var_sort(i)))
            return _skolemize_negated_universals(z3.Not(z3.substitute_vars(b.body(), *reversed(cs))))
        if z3.is_and(b):
            return z3.Or(*[_skolemize_negated_universals(z3.Not(c)) for c in b.children()])
        if z3.is_implies(b):
            return z3.And(b.arg(0), _skolemize_negated_universals(z3.Not(b.arg(1))))
    return a


def _instantiate_once(assertions: List[Any], max_instances: int = 400) -> Optional[List[Any]]:
    """replace every top-level universally quantified assertion by its instances at the index terms of the
    query (one round).  The result is IMPLIED by the original assertions, so `unsat` carries over; `sat`
    only yields a candidate counter-model."""
    import itertools

    # inline the named conjuncts of a structured goal (goalpart!i == X_i, not(and(goalpart!..)))
    defs = {a.arg(0).decl().name(): a.arg(1) for a in assertions if z3.is_eq(a) and z3.is_const(a.arg(0)) and a.arg(0).decl().name().startswith('goalpart!')}
    if defs:
        rest = [a for a in assertions if not (z3.is_eq(a) and z3.is_const(a.arg(0)) and a.arg(0).decl().name().startswith('goalpart!'))]
        out_a = []
        for a in rest:
            if z3.is_not(a) and (z3.is_and(a.arg(0)) or z3.is_const(a.arg(0))) and all(z3.is_const(c) and c.decl().name() in defs for c in (a.arg(0).children() if z3.is_and(a.arg(0)) else [a.arg(0)])):
                cs = a.arg(0).children() if z3.is_and(a.arg(0)) else [a.arg(0)]
                out_a.append(z3.Not(z3.And(*[defs[c.decl().name()] for c in cs])))
            else:
                out_a.append(a)
        assertions = out_a
    assertions = [_skolemize_negated_universals(a) for a in assertions]
    terms = _index_terms(assertions)
    out: List[Any] = []
    for a in assertions:
        conj = [a]
        if z3.is_and(a):
            conj = list(a.children())
        for c in conj:
            if not _has_quantifier(c):
                out.append(c)
                continue
            if not (z3.is_quantifier(c) and c.is_forall()):
                continue  # nested / existential: dropped (weakening)
            sorts = [c.var_sort(i).sexpr() for i in range(c.num_vars())]
            pools = [terms.get(so, []) for so in sorts]
            if any(not pl for pl in pools):
                continue
            n = 1
            for pl in pools:
                n *= len(pl)
            if n > max_instances:
                pools = [pl[: max(1, int(max_instances ** (1.0 / len(pools))))] for pl in pools]
            body = c.body()
            for combo in itertools.product(*pools):
                inst = z3.substitute_vars(body, *reversed(combo))
                if not _has_quantifier(inst):
                    out.append(inst)
    return out


def _solve_portfolio(assertions: List[Any], timeout_ms: int, prefer: Optional[str] = None):
    """Solver verdicts on quantified VCs are unstable (the same query flips between 0.3 s and a
    timeout depending on the solver's internal state), so a query is tried in fresh contexts under a
    few configurations, then by cvc5.  Any sat/unsat answer is definitive; all-unknown is unknown.
    returns (result, backend, solver_or_None, reason)"""
    configs = [
        ('z3', {}),
        ('z3(ematching)', {'smt.mbqi': False, 'smt.auto_config': False}),
        ('z3(seed7)', {'smt.random_seed': 7}),
    ]
    share = max(2000, timeout_ms // 3)
    reason = ''
    quantified = any(_has_quantifier(a) for a in assertions)
    if prefer:
        # hinted order (see solver_hint): the configuration that decided this obligation last time goes first
        if prefer == 'cvc5' and assertions:
            s0 = z3.Solver(ctx=assertions[0].ctx)
            s0.add(*assertions)
            r2 = _cvc5_check(s0.to_smt2().replace('(check-sat)', ''))
            if r2 in ('sat', 'unsat'):
                return (z3.sat if r2 == 'sat' else z3.unsat, 'cvc5', None, '')
        for name, opts in configs:
            if prefer == name:
                ctx = z3.Context()
                sp = z3.Solver(ctx=ctx)
                sp.set('timeout', timeout_ms)
                for k, v in opts.items():
                    sp.set(k, v)
                for a in assertions:
                    sp.add(a.translate(ctx))
                rp = sp.check()
                if rp != z3.unknown:
                    return (rp, name, sp, '')
    if _mentions_bitvectors(assertions):
        # wide bit-vector formulas: eager bit-blasting decides in milliseconds what the default
        # strategy needs tens of seconds for
        try:
            ctx = z3.Context()
            t = z3.Then(z3.Tactic('simplify', ctx=ctx), z3.Tactic('solve-eqs', ctx=ctx), z3.Tactic('bit-blast', ctx=ctx), z3.Tactic('smt', ctx=ctx))
            s = t.solver()
            s.set('timeout', max(share, timeout_ms // 2))
            for a in assertions:
                s.add(a.translate(ctx))
            r = s.check()
            if r != z3.unknown:
                return (r, 'z3(bit-blast)', s, '')
        except z3.Z3Exception:
            pass
        s0 = z3.Solver(ctx=assertions[0].ctx)
        s0.add(*assertions)
        r2 = _cvc5_check(s0.to_smt2().replace('(check-sat)', ''))
        if r2 in ('sat', 'unsat'):
            return (z3.sat if r2 == 'sat' else z3.unsat, 'cvc5', None, '')
    for i, (name, opts) in enumerate(configs):
        if i and not quantified:
            break
        ctx = z3.Context()
        s = z3.Solver(ctx=ctx)
        s.set('timeout', share if quantified else timeout_ms)
        for k, v in opts.items():
            s.set(k, v)
        for a in assertions:
            s.add(a.translate(ctx))
        r = s.check()
        if r != z3.unknown:
            return (r, name, s, '')
        reason = s.reason_unknown()
    if _mentions_bitvectors(assertions):
        return (z3.unknown, 'z3+cvc5', None, reason)
    s0 = z3.Solver(ctx=assertions[0].ctx) if assertions else z3.Solver()
    s0.add(*assertions)
    r2 = _cvc5_check(s0.to_smt2().replace('(check-sat)', ''))
    if r2 == 'sat':
        return (z3.sat, 'cvc5', None, '')
    if r2 == 'unsat':
        return (z3.unsat, 'cvc5', None, '')
    return (z3.unknown, 'z3+cvc5', None, reason)


CANDIDATE = 'instantiated(quantified hypotheses relaxed: candidate counter-model)'

_HINTS: Optional[Dict[str, str]] = None


def solver_hint(name: str) -> Optional[str]:
    """which back end discharged this obligation on the last clean run (solver_hints.json, written by tools/relock.py).
    ORDER ONLY: the hinted configuration is tried first, every other one afterwards exactly as without a hint - a hint
    can make a run faster, never change a verdict."""
    global _HINTS
    if _HINTS is None:
        try:
            _HINTS = json.loads((VERIF / 'solver_hints.json').read_text())
        except Exception:
            _HINTS = {}
    return _HINTS.get(stable_name(name))


def _solve_with_instantiation(assertions: List[Any], timeout_ms: int):
    """quantified queries: first one round of instantiation at the query's own index terms (ground, fast):
    unsat there is a proof.  Otherwise the full portfolio decides; if that stays unknown while the
    instantiated query was sat, the answer is sat with backend CANDIDATE (a candidate counter-model)."""
    if not any(_has_quantifier(a) for a in assertions):
        return _solve_portfolio(assertions, timeout_ms)
    cand = None
    inst = None
    try:
        inst = _instantiate_once(assertions)
        if inst is not None:
            r0, b0, s0, _ = _solve_portfolio(inst, min(timeout_ms, 15000))
            if r0 == z3.unsat:
                return (z3.unsat, b0 + '+instantiation', None, '')
            if r0 == z3.sat:
                cand = s0
    except z3.Z3Exception:
        pass
    r, backend, s, reason = _solve_portfolio(assertions, timeout_ms)
    if r == z3.unknown and cand is None and inst is not None:
        # the short budget of the first round may have been too short on a busy machine: before giving up, ask the
        # instantiated (ground) query again with the full budget - sat there is a candidate counter-model
        try:
            r1, b1, s1, _ = _solve_portfolio(inst, timeout_ms)
            if r1 == z3.unsat:
                return (z3.unsat, b1 + '+instantiation', None, '')
            if r1 == z3.sat:
                cand = s1
        except z3.Z3Exception:
            pass
    if r == z3.unknown and cand is not None:
        return (z3.sat, CANDIDATE, cand, reason)
    return (r, backend, s, reason)


def discharge(obl: Obl, timeout_ms: Optional[int] = None) -> OblResult:
    if obl.kind in ('cover', 'canary'):
        return _discharge_cover(obl)
    t0 = time.time()
    r, backend, s, reason = _solve_with_instantiation(list(obl.hyps) + [z3.Not(obl.goal)], timeout_ms or Z3_TIMEOUT_MS)
    dt = time.time() - t0
    if obl.kind == 'vc':
        if r == z3.unsat:
            return OblResult(obl.name, 'vc', 'proved', backend, dt, meta=obl.meta)
        if r == z3.sat:
            model = None
            if s is not None:
                model = _model_to_dict(s.model())
            res = OblResult(obl.name, 'vc', 'failed', backend, dt, model=model, meta=obl.meta)
            if s is not None and obl.extract is not None:
                try:
                    mdl = s.model()
                    res.witness = obl.extract(lambda t, _m=mdl, _c=s.ctx: _m.eval(t.translate(_c), model_completion=True))
                except Exception as e:  # the witness is a convenience, never a verdict
                    res.detail = f'witness extraction failed: {e!r}'
            return res
        return OblResult(obl.name, 'vc', 'unknown', backend, dt, detail=reason, meta=obl.meta)
    if obl.kind == 'cover':
        if r == z3.sat:
            return OblResult(obl.name, 'cover', 'covered', backend, dt, meta=obl.meta)
        if r == z3.unsat:
            return OblResult(obl.name, 'cover', 'uncovered', backend, dt, meta=obl.meta)
        return OblResult(obl.name, 'cover', 'unknown', backend, dt, detail=s.reason_unknown(), meta=obl.meta)
    if obl.kind == 'canary':  # hyps => False must be refuted, i.e. hyps sat
        if r == z3.sat:
            return OblResult(obl.name, 'canary', 'covered', backend, dt, meta=obl.meta)
        if r == z3.unsat:
            return OblResult(obl.name, 'canary', 'uncovered', backend, dt, meta=obl.meta)
        return OblResult(obl.name, 'canary', 'unknown', backend, dt, detail=s.reason_unknown(), meta=obl.meta)
    raise ValueError(obl.kind)


# --------------------------------------------------------------------------- serialized obligations + global pool


def serialize(obl: Obl) -> Dict[str, Any]:
    """an obligation as picklable data (SMT-LIB2 text in z3's dialect): obligations are generated inside
    the unit processes and discharged by ONE pool over all units, so a slow unit does not serialize its
    own hard queries while other cores idle.  Every query is solved in a fresh context."""
    s = z3.Solver()
    s.add(*obl.hyps)
    ground = None
    if obl.kind == 'vc':
        parts = list(obl.goal.children()) if z3.is_and(obl.goal) and obl.goal.num_args() > 1 else None
        if parts:
            # conjunctive goals keep their structure (named parts) so that a worker can refute ONE conjunct
            # when the whole conjunction times out
            gs = [z3.Bool(f'goalpart!{i}') for i in range(len(parts))]
            for g, p_ in zip(gs, parts):
                s.add(g == p_)
            s.add(z3.Not(z3.And(*gs)))
        else:
            s.add(z3.Not(obl.goal))
    else:
        g = z3.Solver()
        g.add(*[h for h in obl.hyps if not _has_quantifier(h)])
        ground = g.to_smt2()
    return dict(name=obl.name, kind=obl.kind, smt2=s.to_smt2(), ground=ground, meta=obl.meta, witness_consts=obl.witness_consts)


class _ModelEv:
    def __init__(self, model: Any, ctx: Any):
        self.m, self.ctx = model, ctx

    def __call__(self, t: Any) -> Any:
        return self.m.eval(t.translate(self.ctx) if t.ctx != self.ctx else t, model_completion=True)


def solve_serialized(d: Dict[str, Any]) -> OblResult:
    t0 = time.time()
    ctx = z3.Context()
    try:
        asr = list(z3.parse_smt2_string(d['smt2'], ctx=ctx))
    except z3.Z3Exception as e:
        return OblResult(d['name'], d['kind'], 'unknown', 'z3', 0.0, detail=f'smt2 round trip failed: {e}', meta=d['meta'])
    if d['kind'] in ('cover', 'canary'):
        s = z3.Solver(ctx=ctx)
        s.set('timeout', COVER_TIMEOUT_MS)
        s.add(*asr)
        r = s.check()
        backend = 'z3'
        if r == z3.unknown and d['ground'] is not None:
            g = z3.Solver(ctx=ctx)
            g.set('timeout', COVER_TIMEOUT_MS)
            g.add(*z3.parse_smt2_string(d['ground'], ctx=ctx))
            r = g.check()
            backend = 'z3-ground(quantified hyps not refuted)'
        st = 'covered' if r == z3.sat else ('uncovered' if r == z3.unsat else 'unknown')
        return OblResult(d['name'], d['kind'], st, backend, time.time() - t0, detail='' if st != 'unknown' else 'cover undecided', meta=d['meta'])
    hint = solver_hint(d['name'])
    r = z3.unknown
    if hint and '+instantiation' not in hint and hint != CANDIDATE and not hint.startswith('z3(conjunct'):
        # last time the plain portfolio decided it: skip the (slow, here useless) instantiation round first
        r, backend, s, reason = _solve_portfolio(asr, Z3_TIMEOUT_MS, prefer=hint)
        if r == z3.sat and any(_has_quantifier(a) for a in asr):
            pass  # a real counter-model of the full query: definitive
    if r == z3.unknown:
        r, backend, s, reason = _solve_with_instantiation(asr, Z3_TIMEOUT_MS)
    failed_part = None
    if r == z3.unknown:
        # split a conjunctive goal: hyps /\ defs /\ not(part_i), one conjunct at a time
        defs = [a for a in asr if z3.is_eq(a) and z3.is_const(a.arg(0)) and a.arg(0).decl().name().startswith('goalpart!')]
        if defs:
            base = [a for a in asr[:-1]]
            verdicts = []
            for dfn in defs:
                # the conjunct itself, not its name: the instantiation round must see the quantifiers of a refuted conjunct
                ri, bi, si, _ = _solve_with_instantiation([a for a in base if not any(a.eq(x) for x in defs)] + [z3.Not(dfn.arg(1))], Z3_TIMEOUT_MS // 2)
                verdicts.append(ri)
                if ri == z3.sat:
                    r, backend, s, failed_part = ri, bi, si, dfn.arg(0).decl().name()
                    break
            if failed_part is None and all(v == z3.unsat for v in verdicts):
                r, backend = z3.unsat, 'z3(conjunct-wise)'
    dt = time.time() - t0
    if failed_part is not None:
        d = dict(d, meta=dict(d['meta'], failed_conjunct=failed_part))
    if r == z3.unsat:
        return OblResult(d['name'], 'vc', 'proved', backend, dt, meta=d['meta'])
    if r == z3.sat:
        res = OblResult(d['name'], 'vc', 'failed', backend, dt, model=_model_to_dict(s.model()) if s is not None else None, meta=d['meta'])
        if s is not None and d.get('witness_consts'):
            try:
                m = s.model()
                byname = {dd.name(): m[dd] for dd in m.decls() if dd.arity() == 0}

                def num(nm: str) -> int:
                    v = byname.get(nm)
                    if v is None:
                        return 0  # unconstrained by the counter-model
                    return v.as_signed_long() if z3.is_bv_value(v) else (v.as_long() if z3.is_int_value(v) else int(z3.is_true(v)))

                res.witness = {k: [num(n) for n in names] for k, names in d['witness_consts'].items()}
            except Exception as e:
                res.detail = f'witness extraction failed: {e!r}'
        return res
    return OblResult(d['name'], 'vc', 'unknown', backend, dt, detail=reason, meta=d['meta'])


def _solve_job(d: Dict[str, Any]) -> OblResult:
    try:
        return solve_serialized(d)
    except Exception:
        return OblResult(d['name'], d['kind'], 'unknown', 'z3', 0.0, detail='solver worker crashed: ' + traceback.format_exc()[-300:], meta=d.get('meta', {}))


def _pool_worker(sers: List[Dict[str, Any]], tasks: Any, results: Any) -> None:
    while True:
        idx = tasks.get()
        if idx is None:
            return
        results.put(('start', idx, os.getpid(), None))
        try:
            r = _solve_job(sers[idx])
        except Exception as e:  # a solver front-end error is an undecided obligation, never a verdict
            d = sers[idx]
            r = OblResult(d['name'], d['kind'], 'unknown', 'z3', 0.0, detail=f'solver front end raised {type(e).__name__}: {e}', meta=d['meta'])
        results.put(('done', idx, os.getpid(), r))


def discharge_pool(sers: List[Dict[str, Any]], procs: Optional[int] = None) -> List[OblResult]:
    """One pool over all obligations.  Workers are plain processes watched by this process: z3 occasionally ignores
    its own timeout (observed: minutes inside big-number multiplication on a query it decides in seconds the next
    time), so a query that has not returned after HARD_LIMIT is abandoned by killing its worker - the obligation
    becomes `unknown` (undecided), never a verdict - and a fresh worker takes its place."""
    import multiprocessing as mp
    import queue as _q
    import signal

    procs = procs or min(16, os.cpu_count() or 4)
    if os.environ.get('VERIF_SERIAL') == '1' or len(sers) < 4:
        return [_solve_job(d) for d in sers]
    hard_limit = 10.0 * (Z3_TIMEOUT_MS / 1000.0) + 5.0 * CVC5_TIMEOUT_S
    ctx = mp.get_context('fork')
    tasks, results = ctx.Queue(), ctx.Queue()
    for i in range(len(sers)):
        tasks.put(i)
    workers: Dict[int, Any] = {}

    def spawn() -> None:
        p = ctx.Process(target=_pool_worker, args=(sers, tasks, results), daemon=True)
        p.start()
        workers[p.pid] = p

    for _ in range(min(procs, len(sers))):
        spawn()
    out: List[Optional[OblResult]] = [None] * len(sers)
    running: Dict[int, Tuple[int, float]] = {}  # pid -> (task index, start time)
    retried: set = set()
    done = 0
    while done < len(sers):
        try:
            kind, idx, pid, r = results.get(timeout=5.0)
            if kind == 'start':
                running[pid] = (idx, time.time())
            else:
                running.pop(pid, None)
                if out[idx] is None:
                    out[idx] = r
                    done += 1
        except _q.Empty:
            pass
        now = time.time()
        for pid, (idx, t0) in list(running.items()):
            if now - t0 > hard_limit:
                try:
                    os.kill(pid, signal.SIGKILL)
                except OSError:
                    pass
                running.pop(pid, None)
                w = workers.pop(pid, None)
                if w is not None:
                    w.join(timeout=5)
                if out[idx] is None:
                    d = sers[idx]
                    out[idx] = OblResult(d['name'], d['kind'], 'unknown', 'z3', now - t0, detail=f'solver did not return within the hard limit of {hard_limit:.0f} s (worker killed)', meta=d['meta'])
                    done += 1
                spawn()
        # a worker that died on its own (a solver crash, out of memory) loses its task: the task is given to a fresh
        # worker once; a second death makes the obligation `unknown`
        for pid, w in list(workers.items()):
            if not w.is_alive():
                workers.pop(pid, None)
                if pid in running:
                    idx, t0 = running.pop(pid)
                    if out[idx] is None:
                        if idx not in retried:
                            retried.add(idx)
                            tasks.put(idx)
                        else:
                            d = sers[idx]
                            out[idx] = OblResult(d['name'], d['kind'], 'unknown', 'z3', now - t0, detail='solver process died twice on this query', meta=d['meta'])
                            done += 1
                spawn()
    for _ in workers:
        tasks.put(None)
    for w in workers.values():
        w.join(timeout=2)
        if w.is_alive():
            w.kill()
    return [r for r in out if r is not None]


def finish_unit(eng: Any, extra: List[Obl]) -> Dict[str, Any]:
    """what a verification unit returns: its obligations (serialized) and the constructs it dropped"""
    return dict(obligations=[serialize(o) for o in list(eng.obligations) + list(extra)], dropped=list(eng.dropped))


def run_and_discharge(rep: 'Report', jobs: List[tuple]) -> List[OblResult]:
    """run the units in parallel, then discharge all their obligations through one pool"""
    sers: List[Dict[str, Any]] = []
    for (fn, args), (status, val) in zip(jobs, run_units(jobs)):
        if status == 'ok':
            vals = val if isinstance(val, list) else [val]
            for v in vals:
                sers.extend(v['obligations'])
                for x in v['dropped']:
                    if x not in rep.dropped:
                        rep.dropped.append(x)
        elif status == 'undecided':
            rep.undecide(f'obligation={fn.__name__}{args} reason={val}')
        else:
            print(val)
            rep.undecide(f'obligation={fn.__name__}{args} reason=checker-crash')
    results = discharge_pool(sers)
    rep.add_results(results)
    return results


# --------------------------------------------------------------------------- report


@dataclass
class Violation:
    obligation: str
    what: str  # human-readable one-liner
    witness: Dict[str, Any]  # concrete failing input / model / solver output
    replayed: bool  # True when the witness was confirmed against the real code
    key: str = ''  # stable identity used for known-finding matching


import re as _re


def stable_name(n: str) -> str:
    """obligation name without path numbers / duplicate counters (they move under harmless edits)"""
    return _re.sub(r'#\d+$', '', _re.sub(r'path\d+', 'path*', n))

_PATHCOVER = _re.compile(r'[:.]path\d+\.cover$')


class Report:
    """Collects everything one check run learns, prints the verdict lines and writes evidence."""

    def __init__(self, prop: str, tier: str, seed: int, level: str, checker_cmd: str):
        self.prop, self.tier, self.seed, self.level = prop, tier, seed, level
        self.checker_cmd = checker_cmd
        self.t0 = time.time()
        self.functions: List[Dict[str, Any]] = []  # functions under contract
        self.results: List[OblResult] = []
        self.assumptions: List[str] = []
        self.trusted: List[str] = []
        self.bounded: List[Dict[str, Any]] = []  # bounded stand-ins: never counted as proved
        self.violations: List[Violation] = []
        self.undecided: List[str] = []
        self.samples: List[Any] = []
        self.notes: List[str] = []
        self.extra: Dict[str, Any] = {}
        self.dropped: List[str] = []

    # ---- collecting
    def add_function(self, module: str, qualname: str, lines: str = '', inst: str = '') -> None:
        rec = dict(module=module, function=qualname)
        if lines:
            rec['lines'] = lines
        if inst:
            rec['instantiation'] = inst
        if rec not in self.functions:
            self.functions.append(rec)

    def add_results(self, results: List[OblResult]) -> None:
        self.results.extend(results)

    def assume(self, text: str) -> None:
        if text not in self.assumptions:
            self.assumptions.append(text)

    def trust(self, text: str) -> None:
        if text not in self.trusted:
            self.trusted.append(text)

    def undecide(self, what: str) -> None:
        self.undecided.append(what)

    def violation(self, v: Violation) -> None:
        self.violations.append(v)

    def add_bounded(self, name: str, domain: str, evaluations: int, distinct: int, **kw: Any) -> None:
        self.bounded.append(dict(name=name, domain=domain, evaluations=evaluations, distinct_nontrivial=distinct, **kw))

    # ---- finishing
    def finish(self) -> int:
        known = load_known_findings().get(self.prop, [])
        lock = load_lock().get(self.prop)
        names = {r.name for r in self.results}
        # failed VCs without an explicit Violation record -> generic violation (no input found)
        explicit = {v.obligation for v in self.violations}
        for r in self.results:
            if r.kind == 'vc' and r.status == 'failed' and r.name not in explicit and r.backend == CANDIDATE and (lock is None or stable_name(r.name) not in lock) and match_known(known, Violation(r.name, '', {}, False, key=r.name)) is None:
                # refuted only modulo relaxed quantified hypotheses, and never proved on the unchanged tree
                self.undecided.append(f'obligation={r.name} reason=candidate-counter-model-only (not a locked obligation)')
            elif r.kind == 'vc' and r.status == 'failed' and r.name not in explicit:
                self.violations.append(
                    Violation(r.name, f'obligation {r.name} is refuted by {r.backend}', dict(model=r.model or {}, meta=r.meta), False, key=r.name)
                )
            if r.status == 'unknown' and r.kind == 'vc' and match_known(known, Violation(r.name, '', {}, False, key=r.name)) is not None:
                continue  # an obligation of a recorded finding is not required to hold on this tree: undecided is no news
            if r.status == 'unknown' and not (r.kind == 'cover' and _PATHCOVER.search(r.name)):
                # (an undecided cover of ONE path is as harmless as an uncovered one: see below; a unit whose paths
                # are all uncovered or undecided is still reported as vacuous)
                self.undecided.append(f'obligation={r.name} reason=solver-unknown({r.detail})')
            if r.kind in ('cover', 'canary') and r.status == 'uncovered':
                # a single dead path is harmless (the executor keeps paths it cannot refute cheaply);
                # a dead precondition / canary, or a unit whose paths are ALL dead, is vacuity
                if not _PATHCOVER.search(r.name):
                    self.undecided.append(f'obligation={r.name} reason=vacuous({r.kind} unsatisfiable)')
        units: Dict[str, List[str]] = {}
        for r in self.results:
            m = _PATHCOVER.search(r.name)
            if m and r.kind == 'cover':
                units.setdefault(r.name[: m.start()], []).append(r.status)
        for u, sts in units.items():
            if 'covered' not in sts:
                self.undecided.append(f'obligation={u} reason=vacuous(no path of this unit is reachable)')
        if lock is not None:
            names = {stable_name(n) for n in names}
            missing = [n for n in lock if n not in names]
            if missing:
                self.undecided.append(f'obligation={missing[0]} reason=not-generated ({len(missing)} locked obligations missing)')
        n_vc = sum(1 for r in self.results if r.kind == 'vc')
        if self.level == 'proof' and n_vc == 0:
            self.undecided.append('reason=zero-obligations')

        printed_known = []
        real = []
        for v in self.violations:
            kf = match_known(known, v)
            if kf is not None:
                line = f'KNOWN-FINDING: property={self.prop} {kf["id"]} {kf["what"]}'
                if line not in printed_known:
                    printed_known.append(line)
            else:
                real.append(v)
        for line in printed_known:
            print(line)
        want = os.environ.get('VERIF_REPLAY_OBLIGATION')
        if want:
            hit = [v for v in real if stable_name(v.obligation) == want]
            print(f'REPLAY: obligation {want} ' + ('is violated again on this tree' if hit else 'is not violated on this tree'))
            real = hit
            self.undecided = [] if hit else self.undecided
        rc = 0
        # the console shows the first few: concrete replayed witnesses AND refuted contract obligations, three of each
        rep_first = [v for v in real if v.replayed]
        ded_first = [v for v in real if not v.replayed]
        real = rep_first[:3] + ded_first[:3] + rep_first[3:] + ded_first[3:]
        for n_printed, v in enumerate(real):
            path = write_replay(self.prop, v)
            rc = 1
            if n_printed >= 6:
                continue  # every violation gets its replay file; the console shows the first few
            tail = '' if v.replayed else ' no-failing-input-found'
            print(f'VIOLATION property={self.prop} replay={path}{tail}')
            print(f'  obligation: {v.obligation}\n  what: {v.what}')
        if len(real) > 6:
            print(f'  ... and {len(real) - 6} more violated obligations (replay files under {REPLAY_DIR})')
        if real:
            print(f'  violated: {len(ded_first)} contract obligation(s) refuted by the solvers, {len(rep_first)} bounded observation(s) with a concrete input')
        if rc == 0 and self.undecided:
            for u in self.undecided[:20]:
                print(f'UNDECIDED property={self.prop} {u}')
            rc = 2
        self.write_evidence(len(real), printed_known)
        vc = [r for r in self.results if r.kind == 'vc']
        print(
            f'[{self.prop}] tier={self.tier} functions={len(self.functions)} obligations={len(vc)} '
            f'discharged={sum(1 for r in vc if r.status == "proved")} covers={sum(1 for r in self.results if r.kind != "vc")} '
            f'bounded_runs={sum(b["evaluations"] for b in self.bounded)} violations={len(real)} known={len(printed_known)} '
            f'undecided={len(self.undecided)} wall={time.time() - self.t0:.1f}s -> exit {rc}'
        )
        return rc

    def write_evidence(self, n_viol: int, known_lines: List[str]) -> None:
        vc = [r for r in self.results if r.kind == 'vc']
        known_obls = set()
        known = load_known_findings().get(self.prop, [])
        for v in self.violations:
            if match_known(known, v) is not None:
                known_obls.add(v.obligation)
        for r in vc:  # (also when the solver left it undecided this time: it is not required to hold on this tree)
            if r.status != 'proved' and match_known(known, Violation(r.name, '', {}, False, key=r.name)) is not None:
                known_obls.add(r.name)
        required = [r for r in vc if r.name not in known_obls]
        by_backend: Dict[str, int] = {}
        for r in required:
            if r.status == 'proved':
                by_backend[r.backend] = by_backend.get(r.backend, 0) + 1
        covers = [r for r in self.results if r.kind != 'vc']
        bounded_evals = sum(b['evaluations'] for b in self.bounded)
        bounded_distinct = sum(b['distinct_nontrivial'] for b in self.bounded)
        samples = list(self.samples[:8])
        for r in required[:6]:
            samples.append(dict(obligation=r.name, status=r.status, backend=r.backend, seconds=round(r.seconds, 4)))
        coverage: Dict[str, Any] = dict(
            obligations=len(required),
            discharged=sum(1 for r in required if r.status == 'proved'),
            discharged_by_backend=by_backend,
            solver_seconds=round(sum(r.seconds for r in self.results), 3),
            covers=len(covers),
            covers_satisfied=sum(1 for r in covers if r.status == 'covered'),
            known_finding_obligations=sorted(known_obls),
            checker_cmd=self.checker_cmd,
            trusted_base=self.trusted,
            functions_under_contract=self.functions,
            bounded=self.bounded,
            evaluations=max(1, bounded_evals + len(required)),
            distinct_nontrivial=max(0, bounded_distinct + len({r.name for r in required})),
            rule='obligations: one per (function, instantiation, path, clause), distinct by name; bounded stand-ins: see bounded[].domain '
            '(they are counted in evaluations but never in discharged)',
            samples=samples or [dict(note='no obligations generated')],
            dropped_constructs=self.dropped,
            undecided=self.undecided[:50],
            known_findings_printed=known_lines,
            explanation='; '.join(self.notes) if self.notes else f'contract-based check of {self.prop}',
            obligation_names_sha256=hashlib.sha256('\n'.join(sorted(r.name for r in vc)).encode()).hexdigest(),
        )
        coverage.update(self.extra)
        ev = dict(
            property_id=self.prop,
            tier=self.tier,
            seed=self.seed,
            level=self.level,
            coverage=coverage,
            assumptions=self.assumptions,
            wall_s=round(time.time() - self.t0, 3),
            violations=n_viol,
        )
        EVIDENCE_DIR.mkdir(exist_ok=True)
        (EVIDENCE_DIR / f'{self.prop}.json').write_text(json.dumps(ev, indent=1, default=str) + '\n')
        # full obligation log (not schema-bound), for inspection
        (EVIDENCE_DIR / f'{self.prop}.obligations.json').write_text(
            json.dumps([r.to_json() for r in self.results], indent=0, default=str) + '\n'
        )


# --------------------------------------------------------------------------- known findings / lock / replay


def load_known_findings() -> Dict[str, List[Dict[str, Any]]]:
    p = VERIF / 'known_findings.json'
    if not p.exists():
        return {}
    data = json.loads(p.read_text())
    out: Dict[str, List[Dict[str, Any]]] = {}
    for e in data.get('known', []):
        out.setdefault(e['property'], []).append(e)
    return out


def match_known(known: List[Dict[str, Any]], v: Violation) -> Optional[Dict[str, Any]]:
    """A known finding matches on the obligation name AND the witness key (shell-style patterns, so one finding can name its obligation in every instantiation; both must match)."""
    import fnmatch

    for k in known:
        if fnmatch.fnmatchcase(v.obligation, k['obligation']) and fnmatch.fnmatchcase(v.key, k.get('key', v.key)):
            return k
    return None


def load_lock() -> Dict[str, List[str]]:
    p = VERIF / 'obligations.lock.json'
    if not p.exists():
        return {}
    return json.loads(p.read_text())


def write_replay(prop: str, v: Violation) -> str:
    REPLAY_DIR.mkdir(exist_ok=True)
    h = hashlib.sha256((v.obligation + json.dumps(v.witness, sort_keys=True, default=str)).encode()).hexdigest()[:10]
    path = REPLAY_DIR / f'{prop}-{h}.json'
    path.write_text(
        json.dumps(
            dict(property=prop, obligation=v.obligation, what=v.what, replayed_on_real_code=v.replayed, key=v.key, witness=v.witness),
            indent=1,
            default=str,
        )
        + '\n'
    )
    return str(path)


# --------------------------------------------------------------------------- parallel units


def _run_unit(job):  # executed in a worker process
    fn, args = job
    try:
        return ('ok', fn(*args))
    except Undecided as u:
        return ('undecided', f'{getattr(fn, "__name__", fn)}{args!r}: {u}')
    except Exception:
        return ('crash', f'{getattr(fn, "__name__", fn)}{args!r}:\n{traceback.format_exc()}')


def run_units(jobs: List[tuple], procs: Optional[int] = None) -> List[tuple]:
    """jobs: [(callable, args)].  Each callable returns a picklable value.  Order preserved."""
    import multiprocessing as mp

    procs = procs or min(16, os.cpu_count() or 4, max(1, len(jobs)))
    if procs <= 1 or len(jobs) <= 1 or os.environ.get('VERIF_SERIAL') == '1':
        return [_run_unit(j) for j in jobs]
    ctx = mp.get_context('fork')
    with ctx.Pool(procs) as pool:
        return pool.map(_run_unit, jobs, chunksize=1)


def main_wrapper(prop: str, body: Callable[[str, int], int]) -> None:
    """Entry point shared by all property checks."""
    import argparse

    ap = argparse.ArgumentParser()
    ap.add_argument('--tier', default=os.environ.get('VERIF_TIER', 'quick'), choices=['quick', 'thorough'])
    ap.add_argument('--replay', default=None)
    ns = ap.parse_args(sys.argv[2:] if len(sys.argv) > 1 and sys.argv[1] == prop else sys.argv[1:])
    seed = int(os.environ.get('VERIF_SEED', '0') or 0)
    if ns.tier == 'thorough':
        # the thorough tier can afford patient solvers: the widest instantiations (w = 64 memory equalities) sit near
        # the quick budget when all cores are busy, and a timeout must never decide anything (workers are forked
        # later and inherit these)
        global Z3_TIMEOUT_MS, CVC5_TIMEOUT_S
        if 'VERIF_Z3_TIMEOUT_MS' not in os.environ:
            Z3_TIMEOUT_MS *= 4
        if 'VERIF_CVC5_TIMEOUT_S' not in os.environ:
            CVC5_TIMEOUT_S *= 4
    if ns.replay is not None:
        # replay = decide the obligation named in the replay file again on the current tree (the file carries the
        # witness for the reader; the check regenerates its obligations and bounded inputs from the same seed)
        try:
            rec = json.loads(Path(ns.replay).read_text())
            os.environ['VERIF_REPLAY_OBLIGATION'] = stable_name(rec.get('obligation', ''))
        except Exception as e:
            print(f'cannot read replay file {ns.replay}: {e}')
            sys.exit(3)
    try:
        rc = body(ns.tier, seed) if ns.replay is None else body('replay:' + ns.replay, seed)
    except Undecided as u:
        print(f'UNDECIDED property={prop} reason={u}')
        rc = 2
    except Exception:
        traceback.print_exc()
        print(f'CHECKER-CRASH property={prop}')
        rc = 3
    sys.exit(rc)
