"""
Contracts of the pointer / stack / call macros (C08), written from the documentation line above each `def` in
stl/ptrlib.fj, stl/hex/pointers/*.fj and stl/bit/pointers.fj and from the property statement.

Model.  A *cell* is one op `w0;w1`; a hex/byte/bit variable keeps its value in the data bits of w1 (bit #w upward,
i.e. value * dw), w0 = 0.  A pointer is a hex[:w/4] (bit namespace: bit[:w]) variable that holds a bit address.
The programs declare a buffer `buf` next to the code and a buffer `far` in a second segment far away (so pointer
values differ in their high hexes too).  Every execution chooses the pointed cell (a walk in which every ordered pair
of cells is visited consecutively - residue in the shared to_flip/to_jump registers shows for particular pairs),
refills ALL cells of all buffers and the operands, pokes the pointer, runs the one assembled instance again and
compares: operands, every bit of every buffer cell, pointer (unchanged or moved by the documented number of whole
cells), marker ops reached, and the whole-memory frame.

`effect(S)` is the documentation line as an assignment on the model S (S.get/S.put: the data byte of the k-th cell
from the pointed one; S.v: operand values; S.move: whole cells by which the pointer moves).
"""

from __future__ import annotations

import random
from typing import Callable, Dict, Iterable, List, Optional, Sequence, Tuple

from bounded.stl import Var
from bounded.stl_ptr import Case, Program, PtrHarness, Region, cycle_values, euler_pairs, far_address

K_NEAR, K_FAR = 8, 4
STACK = 12  # stack size of the single-macro stack programs


class S:
    """the model state one effect works on"""

    def __init__(self, w: int, cells: List[List[int]], i: int, v: Dict[str, int], off: int = 0):
        self.w, self.dw, self.sh = w, 2 * w, w.bit_length()
        self.cells, self.i, self.v, self.off = cells, i, v, off
        self.move = 0
        self.const = 0
        self.M = (1 << w) - 1

    def get(self, k: int = 0, bits: int = 8) -> int:
        return (self.cells[self.i + k][1] >> self.sh) & ((1 << bits) - 1)

    def put(self, k: int, value: int, bits: int = 8) -> None:
        m = ((1 << bits) - 1) << self.sh
        c = self.cells[self.i + k]
        c[1] = (c[1] & ~m) | ((value << self.sh) & m)

    def xor(self, k: int, value: int) -> None:
        self.cells[self.i + k][1] ^= value << self.sh

    def xor_word(self, k: int, half: int, value: int) -> None:
        self.cells[self.i + k][half] ^= value & self.M

    def digit(self, nm: str, k: int, bits: int = 4) -> int:
        return (self.v[nm] >> (bits * k)) & ((1 << bits) - 1)


def _buffers(ns: str) -> Callable[[int], str]:
    return lambda w: f'buf: {ns}.vec {K_NEAR}\nsegment {far_address(w)}\nfar: {ns}.vec {K_FAR}'


def _regions(w: int) -> Dict[str, Region]:
    return {'buf': Region('buf', K_NEAR), 'far': Region('far', K_FAR)}


def _ptr(ns: str, w: int) -> Var:
    return Var('hex', w // 4, 'in') if ns == 'hex' else Var('bit', w, 'in')


def _startup(ns: str) -> Callable[[int], str]:
    # bit pointers at w=16: the address space (4096 words) cannot hold hex.init; the bit pointer macros document
    # "@requires bit.pointers.ptr_init" only
    return lambda w: 'stl.startup' if (ns == 'bit' and w == 16) else 'stl.startup_and_init_all'


def _extra_init(ns: str) -> Callable[[int], str]:
    return lambda w: 'bit.pointers.ptr_init\n' if (ns == 'bit' and w == 16) else ''


def _size(v: Var) -> int:
    return 1 << ({'hex': 4, 'bit': 1, 'byte': 8}[v.kind] * v.n)


def deref(
    name: str,
    call: str,
    doc: str,
    effect: Callable[[S], None],
    operands: Optional[Dict[str, Var]] = None,
    *,
    ns: str = 'hex',
    span: int = 1,  # consecutive cells the macro touches from the pointed one
    cellbits: int = 8,  # data bits the cells hold before the execution (8: a byte, 4: a hex, 1: a bit)
    raw: bool = False,  # cells hold arbitrary words (flip / wflip macros never execute the cell)
    offsets: Callable[[int], Sequence[int]] = lambda w: (0,),  # bit offsets of the pointer inside the pointed cell
    nth: bool = False,  # the pointer holds a base cell of the same buffer, operand `idx` the signed distance
    observe: Optional[Callable[[PtrHarness, S, int], List[Tuple[int, int, int]]]] = None,  # extra documented words
    variant: str = '',
    widths: Optional[Tuple[int, ...]] = None,
    external: Tuple[str, ...] = (),
    const: Optional[str] = None,  # an assembly-time constant operand: its value is read back from the image (label kconst) into S.const
    max_ops: int = 400_000,
) -> Program:
    operands = operands or {}

    def vars_(w: int) -> Dict[str, Var]:
        d: Dict[str, Var] = {'p': _ptr(ns, w)}
        for nm, v in operands.items():
            d[nm] = Var(v.kind, v.n if v.n > 0 else (w // 4 if v.kind == 'hex' else w), v.role)
        return d

    def cases(h: PtrHarness, rng: random.Random, tier: str) -> Iterable[Case]:
        w, sh = h.w, h.dbit
        targets = [(rn, i) for rn, r in h.regions.items() for i in range(r.ncells - span + 1)]
        walk = [x for _ in range(1 if tier != 'thorough' else 3) for x in euler_pairs(len(targets), rng)]
        vs = h.vars
        cyc = {nm: cycle_values(rng, _size(v), len(walk)) for nm, v in vs.items() if nm not in ('p', 'idx') + tuple(external)}
        kconst = h.m.mem.get(h.A('kconst') // w, 0) if const is not None else 0
        cellc = cycle_values(rng, 1 << cellbits, len(walk))
        offs = list(offsets(w))
        offc = cycle_values(rng, len(offs), len(walk))
        for t, ti in enumerate(walk):
            rn, i = targets[ti]
            regs: Dict[str, List[List[int]]] = {}
            for name_, r in h.regions.items():
                if raw:
                    regs[name_] = [[rng.getrandbits(w), rng.getrandbits(w)] for _ in range(r.ncells)]
                else:
                    regs[name_] = [[0, rng.randrange(1 << cellbits) << sh] for _ in range(r.ncells)]
            if not raw:
                regs[rn][i][1] = cellc[t] << sh
            vals = {nm: c[t] for nm, c in cyc.items()}
            off = offs[offc[t]]
            base = i
            if nth:
                base = rng.randrange(h.regions[rn].ncells)
                vals['idx'] = (i - base) % (1 << w)
            vals['p'] = h.cell(rn, base) + off
            want_regs = {k: [list(c) for c in v] for k, v in regs.items()}
            st = S(w, want_regs[rn], i, dict(vals), off)
            st.const = kconst
            effect(st)
            want = {nm: x for nm, x in st.v.items() if x != vals.get(nm)}
            if st.move:
                want['p'] = (vals['p'] + st.move * 2 * w) % (1 << w)
            ww = observe(h, st, vals['p']) if observe else []
            info = dict(target=f'{rn}[{i}]', cell_before=f'{regs[rn][i][0]:#x};{regs[rn][i][1]:#x}', **{k: hex(x) for k, x in vals.items()})
            yield Case(vals, want, regs, want_regs, want_words=ww, info=info)

    if ns == 'hex' and not raw and cellbits == 8 and observe is None and not external and const is None and '\n' not in call:
        PARTS[name + (f'[{variant}]' if variant else '')] = (call, effect, operands, span, nth, doc)
    return Program(
        name,
        call,
        vars_,
        cases,
        doc,
        decl=lambda w: _extra_init(ns)(w) + (f'kconst: ({const})&((1<<w)-1);0\n' if const is not None else '') + _buffers(ns)(w),
        regions=_regions,
        startup=_startup(ns),
        widths=widths or ((64, 32) if ns == 'hex' else (64, 32, 16)),
        variant=variant,
        external=external,
        max_ops=max_ops,
        group=f'{ns} pointer macros on the pointed cell (all ordered pairs of {K_NEAR}+{K_FAR} cells of a near and a far buffer x cycled values)',
    )


PARTS: Dict[str, tuple] = {}  # the one-line hex dereferencing macros, for the random sequences (mixed_programs)

H1, H2 = Var('hex', 1), Var('hex', 2)
H1i, H2i = Var('hex', 1, 'in'), Var('hex', 2, 'in')
B1, B1i = Var('bit', 1), Var('bit', 1, 'in')


def _hexn(n: int, role: str = 'inout') -> Var:
    return Var('hex', n, role)


def hex_deref_programs() -> List[Program]:
    ps: List[Program] = []
    A = ps.append

    # ---- xor_to_pointer.fj
    def flip_bit(s: S) -> None:
        s.xor_word(0, s.off // s.w, 1 << (s.off % s.w))

    A(
        deref(
            'hex.ptr_flip',
            'hex.ptr_flip p',
            'like:  *ptr;   Flip the address the pointer points to. ptr holds an address.',
            flip_bit,
            raw=True,
            offsets=lambda w: tuple(range(2 * w)),
        )
    )
    A(
        deref(
            'hex.ptr_flip_dbit',
            'hex.ptr_flip_dbit p',
            'like:  (*ptr)+dbit;   Flip the address dbit-ahead of what the pointer points to.',
            lambda s: s.xor(0, 1),
        )
    )
    A(deref('hex.xor_hex_to_ptr', 'hex.xor_hex_to_ptr p, x', 'like:  hex.xor *ptr, hex', lambda s: s.xor(0, s.v['x']), {'x': H1i}))
    A(deref('hex.xor_byte_to_ptr', 'hex.xor_byte_to_ptr p, x', 'like:  hex.xor *ptr, hex[:2]', lambda s: s.xor(0, s.v['x']), {'x': H2i}))
    for n in (1, 3):

        def xn(s: S, n: int = n) -> None:
            for k in range(n):
                s.xor(k, s.digit('x', k))

        A(
            deref(
                'hex.xor_hex_to_ptr n',
                f'hex.xor_hex_to_ptr {n}, p, x',
                'like:  hex.xor *ptr[:n], hex[:n]',
                xn,
                {'x': _hexn(n, 'in')},
                span=n,
                variant=f'n={n}',
            )
        )
    for n in (1, 2):

        def xbn(s: S, n: int = n) -> None:
            for k in range(n):
                s.xor(k, s.digit('x', k, 8))

        A(
            deref(
                'hex.xor_byte_to_ptr n',
                f'hex.xor_byte_to_ptr {n}, p, x',
                'like:  hex.xor *ptr[:n], hex[:2n]',
                xbn,
                {'x': _hexn(2 * n, 'in')},
                span=n,
                variant=f'n={n}',
            )
        )

    def x_inc(s: S) -> None:
        s.xor(0, s.v['x'])
        s.move = 1

    A(
        deref(
            'hex.pointers.xor_hex_to_ptr_and_inc',
            'hex.pointers.xor_hex_to_ptr_and_inc p, x',
            'like:  hex.xor *ptr, hex ;  ptr += dw',
            x_inc,
            {'x': H1i},
        )
    )
    A(
        deref(
            'hex.pointers.xor_byte_to_ptr_and_inc',
            'hex.pointers.xor_byte_to_ptr_and_inc p, x',
            'like:  hex.xor *ptr, hex[:2] ;  ptr += dw',
            x_inc,
            {'x': H2i},
        )
    )
    A(
        deref(
            'hex.pointers.xor_hex_to_flip_ptr',
            'hex.pointers.set_flip_pointer p\n  hex.pointers.xor_hex_to_flip_ptr x',
            'use after:  .pointers.set_flip_pointer ptr ;  does:  .xor *ptr, hex',
            lambda s: s.xor(0, s.v['x']),
            {'x': H1i},
        )
    )
    A(
        deref(
            'hex.pointers.xor_byte_to_flip_ptr',
            'hex.pointers.set_flip_pointer p\n  hex.pointers.xor_byte_to_flip_ptr x',
            'use after:  .pointers.set_flip_pointer ptr ;  does:  .xor *ptr, hex[:2]',
            lambda s: s.xor(0, s.v['x']),
            {'x': H2i},
        )
    )
    for sft in (0, 4):
        A(
            deref(
                'hex.pointers.xor_hex_to_flip_ptr bit_shift',
                f'hex.pointers.set_flip_pointer p\n  hex.pointers.xor_hex_to_flip_ptr x, {sft}',
                'use after:  .pointers.set_flip_pointer ptr ;  does:  .xor *ptr, hex<<bit_shift   (bit_shift divisible by 4)',
                lambda s, sft=sft: s.xor(0, s.v['x'] << sft),
                {'x': H1i},
                variant=f'bit_shift={sft}',
            )
        )
    for ci, const in enumerate(('0x5A5A5A5A5A5A5A5A', '1', 'done', '(1<<w)-1', '0')):
        A(
            deref(
                'hex.ptr_wflip',
                f'hex.ptr_wflip p, {const}',
                'like:  wflip *ptr, value   (ptr w-aligned)',
                lambda s: s.xor_word(0, s.off // s.w, s.const),
                raw=True,
                offsets=lambda w: (0, w),
                variant=f'value={const}',
                const=const,
            )
        )
        if ci < 3:
            A(
                deref(
                    'hex.ptr_wflip_2nd_word',
                    f'hex.ptr_wflip_2nd_word p, {const}',
                    'like:  wflip (*ptr)+w, value   (ptr dw-aligned)',
                    lambda s: s.xor_word(0, 1, s.const),
                    raw=True,
                    variant=f'value={const}',
                    const=const,
                )
            )

    # ---- xor_from_pointer.fj
    def xh_from(s: S) -> None:
        s.v['d'] ^= s.get(0, 4)

    def xb_from(s: S) -> None:
        s.v['d'] ^= s.get(0)

    A(deref('hex.xor_hex_from_ptr', 'hex.xor_hex_from_ptr d, p', 'like:  dst ^= *ptr   (dst is a hex)', xh_from, {'d': H1}))
    A(deref('hex.xor_byte_from_ptr', 'hex.xor_byte_from_ptr d, p', 'like:  dst[:2] ^= *ptr', xb_from, {'d': H2}))

    def rb_inner(s: S) -> None:
        s.v['hex.pointers.read_byte'] = s.get(0)

    A(
        deref(
            'hex.pointers.read_byte_from_inners_ptrs',
            'hex.pointers.set_flip_and_jump_pointers p\n  hex.pointers.read_byte_from_inners_ptrs',
            'use after:  hex.pointers.set_flip_and_jump_pointers ptr ;  does:  hex.pointers.read_byte[:2] = *ptr',
            rb_inner,
            {'hex.pointers.read_byte': H2},
            external=('hex.pointers.read_byte',),
        )
    )

    # ---- basic_pointers.fj: the setters (to_flip{_var} = ptr, to_jump{_var} = ptr)
    def obs(flip: bool, jump: bool) -> Callable[[PtrHarness, S, int], List[Tuple[int, int, int]]]:
        def f(h: PtrHarness, s: S, p: int) -> List[Tuple[int, int, int]]:
            out = []
            if flip:
                out.append((h.A('hex.pointers.to_flip') // h.w, h.mask, p))
            if jump:
                out.append((h.A('hex.pointers.to_jump') // h.w + 1, h.mask, p))
            return out

        return f

    def setter(flip: bool, jump: bool) -> Callable[[S], None]:
        def f(s: S) -> None:
            p = s.v['p']
            if flip:
                s.v['hex.pointers.to_flip_var'] = p
            if jump:
                s.v['hex.pointers.to_jump_var'] = p

        return f

    PV = Var('hex', 0)  # n = 0: w/4 hexes
    anyoff = lambda w: tuple(range(0, 2 * w, 3))  # noqa: E731  "ptr holds an address": not only aligned ones
    A(
        deref(
            'hex.pointers.set_flip_pointer',
            'hex.pointers.set_flip_pointer p',
            'Sets both to_flip and to_flip_var to point to the given pointer (to_flip{_var} = ptr)',
            setter(True, False),
            {'hex.pointers.to_flip_var': PV},
            external=('hex.pointers.to_flip_var',),
            observe=obs(True, False),
            offsets=anyoff,
        )
    )
    A(
        deref(
            'hex.pointers.set_jump_pointer',
            'hex.pointers.set_jump_pointer p',
            'Sets both to_jump and to_jump_var to point to the given pointer (to_jump{_var} = ptr)',
            setter(False, True),
            {'hex.pointers.to_jump_var': PV},
            external=('hex.pointers.to_jump_var',),
            observe=obs(False, True),
            offsets=anyoff,
        )
    )
    A(
        deref(
            'hex.pointers.set_flip_and_jump_pointers',
            'hex.pointers.set_flip_and_jump_pointers p',
            'to_flip{_var} = ptr ; to_jump{_var} = ptr',
            setter(True, True),
            {'hex.pointers.to_flip_var': PV, 'hex.pointers.to_jump_var': PV},
            external=('hex.pointers.to_flip_var', 'hex.pointers.to_jump_var'),
            observe=obs(True, True),
            offsets=anyoff,
        )
    )

    # ---- read_pointers.fj
    def rd_hex(s: S) -> None:
        s.v['d'] = s.get(0, 4)

    def rd_byte(s: S) -> None:
        s.v['d'] = s.get(0)

    def inc(f: Callable[[S], None]) -> Callable[[S], None]:
        def g(s: S) -> None:
            f(s)
            s.move = 1

        return g

    A(deref('hex.read_hex', 'hex.read_hex d, p', 'like:  dst = *ptr   (dst is a hex)', rd_hex, {'d': H1}))
    A(deref('hex.read_byte', 'hex.read_byte d, p', 'like:  dst[:2] = *ptr', rd_byte, {'d': H2}))
    A(deref('hex.read_hex_and_inc', 'hex.read_hex_and_inc d, p', 'like:  dst = *ptr ;  ptr++', inc(rd_hex), {'d': H1}))
    A(deref('hex.read_byte_and_inc', 'hex.read_byte_and_inc d, p', 'like:  dst[:2] = *ptr ;  ptr++', inc(rd_byte), {'d': H2}))
    for n in (1, 3):

        def rdn(s: S, n: int = n) -> None:
            s.v['d'] = sum(s.get(k, 4) << (4 * k) for k in range(n))

        A(deref('hex.read_hex n', f'hex.read_hex {n}, d, p', 'like:  dst[:n] = *ptr[:n]', rdn, {'d': _hexn(n)}, span=n, variant=f'n={n}'))
    for n in (1, 2):

        def rdbn(s: S, n: int = n) -> None:
            s.v['d'] = sum(s.get(k) << (8 * k) for k in range(n))

        A(
            deref(
                'hex.read_byte n',
                f'hex.read_byte {n}, d, p',
                'like:  dst[:2n] = *ptr[:n]',
                rdbn,
                {'d': _hexn(2 * n)},
                span=n,
                variant=f'n={n}',
            )
        )
    IDX = Var('hex', 0, 'in')
    A(
        deref(
            'hex.read_nth_hex',
            'hex.read_nth_hex d, p, idx',
            'dst = *(ptr + index*2w) ; index is a signed hex[:w/4] (may be negative). ptr,index preserved',
            rd_hex,
            {'d': H1, 'idx': IDX},
            nth=True,
        )
    )
    A(
        deref(
            'hex.read_nth_byte',
            'hex.read_nth_byte d, p, idx',
            'dst[:2] = *(ptr + index*2w) ; index signed (may be negative). ptr,index preserved',
            rd_byte,
            {'d': H2, 'idx': IDX},
            nth=True,
        )
    )

    # ---- write_pointers.fj
    def wr_hex(s: S) -> None:
        s.put(0, s.v['x'], 4)

    def wr_byte(s: S) -> None:
        s.put(0, s.v['x'])

    A(deref('hex.write_hex', 'hex.write_hex p, x', 'like:  *ptr = src   (src is a hex)', wr_hex, {'x': H1i}))
    A(deref('hex.zero_ptr', 'hex.zero_ptr p', 'like:  *ptr = 0', lambda s: s.put(0, 0)))
    A(deref('hex.write_byte', 'hex.write_byte p, x', 'like:  *ptr = src[:2]', wr_byte, {'x': H2i}))
    A(deref('hex.write_hex_and_inc', 'hex.write_hex_and_inc p, x', 'like:  *ptr = src ;  ptr++', inc(wr_hex), {'x': H1i}))
    A(deref('hex.write_byte_and_inc', 'hex.write_byte_and_inc p, x', 'like:  *ptr = src[:2] ;  ptr++', inc(wr_byte), {'x': H2i}))
    for n in (1, 3):

        def wrn(s: S, n: int = n) -> None:
            for k in range(n):
                s.put(k, s.digit('x', k), 4)

        A(
            deref(
                'hex.write_hex n',
                f'hex.write_hex {n}, p, x',
                'like:  *ptr[:n] = src[:n]',
                wrn,
                {'x': _hexn(n, 'in')},
                span=n,
                variant=f'n={n}',
            )
        )
    for n in (1, 2):

        def wrbn(s: S, n: int = n) -> None:
            for k in range(n):
                s.put(k, s.digit('x', k, 8))

        A(
            deref(
                'hex.write_byte n',
                f'hex.write_byte {n}, p, x',
                'like:  *ptr[:n] = src[:2n]',
                wrbn,
                {'x': _hexn(2 * n, 'in')},
                span=n,
                variant=f'n={n}',
            )
        )
    A(
        deref(
            'hex.write_nth_hex',
            'hex.write_nth_hex p, idx, x',
            '*(ptr + index*2w) = src ; index signed (may be negative). ptr,index,src preserved',
            wr_hex,
            {'x': H1i, 'idx': IDX},
            nth=True,
        )
    )
    A(
        deref(
            'hex.write_nth_byte',
            'hex.write_nth_byte p, idx, x',
            '*(ptr + index*2w)[:2] = src[:2] ; index signed (may be negative). ptr,index,src preserved',
            wr_byte,
            {'x': H2i, 'idx': IDX},
            nth=True,
        )
    )
    return ps


def bit_deref_programs() -> List[Program]:
    ps: List[Program] = []
    A = ps.append

    def flip_bit(s: S) -> None:
        s.xor_word(0, s.off // s.w, 1 << (s.off % s.w))

    A(
        deref(
            'bit.ptr_flip',
            'bit.ptr_flip p',
            'like:  *ptr;   Flip the address the pointer points to. ptr is a bit[:w] that holds an address.',
            flip_bit,
            ns='bit',
            raw=True,
            offsets=lambda w: tuple(range(2 * w)),
        )
    )
    A(
        deref(
            'bit.ptr_flip_dbit',
            'bit.ptr_flip_dbit p',
            'like:  (*ptr)+dbit;   (ptr dw-aligned)',
            lambda s: s.xor(0, 1),
            ns='bit',
            cellbits=1,
        )
    )

    def xor_to(s: S) -> None:
        s.xor(0, s.v['x'])

    A(deref('bit.xor_to_ptr', 'bit.xor_to_ptr p, x', 'like:  bit.xor *ptr, bit', xor_to, {'x': B1i}, ns='bit', cellbits=1))
    for ci, const in enumerate(('0x5A5A5A5A5A5A5A5A', 'done', '1')):
        A(
            deref(
                'bit.ptr_wflip',
                f'bit.ptr_wflip p, {const}',
                'like:  wflip *ptr, value   (ptr w-aligned)',
                lambda s: s.xor_word(0, s.off // s.w, s.const),
                ns='bit',
                raw=True,
                offsets=lambda w: (0, w),
                variant=f'value={const}',
                const=const,
            )
        )
        if ci < 2:
            A(
                deref(
                    'bit.ptr_wflip_2nd_word',
                    f'bit.ptr_wflip_2nd_word p, {const}',
                    'like:  wflip (*ptr)+w, value   (ptr dw-aligned)',
                    lambda s: s.xor_word(0, 1, s.const),
                    ns='bit',
                    raw=True,
                    variant=f'value={const}',
                    const=const,
                )
            )

    def xor_from(s: S) -> None:
        s.v['d'] ^= s.get(0, 1)

    A(deref('bit.xor_from_ptr', 'bit.xor_from_ptr d, p', 'like:  bit.xor dst, *ptr', xor_from, {'d': B1}, ns='bit', cellbits=1))
    A(
        deref(
            'bit.exact_xor_from_ptr',
            'bit.exact_xor_from_ptr d+dbit, p',
            'like:  bit.exact_xor dst, *ptr   (dst is a bit-address)',
            xor_from,
            {'d': B1},
            ns='bit',
            cellbits=1,
        )
    )

    def obs(which: str) -> Callable[[PtrHarness, S, int], List[Tuple[int, int, int]]]:
        def f(h: PtrHarness, s: S, p: int) -> List[Tuple[int, int, int]]:
            return [(h.A(f'bit.pointers.{which}') // h.w + (1 if which == 'to_jump' else 0), h.mask, p)]

        return f

    PV = Var('bit', 0)
    anyoff = lambda w: tuple(range(0, 2 * w, 3))  # noqa: E731
    A(
        deref(
            'bit.pointers.set_flip_pointer',
            'bit.pointers.set_flip_pointer p',
            'Sets both to_flip and to_flip_var to point to the given pointer (to_flip{_var} = ptr)',
            lambda s: s.v.__setitem__('bit.pointers.to_flip_var', s.v['p']),
            {'bit.pointers.to_flip_var': PV},
            ns='bit',
            external=('bit.pointers.to_flip_var',),
            observe=obs('to_flip'),
            offsets=anyoff,
        )
    )
    A(
        deref(
            'bit.pointers.set_jump_pointer',
            'bit.pointers.set_jump_pointer p',
            'Sets both to_jump and to_jump_var to point to the given pointer (to_jump{_var} = ptr)',
            lambda s: s.v.__setitem__('bit.pointers.to_jump_var', s.v['p']),
            {'bit.pointers.to_jump_var': PV},
            ns='bit',
            external=('bit.pointers.to_jump_var',),
            observe=obs('to_jump'),
            offsets=anyoff,
        )
    )
    return ps


# ----------------------------------------------------------------------------- jumps


def jump_programs() -> List[Program]:
    out = []
    for ns, doc in (
        ('hex', 'like:  ;*ptr   Jump to the address the pointer points to. ptr is a hex[:w/4] that holds an address.'),
        ('bit', 'like:  ;*ptr   Jump to the address the pointer points to. ptr is a bit[:w] that holds an address.'),
    ):
        marks = [f'jt+{i}' for i in range(K_NEAR)] + [f'fjt+{i}' for i in range(K_FAR)]

        def cases(h: PtrHarness, rng: random.Random, tier: str, marks: List[str] = marks) -> Iterable[Case]:
            walk = [x for _ in range(1 if tier != 'thorough' else 3) for x in euler_pairs(len(marks), rng)]
            for ti in walk:
                yield Case({'p': h.A(marks[ti])}, trace=(marks[ti],), info=dict(target=marks[ti], p=hex(h.A(marks[ti]))))

        out.append(
            Program(
                f'{ns}.ptr_jump',
                f'{ns}.ptr_jump p',
                lambda w, ns=ns: {'p': _ptr(ns, w)},
                cases,
                doc,
                decl=lambda w, ns=ns: _extra_init(ns)(w)
                + f'jt: rep({K_NEAR}, i) stl.fj 0, done\nsegment {far_address(w)}\nfjt: rep({K_FAR}, i) stl.fj 0, done',
                markers=lambda w, marks=marks: marks,
                startup=_startup(ns),
                widths=(64, 32) if ns == 'hex' else (64, 32, 16),
                max_ops=200_000,
                group='ptr_jump lands exactly on the pointed op (a table of marker ops near and far; all ordered pairs of targets)',
            )
        )
    return out


# ----------------------------------------------------------------------------- pointer arithmetic


def _pointer_values(h: PtrHarness, rng: random.Random, count: int) -> List[int]:
    w, dw = h.w, 2 * h.w
    top = 1 << w
    vals = [
        0,
        dw,
        top - dw,
        top - 2 * dw,
        top >> 1,
        (top >> 1) - dw,
        15 * dw,
        16 * dw,
        255 * dw,
        256 * dw,
        far_address(w),
        far_address(w) + 3 * dw,
    ]
    vals += [h.A('done'), h.A('again')]
    vals += [((1 << k) - 1) * dw % top for k in range(1, w, 5)]  # carries running through k bits
    while len(vals) < count:
        x = rng.getrandbits(w)
        vals.append(x if rng.random() < 0.2 else x & ~(dw - 1))  # mostly op-aligned; the formula is stated for the whole variable
    rng.shuffle(vals)
    return vals


def arith_programs() -> List[Program]:
    out: List[Program] = []
    grp = 'pointer arithmetic moves by whole cells (corner addresses: 0, top of the address space, carry chains; random aligned and unaligned)'

    def mk(name: str, call: str, doc: str, delta_cells: int, ns: str = 'hex', variant: str = '', candidate: str = '') -> None:
        def cases(h: PtrHarness, rng: random.Random, tier: str) -> Iterable[Case]:
            prev = False
            for p in _pointer_values(h, rng, 150 if tier != 'thorough' else 800):
                wraps = not (0 <= p + delta_cells * 2 * h.w < (1 << h.w))
                # stepping over the end of the address space: bit.inc leaves its private carry cell set (it is re-initialised
                # on entry by `.one carry`); changes confined to the code of the macro instance are tolerated for these operands
                # (and for the execution that follows, which clears the cell again) only
                yield Case(
                    {'p': p},
                    {'p': (p + delta_cells * 2 * h.w) % (1 << h.w)},
                    info=dict(p=hex(p)),
                    soft_frame=(ns == 'bit' and (wraps or prev)),
                )
                prev = wraps

        out.append(
            Program(
                name,
                call,
                lambda w: {'p': Var('hex', w // 4) if ns == 'hex' else Var('bit', w)},
                cases,
                doc,
                decl=_extra_init(ns),
                startup=_startup(ns),
                widths=(64, 32) if ns == 'hex' else (64, 32, 16),
                variant=variant,
                max_ops=100_000,
                group=grp,
                candidate=candidate,
            )
        )

    mk('hex.ptr_inc', 'hex.ptr_inc p', 'ptr[:w/4] += 2w', 1)
    mk('hex.ptr_dec', 'hex.ptr_dec p', 'ptr[:w/4] -= 2w', -1)
    for c in (0, 1, 2, 7, 0x35, 0x1234):
        mk('hex.ptr_add', f'hex.ptr_add p, {c}', 'ptr[:w/4] += value * 2w    (advance ptr by value)', c, variant=f'value={c}')
        mk(
            'hex.ptr_sub',
            f'hex.ptr_sub p, {c}',
            'ptr[:w/4] -= value * 2w    (retreat ptr by value)',
            -c,
            variant=f'value={c}',
        )  # (value=0 did not assemble on the pinned tree - hex.sub_constant with constant 0; fixed in /repo eda7b6d)
    mk('bit.ptr_inc', 'bit.ptr_inc p', '(ptr += 2w: "inc" of the property statement; the macro documents only its complexity)', 1, ns='bit')
    mk('bit.ptr_dec', 'bit.ptr_dec p', 'ptr[:n] -= 2w', -1, ns='bit')

    def idx_cases(h: PtrHarness, rng: random.Random, tier: str) -> Iterable[Case]:
        w = h.w
        top = 1 << w
        n = 200 if tier != 'thorough' else 1500
        ps = _pointer_values(h, rng, n)
        idxs = list(range(-24, 25)) + [(1 << (w - 9)) - 1, -(1 << (w - 9)), 1 << (w - 10), -(1 << (w - 10))]
        while len(idxs) < n:
            r = rng.random()
            if r < 0.4:
                idxs.append(rng.randrange(-(1 << (w - 9)), 1 << (w - 9)))  # index*2w fits a signed w-bit address distance
            elif r < 0.7:
                idxs.append(rng.randrange(-4096, 4096))
            else:
                idxs.append(rng.getrandbits(w))  # the formula mod 2^w
        rng.shuffle(idxs)
        for p, ix in zip(ps, idxs):
            yield Case(
                {'p': p, 'idx': ix % top, 'd': rng.getrandbits(w)},
                {'d': (p + ix * 2 * w) % top},
                info=dict(p=hex(p), idx=ix if abs(ix) < top // 2 else hex(ix)),
            )

    out.append(
        Program(
            'hex.ptr_index',
            'hex.ptr_index d, p, idx',
            lambda w: {'d': Var('hex', w // 4, 'out'), 'p': Var('hex', w // 4, 'in'), 'idx': Var('hex', w // 4, 'in')},
            idx_cases,
            'dst[:w/4] = ptr + index*2w  (the address of the index-th dw-aligned op past *ptr); index is a signed hex[:w/4]. Works for negative index too.',
            max_ops=100_000,
            group=grp,
        )
    )
    return out


# ----------------------------------------------------------------------------- stack macros, one application


class T:
    """model of the stack for one execution: d = depth (sp = stack + d*dw), cells[k] = stack[k+1] as [w0, w1]"""

    def __init__(self, h: PtrHarness, d: int, cells: List[List[int]], v: Dict[str, int]):
        self.h, self.w, self.sh, self.d, self.cells, self.v = h, h.w, h.dbit, d, cells, v
        self.trace: Tuple[str, ...] = ()
        self.regs: Dict[str, List[List[int]]] = {}

    def top(self, bits: int = 8) -> int:
        return (self.cells[self.d - 1][1] >> self.sh) & ((1 << bits) - 1)

    def put(self, value: int, bits: int) -> None:
        m = ((1 << bits) - 1) << self.sh
        c = self.cells[self.d - 1]
        c[1] = (c[1] & ~m) | ((value << self.sh) & m)


def _stack_decl(w: int) -> str:
    return (
        f'jt: rep({K_NEAR}, i) stl.fj 0, done\nfm: stl.return\nfg: stl.fret rr\nrr: 0;0\nkret: 0;0\n'
        f'segment {far_address(w)}\nfjt: rep({K_FAR}, i) stl.fj 0, done'
    )


_STACK_MARKS = [f'jt+{i}' for i in range(K_NEAR)] + [f'fjt+{i}' for i in range(K_FAR)] + ['fm', 'fg']


def stack_programs() -> List[Program]:
    out: List[Program] = []
    grp = f'stack macros, one application at every depth of a {STACK}-cell stack whose cells hold stale bytes'

    def mk(
        name: str,
        call: str,
        doc: str,
        effect: Callable[[T], None],
        operands: Optional[Dict[str, Var]] = None,
        *,
        lo: int = 0,
        hi: int = STACK - 1,
        prepare: Optional[Callable[[T, random.Random], None]] = None,
        variant: str = '',
        regions_extra: Optional[Dict[str, Region]] = None,
    ) -> None:
        operands = operands or {}

        def vars_(w: int) -> Dict[str, Var]:
            d = {'hex.pointers.sp': Var('hex', w // 4)}
            for nm, v in operands.items():
                d[nm] = Var(v.kind, v.n if v.n > 0 else w // 4, v.role)
            return d

        def regions(w: int) -> Dict[str, Region]:
            r = {'stk': Region('hex.pointers.stack', STACK, first=1)}
            r.update(regions_extra or {})
            return r

        def cases(h: PtrHarness, rng: random.Random, tier: str) -> Iterable[Case]:
            w, sh = h.w, h.dbit
            depths = list(range(lo, hi + 1))
            walk = [depths[i] for _ in range(1 if tier != 'thorough' else 3) for i in euler_pairs(len(depths), rng)]
            cyc = {nm: cycle_values(rng, _size(v), len(walk)) for nm, v in h.vars.items() if nm != 'hex.pointers.sp'}
            base = h.A('hex.pointers.stack')
            for t, d in enumerate(walk):
                cells = [[0, rng.randrange(256) << sh] for _ in range(STACK)]
                vals = {nm: c[t] for nm, c in cyc.items()}
                vals['hex.pointers.sp'] = base + d * 2 * w
                regs = {'stk': cells}
                for rn in regions_extra or {}:
                    regs[rn] = [[0, 0]]
                st0 = T(h, d, cells, vals)
                st0.regs = regs
                if prepare:
                    prepare(st0, rng)
                want_regs = {k: [list(c) for c in v] for k, v in regs.items()}
                st = T(h, d, want_regs['stk'], dict(vals))
                st.regs = want_regs
                st.trace = st0.trace
                effect(st)
                want = {nm: x for nm, x in st.v.items() if x != vals.get(nm)}
                want['hex.pointers.sp'] = base + st.d * 2 * w
                info = dict(depth=d, stack_before=[f'{c[1]:#x}' for c in cells[: max(d, st.d) + 1]], **{k: hex(x) for k, x in vals.items()})
                yield Case(vals, want, regs, want_regs, trace=st.trace, info=info)

        out.append(
            Program(
                name,
                call,
                vars_,
                cases,
                doc,
                decl=_stack_decl,
                regions=regions,
                markers=lambda w: _STACK_MARKS,
                startup=f'stl.startup_and_init_all {STACK}',
                external=('hex.pointers.sp',),
                variant=variant,
                max_ops=400_000,
                group=grp,
            )
        )

    def move(k: int) -> Callable[[T], None]:
        def f(t: T) -> None:
            t.d += k

        return f

    mk('hex.sp_inc', 'hex.sp_inc', 'Like:  sp++', move(1))
    mk('hex.sp_dec', 'hex.sp_dec', 'Like:  sp--', move(-1), lo=1, hi=STACK)
    for c in (1, 3):
        mk('hex.sp_add', f'hex.sp_add {c}', 'Like:  sp += value', move(c), hi=STACK - c, variant=f'value={c}')
        mk('hex.sp_sub', f'hex.sp_sub {c}', 'Like:  sp -= value', move(-c), lo=c, hi=STACK, variant=f'value={c}')

    def push_hex(t: T) -> None:
        t.d += 1
        t.put(t.v['x'], 4)

    def push_byte(t: T) -> None:
        t.d += 1
        t.put(t.v['x'], 8)

    mk('hex.push_hex', 'hex.push_hex x', 'Like:  stack[++sp] = hex', push_hex, {'x': H1i})
    mk('hex.push_byte', 'hex.push_byte x', 'Like:  stack[++sp] = byte[:2]', push_byte, {'x': H2i})
    for n in (1, 2, 3, 5):

        def push_n(t: T, n: int = n) -> None:
            for i in range(n // 2):
                t.d += 1
                t.put((t.v['x'] >> (8 * i)) & 0xFF, 8)
            if n % 2:
                t.d += 1
                t.put((t.v['x'] >> (4 * (n - 1))) & 0xF, 4)

        mk(
            'hex.push',
            f'hex.push {n}, x',
            'Like:  stack[sp+1:][:M] = hex[:n];  sp += M.   M is (n+1)/2 (pushes the parameter as bytes)',
            push_n,
            {'x': _hexn(n, 'in')},
            hi=STACK - (n + 1) // 2,
            variant=f'n={n}',
        )

    def pop_hex(t: T) -> None:
        t.v['y'] = t.top(4)
        t.d -= 1

    def pop_byte(t: T) -> None:
        t.v['y'] = t.top(8)
        t.d -= 1

    mk(
        'hex.pop_hex',
        'hex.pop_hex y',
        'Like:  hex = stack[sp--]   (only the least-significant-hex of the cell)',
        pop_hex,
        {'y': Var('hex', 1, 'out')},
        lo=1,
        hi=STACK,
    )
    mk('hex.pop_byte', 'hex.pop_byte y', 'Like:  byte[:2] = stack[sp--]', pop_byte, {'y': Var('hex', 2, 'out')}, lo=1, hi=STACK)
    for n in (1, 2, 3, 5):

        def pop_n(t: T, n: int = n) -> None:
            y = 0
            if n % 2:
                y |= t.top(4) << (4 * (n - 1))
                t.d -= 1
            for i in range(n // 2):
                y |= t.top(8) << (4 * (n - n % 2 - 2 * (i + 1)))
                t.d -= 1
            t.v['y'] = y

        mk(
            'hex.pop',
            f'hex.pop {n}, y',
            'Like:  sp -= M ;  hex[:n] = stack[sp+1:][:M].   M is (n+1)/2 (pops the parameters as bytes)',
            pop_n,
            {'y': _hexn(n, 'out')},
            lo=(n + 1) // 2,
            hi=STACK,
            variant=f'n={n}',
        )

    for lab, py in (('done', 'done'), ('jt+2*dw', 'jt+2'), ('fjt+dw', 'fjt+1')):

        def push_ret(t: T, py: str = py) -> None:
            t.d += 1
            t.cells[t.d - 1][1] = t.h.A(py)

        def prep_pop_ret(t: T, rng: random.Random, py: str = py) -> None:
            t.cells[t.d - 1][1] = t.h.A(py)

        def pop_ret(t: T) -> None:
            t.cells[t.d - 1][1] = 0
            t.d -= 1

        mk(
            'hex.push_ret_address',
            f'hex.push_ret_address {lab}',
            'Like:  stack[++sp] = return_address',
            push_ret,
            variant=f'return_address={lab}',
        )
        mk(
            'hex.pop_ret_address',
            f'hex.pop_ret_address {lab}',
            'Like:  stack[sp--] = 0   (assumes the cell has the value of the return_address)',
            pop_ret,
            lo=1,
            hi=STACK,
            prepare=prep_pop_ret,
            variant=f'return_address={lab}',
        )

    def get_sp(t: T) -> None:
        t.v['g'] = t.v['hex.pointers.sp']

    mk('stl.get_sp', 'stl.get_sp g', 'dst[:w/4] = sp', get_sp, {'g': Var('hex', 0, 'out')}, hi=STACK)

    def prep_return(t: T, rng: random.Random) -> None:
        mk_ = rng.choice(_STACK_MARKS[:-2])
        t.cells[t.d - 1][1] = t.h.A(mk_)
        t.trace = (mk_,)

    mk(
        'stl.return',
        'stl.return',
        'Returns to the calling function (gets the return-address from the top of the stack)',
        lambda t: None,
        lo=1,
        hi=STACK,
        prepare=prep_return,
    )

    def call(npop: int) -> Callable[[T], None]:
        def f(t: T) -> None:
            t.cells[t.d][1] = 0  # "when returned, it removes the return-address from the stack" (pop_ret_address: stack[sp--] = 0)
            t.trace = ('fm',)
            t.d -= npop

        return f

    mk(
        'stl.call',
        'stl.call fm',
        'Saves the return address to the stack and jumps to the given "address". When returned, it removes the return-address from the stack.',
        call(0),
    )
    for n in (1, 3):
        mk(
            'stl.call params',
            f'stl.call fm, {n}',
            '... When returned, it removes the return-address from the stack, and pops "params_stack_length" cells from the stack.',
            call(n),
            lo=n,
            variant=f'params_stack_length={n}',
        )

    def fcall(t: T) -> None:
        t.trace = ('fg',)

    mk(
        'stl.fcall',
        'stl.fcall fg, rr',
        'Jumps to label, and saves the return address in the given "ret_reg" variable.  [fg: stl.fret rr]',
        fcall,
        hi=2,
    )

    def prep_fret(t: T, rng: random.Random) -> None:
        mk_ = rng.choice(_STACK_MARKS[:-2])
        t.regs['kret'][0][1] = t.h.A(mk_)
        t.trace = (mk_,)

    mk(
        'stl.fret',
        'stl.fret kret',
        'Return into the address written in the "ret_reg" variable.',
        lambda t: None,
        hi=2,
        prepare=prep_fret,
        regions_extra={'kret': Region('kret', 1)},
    )
    return out


# ----------------------------------------------------------------------------- random balanced stack sequences and call nestings


class _Gen:
    """generates one program: a main body and callables c0..cN (stl.call/stl.return or stl.fcall/stl.fret functions),
    a callable only calls callables of a higher index (no recursion: fcall registers are not re-entrant).
    Statements are tuples interpreted twice: as FlipJump text and by `_interpret` (the LIFO model)."""

    def __init__(self, rng: random.Random, n_callables: int, budget: int, p_call: float):
        self.rng, self.budget, self.p_call = rng, budget, p_call
        self.vars: Dict[str, Var] = {}
        self.kinds = [rng.choice(('call', 'fcall')) for _ in range(n_callables)]
        self.n = 0
        self.bodies: List[List[tuple]] = [[] for _ in range(n_callables)]
        self.depth_used = 0

    def var(self, prefix: str, n: int, role: str) -> str:
        self.n += 1
        nm = f'{prefix}{self.n}'
        self.vars[nm] = Var('hex', n, role)
        return nm

    def seq(self, level: int, owner: int, budget: int) -> List[tuple]:
        """owner: index of the callable this body belongs to (-1: main)"""
        rng = self.rng
        items: List[tuple] = []
        while budget > 0 and self.budget > 0:
            self.budget -= 1
            budget -= 1
            r = rng.random()
            callable_choices = [k for k in range(owner + 1, len(self.kinds))]
            inner = lambda: self.seq(level + 1, owner, rng.randrange(0, 3)) if level < 4 else []  # noqa: E731
            if r < self.p_call and callable_choices:
                k = rng.choice(callable_choices)
                if self.kinds[k] == 'fcall':
                    items.append(('fcall', k))
                elif rng.random() < 0.3:
                    # parameters on the stack, removed by the call itself
                    pushes: List[tuple] = []
                    cells = 0
                    for _ in range(rng.randrange(1, 3)):
                        kind = rng.choice(('hex', 'byte', 'vec'))
                        if kind == 'hex':
                            pushes.append(('push_hex', self.var('x', 1, 'in')))
                            cells += 1
                        elif kind == 'byte':
                            pushes.append(('push_byte', self.var('x', 2, 'in')))
                            cells += 1
                        else:
                            n = rng.randrange(1, 6)
                            pushes.append(('push', n, self.var('x', n, 'in')))
                            cells += (n + 1) // 2
                    items += pushes + [('call', k, cells)]
                else:
                    items.append(('call', k, 0))
                continue
            r = rng.random()
            if r < 0.16:
                items += [('push_hex', self.var('x', 1, 'in'))] + inner() + [('pop_hex', self.var('y', 1, 'out'))]
            elif r < 0.32:
                items += [('push_byte', self.var('x', 2, 'in'))] + inner() + [('pop_byte', self.var('y', 2, 'out'))]
            elif r < 0.40:
                items += [('push_byte', self.var('x', 2, 'in'))] + inner() + [('pop_hex', self.var('y', 1, 'out'))]
            elif r < 0.58:
                n = rng.randrange(1, 7)
                items += [('push', n, self.var('x', n, 'in'))] + inner() + [('pop', n, self.var('y', n, 'out'))]
            elif r < 0.66:
                n = rng.randrange(1, 7)
                m = (n + 1) // 2
                items += (
                    [('push', n, self.var('x', n, 'in'))] + inner() + ([('sp_sub', m)] if rng.random() < 0.6 or m > 1 else [('sp_dec',)])
                )
            elif r < 0.72:
                items += [('push_hex', self.var('x', 1, 'in'))] + inner() + [('sp_dec',)]
            elif r < 0.78:
                items += [('sp_inc',)] + inner() + [('sp_dec',)]
            elif r < 0.84:
                c = rng.randrange(1, 4)
                items += [('sp_add', c)] + inner() + [('sp_sub', c)]
            elif r < 0.90:
                lab = rng.choice(('done', 'again', 'farlabel'))
                items += [('push_ret', lab)] + inner() + [('pop_ret', lab)]
            elif r < 0.96:
                items.append(('get_sp', self.var('g', 0, 'out')))
            else:
                items.append(('out', rng.randrange(48, 58)))
        return items


def _text(items: List[tuple], ind: str = '  ') -> List[str]:
    L = []
    for it in items:
        op = it[0]
        if op in ('push_hex', 'push_byte', 'pop_hex', 'pop_byte'):
            L.append(f'hex.{op} {it[1]}')
        elif op in ('push', 'pop'):
            L.append(f'hex.{op} {it[1]}, {it[2]}')
        elif op in ('sp_inc', 'sp_dec'):
            L.append(f'hex.{op}')
        elif op in ('sp_add', 'sp_sub'):
            L.append(f'hex.{op} {it[1]}')
        elif op == 'push_ret':
            L.append(f'hex.push_ret_address {it[1]}')
        elif op == 'pop_ret':
            L.append(f'hex.pop_ret_address {it[1]}')
        elif op == 'get_sp':
            L.append(f'stl.get_sp {it[1]}')
        elif op == 'out':
            L.append(f'stl.output_char {it[1]}')
        elif op == 'call':
            L.append(f'stl.call c{it[1]}' + (f', {it[2]}' if it[2] else ''))
        elif op == 'fcall':
            L.append(f'stl.fcall c{it[1]}, r{it[1]}')
        else:
            raise ValueError(op)
    return [ind + x for x in L]


class _Lifo:
    def __init__(self, gen: _Gen, vals: Dict[str, int], sp0: int, dw: int):
        self.g, self.v, self.sp0, self.dw = gen, vals, sp0, dw
        self.stack: List[Tuple[str, int]] = []
        self.want: Dict[str, int] = {}
        self.out = bytearray()
        self.max_depth = 0

    def push(self, kind: str, x: int = 0) -> None:
        self.stack.append((kind, x))
        self.max_depth = max(self.max_depth, len(self.stack))

    def data(self) -> int:
        kind, x = self.stack.pop()
        assert kind in ('h', 'b'), kind
        return x

    def run(self, items: List[tuple]) -> None:
        for it in items:
            op = it[0]
            if op == 'push_hex':
                self.push('h', self.v[it[1]] & 0xF)
            elif op == 'push_byte':
                self.push('b', self.v[it[1]] & 0xFF)
            elif op == 'push':
                n, x = it[1], self.v[it[2]]
                for i in range(n // 2):
                    self.push('b', (x >> (8 * i)) & 0xFF)
                if n % 2:
                    self.push('h', (x >> (4 * (n - 1))) & 0xF)
            elif op == 'pop_hex':
                self.want[it[1]] = self.data() & 0xF  # "only the least-significant-hex of it"
            elif op == 'pop_byte':
                kind, x = self.stack.pop()
                assert kind == 'b'
                self.want[it[1]] = x
            elif op == 'pop':
                n, y = it[1], 0
                if n % 2:
                    y |= (self.data() & 0xF) << (4 * (n - 1))
                for i in range(n // 2):
                    y |= self.data() << (4 * (n - n % 2 - 2 * (i + 1)))
                self.want[it[2]] = y
            elif op == 'sp_inc':
                self.push('junk')
            elif op == 'sp_add':
                for _ in range(it[1]):
                    self.push('junk')
            elif op == 'sp_dec':
                assert self.stack.pop()[0] != 'ret'
            elif op == 'sp_sub':
                for _ in range(it[1]):
                    assert self.stack.pop()[0] != 'ret'
            elif op == 'push_ret':
                self.push('ret')
            elif op == 'pop_ret':
                assert self.stack.pop()[0] == 'ret'
            elif op == 'get_sp':
                self.want[it[1]] = self.sp0 + len(self.stack) * self.dw
            elif op == 'out':
                self.out.append(it[1])
            elif op == 'call':
                k = it[1]
                self.push('ret')
                self.out.append(97 + k)
                self.run(self.g.bodies[k])
                self.out.append(65 + k)
                assert self.stack.pop()[0] == 'ret'  # stl.return resumes right after the matching call, which removes the address
                for _ in range(it[2]):
                    assert self.stack.pop()[0] != 'ret'
            elif op == 'fcall':
                k = it[1]
                self.out.append(97 + k)
                self.run(self.g.bodies[k])
                self.out.append(65 + k)
            else:
                raise ValueError(op)


SEQ_STACK = 80


def sequence_programs(tier: str, seed: int) -> List[Program]:
    """random programs; the family (number, size) depends on the tier, the content on the seed"""
    out: List[Program] = []
    n_seq, n_call = (8, 12) if tier != 'thorough' else (20, 30)
    for idx in range(n_seq + n_call):
        with_calls = idx >= n_seq
        rng = random.Random(f'C08-seq-{seed}-{idx}')
        ncall = rng.randrange(2, 6) if with_calls else 0
        lo, hi = (7, 13) if tier != 'thorough' else (8, 18)
        g = _Gen(rng, ncall, budget=rng.randrange(lo, hi), p_call=0.4 if with_calls else 0.0)
        # bodies from the last callable backwards so that the budget is shared and every callable exists
        main = g.seq(0, -1, 6 if with_calls else 12)
        if with_calls and not any(it[0] in ('call', 'fcall') for it in main):
            main.append(('call', 0, 0) if g.kinds[0] == 'call' else ('fcall', 0))
        g.budget = max(g.budget, 2 * ncall)
        for k in range(ncall):
            g.bodies[k] = g.seq(2, k, rng.randrange(1, 4))
        lines = _text(main)
        decl = []
        for k in range(ncall):
            decl.append(f'c{k}:')
            decl.append(f'  stl.output_char {97 + k}')
            decl += _text(g.bodies[k])
            decl.append(f'  stl.output_char {65 + k}')
            decl.append('  stl.return' if g.kinds[k] == 'call' else f'  stl.fret r{k}')
        for k in range(ncall):
            if g.kinds[k] == 'fcall':
                decl.append(f'r{k}: 0;0')
        vars_ = dict(g.vars)

        def mkvars(w: int, vars_: Dict[str, Var] = vars_) -> Dict[str, Var]:
            d = {nm: Var(v.kind, v.n if v.n > 0 else w // 4, v.role) for nm, v in vars_.items()}
            d['hex.pointers.sp'] = Var('hex', w // 4, 'in')
            return d

        def cases(h: PtrHarness, rng2: random.Random, tier: str, g: _Gen = g, main: List[tuple] = main) -> Iterable[Case]:
            w = h.w
            sp0 = h.A('hex.pointers.stack')
            for t in range(6 if tier != 'thorough' else 10):
                vals = {}
                for nm, v in h.vars.items():
                    if nm == 'hex.pointers.sp':
                        continue
                    size = _size(v)
                    vals[nm] = rng2.randrange(size) if t % 4 else (size - 1 if t % 8 == 0 else rng2.randrange(size) | 1)
                m = _Lifo(g, vals, sp0, 2 * w)
                m.run(main)
                assert not m.stack and m.max_depth < SEQ_STACK - 2
                want = {nm: x for nm, x in m.want.items()}
                want['hex.pointers.sp'] = (
                    sp0  # "the stack pointer restored" (never poked: the first execution starts from stack_init's value)
                )
                yield Case(
                    vals,
                    want,
                    output=bytes(m.out),
                    info=dict(execution=t, **{k: hex(x) for k, x in vals.items() if h.vars[k].role == 'in'}),
                )

        out.append(
            Program(
                'call/return + fcall/fret nesting' if with_calls else 'balanced push/pop sequence',
                '\n'.join(x[2:] if i == 0 else x for i, x in enumerate(lines)) or 'stl.skip',
                mkvars,
                cases,
                'LIFO: pops return the pushed values in reverse order, sp restored; stl.return / stl.fret resume right after the matching call',
                decl='\n'.join(decl) + '\n' + 'segment {far}\nfarlabel: ;done',
                startup=f'stl.startup_and_init_all {SEQ_STACK}',
                external=('hex.pointers.sp',),
                scratch_stack=SEQ_STACK,
                variant=f'program {idx}',
                max_ops=3_000_000,
                group=(
                    'random nestings of stl.call/stl.return and stl.fcall/stl.fret with push/pop activity (marker byte on entry and exit of every function)'
                    if with_calls
                    else 'random balanced sequences of push/pop of hexes, bytes, vectors, return addresses and sp arithmetic'
                ),
            )
        )
        p = out[-1]
        text = p.decl
        p.decl = lambda w, text=text: text.replace('{far}', str(far_address(w)))
    return out


def mixed_programs(tier: str, seed: int) -> List[Program]:
    """random sequences of 3-5 dereferencing macros in ONE program, on two shared pointer variables (pa, pb) and
    the shared buffers: the registers to_flip / to_jump / read_byte are left by one macro in the state the next one
    starts from, the `_and_inc` macros move the pointer the next macro dereferences, targets may coincide"""
    import re

    if not PARTS:
        hex_deref_programs()
    keys = sorted(PARTS)
    out: List[Program] = []
    for idx in range(16 if tier != 'thorough' else 40):
        rng = random.Random(f'C08-mixed-{seed}-{idx}')
        parts = [rng.choice(keys) for _ in range(rng.randrange(3, 6))]
        ptrs = [rng.choice(('pa', 'pb')) for _ in parts]
        lines = []
        opvars: Dict[str, Var] = {}
        for j, (key, pn) in enumerate(zip(parts, ptrs)):
            call, effect, operands, span, nth, doc = PARTS[key]
            txt = re.sub(r'\bp\b', pn, call)
            for nm, v in operands.items():
                txt = re.sub(rf'\b{nm}\b', f'{nm}{j}', txt)
                opvars[f'{nm}{j}'] = v
            lines.append(txt)

        def mkvars(w: int, opvars: Dict[str, Var] = opvars) -> Dict[str, Var]:
            d = {'pa': Var('hex', w // 4), 'pb': Var('hex', w // 4)}
            for nm, v in opvars.items():
                d[nm] = Var(v.kind, v.n if v.n > 0 else w // 4, v.role)
            return d

        def cases(h: PtrHarness, rng2: random.Random, tier: str, parts: List[str] = parts, ptrs: List[str] = ptrs) -> Iterable[Case]:
            w, sh = h.w, h.dbit
            rnames = list(h.regions)
            done_ = 0
            tries = 0
            total = 40 if tier != 'thorough' else 80
            while done_ < total and tries < total * 50:
                tries += 1
                pos = {pn: [rng2.choice(rnames), 0] for pn in ('pa', 'pb')}
                for pn in pos:
                    pos[pn][1] = rng2.randrange(h.regions[pos[pn][0]].ncells)
                regs = {rn: [[0, rng2.randrange(256) << sh] for _ in range(r.ncells)] for rn, r in h.regions.items()}
                vals: Dict[str, int] = {pn: h.cell(rn, i) for pn, (rn, i) in pos.items()}
                for nm, v in h.vars.items():
                    if nm not in vals:
                        vals[nm] = rng2.randrange(_size(v))
                want_regs = {k: [list(c) for c in v] for k, v in regs.items()}
                V = dict(vals)
                steps = []
                ok = True
                for j, (key, pn) in enumerate(zip(parts, ptrs)):
                    call, effect, operands, span, nth, doc = PARTS[key]
                    rn, base = pos[pn]
                    n = h.regions[rn].ncells
                    i = base
                    if nth:
                        i = rng2.randrange(n)
                        vals[f'idx{j}'] = V[f'idx{j}'] = (i - base) % (1 << w)
                    if not (0 <= base < n and i + span <= n):
                        ok = False
                        break
                    sub = {nm: V[f'{nm}{j}'] for nm in operands}
                    st = S(w, want_regs[rn], i, sub)
                    effect(st)
                    for nm in operands:
                        V[f'{nm}{j}'] = st.v[nm]
                    pos[pn][1] += st.move
                    steps.append(f'{pn}->{rn}[{i}]')
                if not ok or any(not (0 <= i <= h.regions[rn].ncells) for rn, i in pos.values()):
                    continue
                for pn, (rn, i) in pos.items():
                    V[pn] = h.cell(rn, 0) + i * 2 * w
                done_ += 1
                want = {nm: x for nm, x in V.items() if x != vals[nm]}
                yield Case(vals, want, regs, want_regs, info=dict(targets=steps, **{k: hex(x) for k, x in vals.items()}))

        out.append(
            Program(
                'sequence of pointer macros',
                '\n  '.join(lines),
                mkvars,
                cases,
                'the composition of the documented effects of: ' + ' ; '.join(parts),
                decl=_buffers('hex'),
                regions=_regions,
                variant=f'program {idx}',
                max_ops=600_000,
                group='random sequences of 3-5 hex pointer macros on two shared pointers and shared buffers (one assembled program each)',
            )
        )
    return out


NOT_COVERED: Dict[str, str] = {
    'stl.ptr_init / hex.pointers.ptr_init / bit.pointers.ptr_init': (
        'declarations of the global registers and of the read-byte table (no effect of their own); every program runs on them, '
        'the setters\' contracts state to_flip{_var} / to_jump{_var}, read_byte_from_inners_ptrs states read_byte'
    ),
    'stl.stack_init / hex.pointers.stack_init': (
        'declaration; its documented outputs are checked through the stack programs: sp starts at `stack` '
        '(the random programs never poke sp), capacity n (the single applications push into the n-th cell of a 12-cell stack)'
    ),
    'hex.pointers.advance_by_one_and_flip__ptr_wflip / bit.pointers.advance_by_one_and_flip__ptr_wflip': (
        'helper of ptr_wflip, only meaningful inside its rep(w) loop; covered through ptr_wflip / ptr_wflip_2nd_word'
    ),
}
