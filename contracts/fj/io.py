"""
Contracts of the input / print / cast / buffer macros (C09), written from the documentation line above each `def`
(the `doc` field) and from the property statement: what the input stream SPELLS is what gets stored, what the variable
HOLDS is what gets printed.  Nothing here is read off the macro bodies; the oracles below are ordinary Python
(`int(...)`, `format(...)`, `int.from_bytes(...)`).

Conventions of the tuples handed to bounded.stl_io: the declared variables by name (out-parameters get a random
previous value so that "overwritten" is observable), plus `input` (the byte string fed to the run; a trailer follows
the bytes the macro is documented to read so that over-consumption shows) and `buf*` entries for the byte buffers.
"""
from __future__ import annotations

import random
from typing import Any, Callable, Dict, Iterable, List, Optional, Sequence, Tuple

from bounded.stl import Var
from bounded.stl_io import IOContract, Vals, to_bits

# ------------------------------------------------------------------------------------------------ oracles (spec side)

DIGITS = b'0123456789'
TERMINATORS = (0x0A, 0x00)  # '\n' and '\0' ("EOF" byte) of input_dec_uint / input_dec_int / the line helpers


def spell_uint_until(s: bytes) -> Optional[Tuple[int, int, int]]:
    """the unsigned decimal number at the head of s: (value, stop byte, bytes read) - None when s ends before a
    non-digit byte was seen (end of input inside the numeral)"""
    i = 0
    while i < len(s) and s[i] in DIGITS:
        i += 1
    if i == len(s):
        return None
    return (int(s[:i]) if i else 0), s[i], i + 1


def spell_int_until(s: bytes) -> Optional[Tuple[int, int, int]]:
    """optional leading '-', then digits, then the stop byte"""
    if s[:1] == b'-':
        r = spell_uint_until(s[1:])
        return None if r is None else (-r[0], r[1], r[2] + 1)
    return spell_uint_until(s)


def hex_digit_value(b: int) -> Optional[int]:
    ch = chr(b)
    return int(ch, 16) if ch in '0123456789abcdefABCDEF' else None


def signed(x: int, bits: int) -> int:
    return x - (1 << bits) if x >> (bits - 1) else x


def fmt_hex(v: int, prefix: bool, upper: bool) -> bytes:
    return (('-' if v < 0 else '') + ('0x' if prefix else '') + format(abs(v), 'X' if upper else 'x')).encode()


def fmt_dec(v: int) -> bytes:
    return str(v).encode()


# ------------------------------------------------------------------------------------------------ operand domains


def corner_values(bits: int, rng: random.Random, extra: int) -> List[int]:
    """all values when bits <= 8; else 0, 1, 9, 10, 10^k and neighbours, 2^k and neighbours for the top bits, the
    extremes, the most negative value and neighbours, the window around 10 * 2^(bits-4) (its quotient by ten is one
    high bit), nibble patterns (inner zero digits, leading zero digits), and `extra` random values"""
    top = 1 << bits
    if bits <= 8:
        return list(range(top))
    vals = {0, 1, 2, 7, 9, 10, 11, 15, 16, 17, top - 1, top - 2, top // 2, top // 2 - 1, top // 2 + 1}
    p = 10
    while p < top * 10:
        for k in (1, 2, 5, 9):
            vals |= {k * p - 1, k * p, k * p + 1}
        p *= 10
    for sh in range(3, bits):
        vals |= {(1 << sh) - 1, 1 << sh, (1 << sh) + 1}
    pivot = 10 << (bits - 4)
    vals |= {pivot + k for k in range(-3, 13)}
    for q in (3, 5, 6):
        piv = 10 << (bits - q)
        vals |= {piv - 1, piv, piv + 9, piv + 10}
    nib = bits // 4
    for d in (0x1, 0xA, 0xF, 0x9):
        for i in range(nib):
            vals.add(d << (4 * i))  # one non-zero digit: zeros below, leading zeros above
            vals.add((top - 1) ^ (0xF << (4 * i)))  # one zero digit inside
    vals |= {int('a0b0c0d0e0f01020'[:nib] or '0', 16), int('0123456789abcdef'[:nib] or '0', 16), int('fedcba9876543210'[:nib] or '0', 16)}
    for _ in range(extra):
        vals.add(rng.randrange(top))
        vals.add(rng.randrange(1 << rng.randrange(1, bits + 1)))
    return sorted(v for v in vals if 0 <= v < top)


def alternate_signs(vals: List[int], bits: int, rng: random.Random) -> List[int]:
    """shuffled, and every negative value (two's complement) is followed by a non-negative one"""
    neg = [v for v in vals if v >> (bits - 1)]
    pos = [v for v in vals if not v >> (bits - 1)]
    rng.shuffle(neg)
    rng.shuffle(pos)
    out: List[int] = []
    while neg or pos:
        if neg:
            out.append(neg.pop())
        if pos:
            out.append(pos.pop())
        if pos and rng.random() < 0.3:
            out.append(pos.pop())
    return out


def rnd(kind: str, n: int, rng: random.Random) -> int:
    return rng.randrange(16 ** n if kind == 'hex' else 2 ** n)


def with_outs(tuples: List[Vals], vars_: Dict[str, Var], rng: random.Random) -> List[Vals]:
    for t in tuples:
        for nm, v in vars_.items():
            if nm not in t:
                t[nm] = rnd(v.kind, v.n, rng)
    return tuples


TRAILERS = [b'', b'7', b'\n', b'-3', b'\x00', b'55\n', b'\xff']


def trailer(rng: random.Random) -> bytes:
    return rng.choice(TRAILERS)


# stop bytes: the documented terminators, the bytes next to '0'..'9' in the code table, same high / low nibble as '-'
# and as the digits, letters, high-bit bytes
STOPS = [0x0A, 0x00, 0x20, 0x2D, 0x2B, 0x2F, 0x3A, 0x2C, 0x2E, 0x0D, 0x3D, 0x4D, 0x6D, 0x61, 0x41, 0x78, 0x09, 0x1A, 0x10, 0x30 + 0x80, 0xAD, 0xFF, 0x80, 0x3F, 0x03, 0x13, 0x23, 0x43]


def decimal_inputs(nhex: int, rng: random.Random, is_signed: bool, tier: str) -> List[bytes]:
    """input byte strings for the decimal readers: numeral + stop + trailer (and strings that end too early)"""
    bits = 4 * nhex
    top = 1 << bits
    thorough = tier == 'thorough'
    nums: List[int] = []
    if nhex == 1:
        nums += list(range(0, 60))
    elif nhex == 2:
        nums += list(range(0, 700 if thorough else 300)) + [999, 1000, 1023, 1024, 65535, 65536]
    else:
        cv = corner_values(bits, rng, 60 if thorough else 12)
        pivot = 10 << (bits - 4)
        must = [v for v in cv if v in (0, 9, 10, top - 1, top // 2, top // 2 - 1, top // 2 + 1) or pivot - 1 <= v <= pivot + 10]
        nums += cv if thorough else must + rng.sample(cv, 70)
    # overflow beyond 16^n: documented as "mod 16^n"
    nums += [top, top + 1, top + 9, 10 * top + 7, 3 * top - 1, 10 ** (len(str(top)) + 2) + 12345, int('9' * (len(str(top)) + 6))]
    out: List[bytes] = []
    for v in nums:
        s = str(v).encode()
        if is_signed and rng.random() < 0.5:
            s = b'-' + s
        out.append(s + bytes([rng.choice(STOPS)]) + trailer(rng))
    if is_signed:  # the signed range's ends and both signs of the same magnitude
        for v in (top // 2 - 1, top // 2, top // 2 + 1, top - 1, top, 1, 0, 9, 10):
            for sg in (b'-', b''):
                out.append(sg + str(v).encode() + bytes([rng.choice(STOPS[:4])]) + trailer(rng))
    # leading zeros, the empty numeral, a sign alone, two signs, '+', sign after digits
    for s in (b'0', b'00', b'007', b'0000000000000000000012', b'', b'010'):
        for st in STOPS[:6]:
            out.append(s + bytes([st]) + trailer(rng))
            if is_signed:
                out.append(b'-' + s + bytes([st]) + trailer(rng))
    out += [b'+5\n', b'+\n', b'--5\n', b'-+5\n', b'- 5\n', b'5-3\n', b'-\n', b'-\x00', b'-a', b'1+1\n', b' 1\n', b'\n', b'\x00', b'\n\n', b'12\n34\n', b'1\x002\n']
    # an invalid byte at every position of a valid numeral
    base = (b'-' if is_signed else b'') + str(rng.randrange(top)).encode().rjust(4, b'1') + b'\n'
    for i in range(len(base)):
        for bad in (0x2F, 0x3A, 0x20, 0x2D, 0xB5, 0x00, 0x0A, 0x61):
            out.append(base[:i] + bytes([bad]) + base[i:])
    # every byte value as the stop byte after a digit, and as the first byte
    every = range(256) if (nhex <= 2 or thorough) else list(STOPS) + [rng.randrange(256) for _ in range(40)]
    for b in every:
        if b not in DIGITS:
            out.append(b'7' + bytes([b]) + trailer(rng))
        out.append(bytes([b]) + b'3\n' + trailer(rng))
        if is_signed:
            out.append(b'-' + bytes([b]) + b'4\n')
    # end of input inside the numeral / before anything / right after the sign
    out += [b'', b'1', b'12345', b'000']
    if is_signed:
        out += [b'-', b'-1', b'-99']
    rng.shuffle(out)
    if is_signed:  # a negative numeral is followed by a positive one (and the other way round)
        seq: List[bytes] = []
        for s in out:
            seq.append(s)
            if s[:1] == b'-' and len(s) > 2 and s[1:2].isdigit():
                seq.append(str(rng.randrange(1, max(2, top // 2))).encode() + b'\n')
        out = seq
    return out


# ------------------------------------------------------------------------------------------------ the table


def contracts(tier: str, widths: Sequence[int] = (64, 32)) -> List[IOContract]:
    cs: List[IOContract] = []
    for w in widths:
        cs += _contracts_w(tier, w)
    return cs


def _contracts_w(tier: str, w: int) -> List[IOContract]:
    thorough = tier == 'thorough'
    cs: List[IOContract] = []
    HN = (1, 2, 3, 4, 8) + ((5, 6, 16) if thorough else ())  # hex vector lengths
    BN = (4, 5, 8, 12, 16) + ((1, 2, 3, 6, 7, 9, 32, 64) if thorough else ())  # bit vector lengths
    X = 60 if thorough else 10  # random values on top of the corners

    def add(group: str, name: str, call: str, vars_: Dict[str, Var], post: Callable[[Vals], Dict[str, Any]], doc: str, domain: Callable[[random.Random], List[Vals]], **kw: Any) -> None:
        full = dict(vars_)

        def dom(rng: random.Random, _d: Callable[[random.Random], List[Vals]] = domain, _v: Dict[str, Var] = full, _p: Iterable[str] = tuple(kw.get('pointers', {}))) -> List[Vals]:
            return with_outs(_d(rng), {k: v for k, v in _v.items() if k not in _p}, rng)

        cs.append(IOContract(name, call, full, post, doc=doc, domain=dom, widths=(w,), group=group, **kw))

    def values(kind: str, n: int, nm: str = 'x', signed_order: bool = False) -> Callable[[random.Random], List[Vals]]:
        bits = 4 * n if kind == 'hex' else n

        def dom(rng: random.Random) -> List[Vals]:
            vs = corner_values(bits, rng, X)
            if signed_order:
                vs = alternate_signs(vs, bits, rng)
            else:
                rng.shuffle(vs)
            return [{nm: v} for v in vs]

        return dom

    # ============================================================ raw input
    g = 'input-raw'
    add(g, 'hex.input_hex', 'hex.input_hex x', {'x': Var('hex', 1, 'out')}, lambda v: {'x': v['input'][0] & 0xF},
        'hex := input(4bits)     // lsb first', lambda rng: [{'input': bytes([b, rng.randrange(256)])} for b in rng.sample(range(256), 256)],
        input_=lambda v: v['input'], consumed=lambda v: 4)
    add(g, 'hex.input', 'hex.input x', {'x': Var('hex', 2, 'out')}, lambda v: {'x': v['input'][0]},
        'byte[:2] = input(8bits)   // lsb first', lambda rng: [{'input': bytes([b]) + trailer(rng)} for b in rng.sample(range(256), 256)],
        input_=lambda v: v['input'], consumed=lambda v: 8)
    for n in (1, 2, 3, 4) + ((8,) if thorough else ()):
        add(g, 'hex.input', f'hex.input {n}, x', {'x': Var('hex', 2 * n, 'out')}, lambda v, n=n: {'x': int.from_bytes(v['input'][:n], 'little')},
            'bytes[:2n] = input(8n-bits)   // lsb first', lambda rng, n=n: [{'input': rng.randbytes(n) + trailer(rng)} for _ in range(80)] + [{'input': bytes([0x01] + [0] * (n - 1))}, {'input': bytes([0] * (n - 1) + [0x80])}],
            input_=lambda v: v['input'], consumed=lambda v, n=n: 8 * n)
    add(g, 'hex.input', 'hex.input x', {'x': Var('hex', 2, 'out')}, lambda v: {'x': 0x41},
        "byte[:2] = input(8bits)   // lsb first   [the input ends inside the byte: the machine's end-of-input halt]", lambda rng: [{'input': [True, False, True, True, False][:k]} for k in (0, 1, 3, 4, 5)] + [{'input': b'A'}],
        input_=lambda v: v['input'], consumed=lambda v: 8, eof=lambda v: len(to_bits(v['input'])) < 8)
    add(g, 'bit.input_bit', 'bit.input_bit x', {'x': Var('bit', 1, 'out')}, lambda v: {'x': v['input'][0] & 1},
        "input one bit into the bit-variable, 'dst'.", lambda rng: [{'input': bytes([rng.randrange(256), 0x55])} for _ in range(24)],
        input_=lambda v: v['input'], consumed=lambda v: 1)
    add(g, 'bit.input', 'bit.input x', {'x': Var('bit', 8, 'out')}, lambda v: {'x': v['input'][0]},
        'input one byte into dst[:8] (lsb first)', lambda rng: [{'input': bytes([b]) + trailer(rng)} for b in rng.sample(range(256), 256)],
        input_=lambda v: v['input'], consumed=lambda v: 8)
    for n in (1, 2, 3, 4) + ((8,) if thorough else ()):
        add(g, 'bit.input', f'bit.input {n}, x', {'x': Var('bit', 8 * n, 'out')}, lambda v, n=n: {'x': int.from_bytes(v['input'][:n], 'big')},
            'inputs n bytes into dst[:8n], the first byte into the most-significant byte (effectively inputs an 8*n bits big endian number; each byte is read lsb first).', lambda rng, n=n: [{'input': rng.randbytes(n) + trailer(rng)} for _ in range(80)] + [{'input': bytes([0x01] + [0] * (n - 1))}, {'input': bytes([0] * (n - 1) + [0x80])}],
            input_=lambda v: v['input'], consumed=lambda v, n=n: 8 * n)

    # ============================================================ ascii-hex input
    g = 'input-ascii-hex'
    add(g, 'hex.input_as_hex', 'hex.input_as_hex x, l0', {'x': Var('hex', 1, 'out')}, lambda v: {'x': hex_digit_value(v['input'][0])},
        "hex = hex_from_ascii(input(1byte))  *supports 0-9,a-f,A-F.  if can't cast, jumps to error.", lambda rng: [{'input': bytes([b]) + trailer(rng)} for b in rng.sample(range(256), 256) + rng.sample(range(256), 256)],
        input_=lambda v: v['input'], consumed=lambda v: 8, exits=('l0',), exit_=lambda v: None if hex_digit_value(v['input'][0]) is not None else 'l0')
    HEXCH = b'0123456789abcdefABCDEF'
    BADCH = bytes([0x2F, 0x3A, 0x40, 0x47, 0x60, 0x67, 0x20, 0x00, 0x0A, 0xB1, 0xC1, 0xE1, 0x10, 0x21, 0x51, 0x71, 0x4A, 0x6F, 0x78, 0xFF])

    def as_hex_value(s: bytes, n: int) -> Optional[int]:
        ds = [hex_digit_value(b) for b in s[:n]]
        return None if None in ds else int(''.join('%x' % d for d in ds), 16)

    def as_hex_dom(n: int) -> Callable[[random.Random], List[Vals]]:
        def dom(rng: random.Random) -> List[Vals]:
            out: List[bytes] = []
            if n == 2:
                alpha = HEXCH + BADCH
                out += [bytes([a, b]) for a in alpha for b in alpha]
            else:
                for _ in range(120 if thorough else 50):
                    out.append(bytes(rng.choice(HEXCH) for _ in range(n)))
                out += [b'0' * n, b'f' * n, b'F' * n, b'9' * n, b'a' * n, b'1' + b'0' * (n - 1), b'0' * (n - 1) + b'1']
                for i in range(n):  # an invalid byte at every position
                    for bad in rng.sample(list(BADCH), 6):
                        s = bytearray(rng.choice(HEXCH) for _ in range(n))
                        s[i] = bad
                        out.append(bytes(s))
            rng.shuffle(out)
            return [{'input': s + trailer(rng)} for s in out]

        return dom

    for n in (1, 2, 3, 4, 8) + ((16,) if thorough else ()):
        add(g, 'hex.input_as_hex', f'hex.input_as_hex {n}, x, l0', {'x': Var('hex', n, 'out')}, lambda v, n=n: {'x': as_hex_value(v['input'], n)},
            "hex[:n] = hex_from_ascii(input(n-bytes))  *supports 0-9,a-f,A-F.  if can't cast, jumps to error.", as_hex_dom(n) if n > 1 else (lambda rng: [{'input': bytes([b]) + trailer(rng)} for b in rng.sample(range(256), 256)]),
            input_=lambda v: v['input'], consumed=lambda v, n=n: 8 * n if as_hex_value(v['input'], n) is not None else None, max_consumed=lambda v, n=n: 8 * n,
            exits=('l0',), exit_=lambda v, n=n: None if as_hex_value(v['input'], n) is not None else 'l0')
    add(g, 'hex.input_as_hex', 'hex.input_as_hex 3, x, l0', {'x': Var('hex', 3, 'out')}, lambda v: {},
        'hex[:n] = hex_from_ascii(input(n-bytes))   [end of input before the n-th byte: the end-of-input halt]', lambda rng: [{'input': s} for s in (b'', b'a', b'1F')],
        input_=lambda v: v['input'], eof=lambda v: True, exits=('l0',))

    # ============================================================ decimal input
    g = 'input-decimal'
    DOC_UU = "dst[:n] = the unsigned decimal number read from input (mod 16^n).  Reads ASCII '0'..'9' and STOPS at the first non-digit byte, which is stored in stop_byte[:2]."
    DOC_IU = "dst[:n] = the signed decimal number read from input (two's complement, mod 16^n).  Reads an optional leading '-', then ASCII '0'..'9', and STOPS at the first non-digit byte, which gets stored in stop_byte[:2] (note that a leading '+' stops with dst=0)."
    DOC_U = "dst[:n] = the unsigned decimal number read from input (mod 16^n).  Reads ASCII '0'..'9' until a '\\n' or '\\0' (EOF) terminator; jumps to error on any other byte."
    DOC_I = "dst[:n] = the signed decimal number read from input (two's complement, mod 16^n).  Reads an optional leading '-', then ASCII '0'..'9' until a '\\n'/'\\0' terminator; jumps to error on any other byte"
    DSH = {1: 2, 2: 3, 3: 2, 4: 3, 5: 3, 6: 4, 8: 5, 16: 12}  # shards: separately assembled instances sharing the tuples
    for n in HN:
        for name, spell, is_signed, doc in (('hex.input_dec_uint_until', spell_uint_until, False, DOC_UU), ('hex.input_dec_int_until', spell_int_until, True, DOC_IU)):
            add(g, name, f'{name} {n}, x, s', {'x': Var('hex', n, 'out'), 's': Var('hex', 2, 'out')},
                lambda v, f=spell: {'x': f(v['input'])[0], 's': f(v['input'])[1]}, doc,
                lambda rng, n=n, sg=is_signed: [{'input': s} for s in decimal_inputs(n, rng, sg, tier)],
                input_=lambda v: v['input'], consumed=lambda v, f=spell: 8 * f(v['input'])[2], eof=lambda v, f=spell: f(v['input']) is None,
                weight=3 * n * n, max_ops=6_000_000, shards=DSH.get(n, 4))
        for name, spell, is_signed, doc in (('hex.input_dec_uint', spell_uint_until, False, DOC_U), ('hex.input_dec_int', spell_int_until, True, DOC_I)):
            add(g, name, f'{name} {n}, x, l0', {'x': Var('hex', n, 'out')},
                lambda v, f=spell: {'x': f(v['input'])[0] if f(v['input'])[1] in TERMINATORS else None}, doc,
                lambda rng, n=n, sg=is_signed: [{'input': s} for s in decimal_inputs(n, rng, sg, tier)],
                input_=lambda v: v['input'], consumed=lambda v, f=spell: 8 * f(v['input'])[2], eof=lambda v, f=spell: f(v['input']) is None,
                exits=('l0',), exit_=lambda v, f=spell: None if f(v['input'])[1] in TERMINATORS else 'l0', weight=3 * n * n, max_ops=6_000_000, shards=DSH.get(n, 4))

    # ============================================================ raw output
    g = 'print-raw'
    add(g, 'hex.output', 'hex.output x', {'x': Var('hex', 1, 'in')}, lambda v: {}, 'output 4 bits from hex  (lsb first)',
        lambda rng: [{'x': x} for x in rng.sample(range(16), 16) + rng.sample(range(16), 16)], output=lambda v: [bool(v['x'] >> i & 1) for i in range(4)])
    add(g, 'hex.print', 'hex.print x', {'x': Var('hex', 2, 'in')}, lambda v: {}, 'output 8 bits from x[:2]  (lsb first)', values('hex', 2), output=lambda v: bytes([v['x']]))
    for n in (1, 2, 3, 4):
        add(g, 'hex.print', f'hex.print {n}, x', {'x': Var('hex', 2 * n, 'in')}, lambda v: {}, 'output n bytes from x[:2n]  (lsb first)', values('hex', 2 * n),
            output=lambda v, n=n: v['x'].to_bytes(n, 'little'))
    add(g, 'bit.output', 'bit.output x', {'x': Var('bit', 1, 'in')}, lambda v: {}, "outputs the bit 'x'.", lambda rng: [{'x': b} for b in (0, 1, 1, 0, 0, 1, 0, 1, 1, 1, 0, 0)], output=lambda v: [bool(v['x'])])
    add(g, 'bit.print', 'bit.print x', {'x': Var('bit', 8, 'in')}, lambda v: {}, 'outputs a byte from x[:8] (a bit vector. from lsb to msb).', values('bit', 8), output=lambda v: bytes([v['x']]))
    for n in (1, 2, 3, 4):
        add(g, 'bit.print', f'bit.print {n}, x', {'x': Var('bit', 8 * n, 'in')}, lambda v: {}, 'outputs n bytes from x[:8n] (a bit vector. from lsb to msb).', values('bit', 8 * n),
            output=lambda v, n=n: v['x'].to_bytes(n, 'little'))

    def cstr(x: int, n: int) -> bytes:
        s = x.to_bytes(n, 'little')
        return s.split(b'\0')[0]

    def str_dom(n: int) -> Callable[[random.Random], List[Vals]]:
        def dom(rng: random.Random) -> List[Vals]:
            out = []
            for _ in range(150 if thorough else 60):
                s = bytearray(rng.choice(b'Az09 \n\x01\x80\xff\x10') for _ in range(n))
                for i in range(n):
                    if rng.random() < 0.25:
                        s[i] = 0
                out.append({'x': int.from_bytes(bytes(s), 'little')})
            out += [{'x': 0}, {'x': (1 << (8 * n)) - 1}, {'x': 0x41}, {'x': 0x41 << (8 * (n - 1))}]
            return out

        return dom

    for n in (1, 2, 3, 5):
        add(g, 'bit.print_str', f'bit.print_str {n}, x', {'x': Var('bit', 8 * n, 'in')}, lambda v: {}, "Prints the first n-chars of the string at x[:8n], or until reaches the first '\\0' (the earlier).",
            str_dom(n) if n > 1 else values('bit', 8), output=lambda v, n=n: cstr(v['x'], n))
    add(g, 'bit._.print_str_one_char', 'bit._.print_str_one_char x, l0', {'x': Var('bit', 8, 'in')}, lambda v: {}, "Prints one byte of a null-terminated string; jumps to `end` when it hits '\\0'.",
        values('bit', 8), output=lambda v: bytes([v['x']]) if v['x'] else b'', exits=('l0',), exit_=lambda v: None if v['x'] else 'l0')

    # ============================================================ hexadecimal / binary digit output
    g = 'print-hex'
    add(g, 'bit.print_as_digit', 'bit.print_as_digit x', {'x': Var('bit', 1, 'in')}, lambda v: {}, "prints the ascii character '0'/'1', based on x's value.", lambda rng: [{'x': b} for b in (0, 1, 1, 0, 1, 0, 0, 1)], output=lambda v: b'01'[v['x']:v['x'] + 1])
    for n in (1, 2, 3, 8) + ((13,) if thorough else ()):
        add(g, 'bit.print_as_digit', f'bit.print_as_digit {n}, x', {'x': Var('bit', n, 'in')}, lambda v: {}, "prints x[:n] as n ascii-characters ('0's and '1's, msb first).", values('bit', n),
            output=lambda v, n=n: format(v['x'], f'0{n}b').encode())
    for uc in (0, 1):
        add(g, 'hex.print_as_digit', f'hex.print_as_digit x, {uc}', {'x': Var('hex', 1, 'in')}, lambda v: {}, 'prints the ascii of the hexadecimal representation of hex.  use_uppercase (constant): if true, print in uppercase (else lowercase).',
            lambda rng: [{'x': x} for x in rng.sample(range(16), 16) + rng.sample(range(16), 16)], output=lambda v, uc=uc: format(v['x'], 'X' if uc else 'x').encode())
        for n in (1, 2, 3, 4) + ((8,) if thorough else ()):
            add(g, 'hex.print_as_digit', f'hex.print_as_digit {n}, x, {uc}', {'x': Var('hex', n, 'in')}, lambda v: {}, 'prints the ascii of the hexadecimal representation of x[:n].  use_uppercase (constant): if true, print in uppercase (else lowercase).',
                values('hex', n), output=lambda v, uc=uc, n=n: format(v['x'], f'0{n}' + ('X' if uc else 'x')).encode())
        add(g, 'hex.print_uint.print_digit', f'hex.print_uint.print_digit x, p, {uc}', {'x': Var('hex', 1, 'in'), 'p': Var('bit', 1, 'inout')}, lambda v: {'p': 1 if (v['p'] or v['x']) else 0},
            'print the ascii of the hexadecimal representation of hex (skip leading zeros, based on printed_something)  printed_something (bit [inout]): have any digit printed yet? (the macro also updates it)',
            lambda rng: [{'x': x, 'p': p} for x, p in rng.sample([(x, p) for x in range(16) for p in (0, 1)], 32) * 2], output=lambda v, uc=uc: format(v['x'], 'X' if uc else 'x').encode() if (v['p'] or v['x']) else b'')
        for pf in (0, 1):
            for n in HN:
                add(g, 'hex.print_uint', f'hex.print_uint {n}, x, {pf}, {uc}', {'x': Var('hex', n, 'in')}, lambda v: {}, 'print the unsigned x[:n], without leading zeros.  x_prefix (constant): print with the "0x" prefix.  use_uppercase (constant): if true, print in uppercase (else lowercase).',
                    values('hex', n), output=lambda v, pf=pf, uc=uc: fmt_hex(v['x'], bool(pf), bool(uc)))
                add(g, 'hex.print_int', f'hex.print_int {n}, x, {pf}, {uc}', {'x': Var('hex', n, 'in')}, lambda v: {}, 'print the signed x[:n], without leading zeros.  x_prefix (constant): print with the "0x" prefix.  use_uppercase (constant): if true, print in uppercase (else lowercase).',
                    values('hex', n, signed_order=True), output=lambda v, pf=pf, uc=uc, n=n: fmt_hex(signed(v['x'], 4 * n), bool(pf), bool(uc)))
    for pf in (0, 1):
        for n in sorted({b for b in BN + (20, 32) if b % 4 == 0}):  # "@Assumes n can be divided by 4."
            add(g, 'bit.print_hex_uint', f'bit.print_hex_uint {n}, x, {pf}', {'x': Var('bit', n, 'in')}, lambda v: {}, 'print x[:n] as an unsigned hexadecimal number, without leading zeros (digits & capital-letters).  x_prefix (constant): print with the "0x" prefix.  @Assumes n can be divided by 4.',
                values('bit', n), output=lambda v, pf=pf: fmt_hex(v['x'], bool(pf), True), weight=n)
            add(g, 'bit.print_hex_int', f'bit.print_hex_int {n}, x, {pf}', {'x': Var('bit', n, 'in')}, lambda v: {}, 'print x[:n] as a signed hexadecimal number, without leading zeros (digits & capital-letters).  x_prefix (constant): print with the "0x" prefix.  @Assumes n can be divided by 4.',
                values('bit', n, signed_order=True), output=lambda v, pf=pf, n=n: fmt_hex(signed(v['x'], n), bool(pf), True), weight=n)
    add(g, 'bit.print_hex_uint.print_digit', 'bit.print_hex_uint.print_digit x, p', {'x': Var('bit', 4, 'in'), 'p': Var('bit', 1, 'inout')}, lambda v: {'p': 1 if (v['p'] or v['x']) else 0},
        'Prints one hex digit, but only after the first non-zero digit has been seen (suppresses leading zeros).', lambda rng: [{'x': x, 'p': p} for x, p in rng.sample([(x, p) for x in range(16) for p in (0, 1)], 32) * 2],
        output=lambda v: format(v['x'], 'X').encode() if (v['p'] or v['x']) else b'')

    # ============================================================ decimal output
    g = 'print-decimal'
    PSH = {16: 2, 20: 2, 24: 3, 32: 5, 64: 16}  # shards by number of bits
    for n in HN:
        add(g, 'hex.print_dec_uint', f'hex.print_dec_uint {n}, x', {'x': Var('hex', n, 'in')}, lambda v: {}, 'prints x[:n] as an unsigned DECIMAL number (without leading zeros).', values('hex', n), output=lambda v: fmt_dec(v['x']), weight=40 * n * n, max_ops=8_000_000, shards=PSH.get(4 * n, 1))
        add(g, 'hex.print_dec_int', f'hex.print_dec_int {n}, x', {'x': Var('hex', n, 'in')}, lambda v: {}, 'prints x[:n] as a signed DECIMAL number (without leading zeros).', values('hex', n, signed_order=True), output=lambda v, n=n: fmt_dec(signed(v['x'], 4 * n)), weight=40 * n * n, max_ops=8_000_000, shards=PSH.get(4 * n, 1))
    for n in BN:
        add(g, 'bit.print_dec_uint', f'bit.print_dec_uint {n}, x', {'x': Var('bit', n, 'in')}, lambda v: {}, 'prints x[:n] as an unsigned decimal number (without leading zeros).', values('bit', n), output=lambda v: fmt_dec(v['x']), weight=3 * n * n, max_ops=8_000_000, shards=PSH.get(n, 1))
        if n >= 2:
            add(g, 'bit.print_dec_int', f'bit.print_dec_int {n}, x', {'x': Var('bit', n, 'in')}, lambda v: {}, 'prints x[:n] as a signed decimal number (without leading zeros).', values('bit', n, signed_order=True), output=lambda v, n=n: fmt_dec(signed(v['x'], n)), weight=3 * n * n, max_ops=8_000_000, shards=PSH.get(n, 1))
    add(g, 'bit.print_dec_uint.print_char', 'bit.print_dec_uint.print_char x, f', {'x': Var('bit', 4, 'in'), 'f': Var('bit', 1, 'in')}, lambda v: {}, 'if char_flag:  print the ascii representation of the decimal digit ascii4[:4].',
        lambda rng: [{'x': x, 'f': f} for x, f in rng.sample([(x, f) for x in range(10) for f in (0, 1)], 20) * 2], output=lambda v: (b'%d' % v['x']) if v['f'] else b'')

    # ============================================================ casts
    g = 'casts'
    add(g, 'stl.bit2hex', 'stl.bit2hex h, b', {'h': Var('hex', 1, 'out'), 'b': Var('bit', 1, 'in')}, lambda v: {'h': v['b']}, 'hex = bit', lambda rng: [{'b': b, 'h': h} for b in (0, 1) for h in range(16)])
    add(g, 'stl.hex2bit', 'stl.hex2bit b, h', {'b': Var('bit', 4, 'out'), 'h': Var('hex', 1, 'in')}, lambda v: {'b': v['h']}, 'bit[:4] = hex', lambda rng: rng.sample([{'b': b, 'h': h} for b in range(16) for h in range(16)], 256))
    for n in (1, 2, 3, 4, 5, 7, 8, 9, 12, 16) + ((31, 64) if thorough else ()):
        add(g, 'stl.bit2hex', f'stl.bit2hex {n}, h, b', {'h': Var('hex', (n + 3) // 4, 'out'), 'b': Var('bit', n, 'in')}, lambda v: {'h': v['b']}, 'hex[:(n+3)/4] = bit[:n]', values('bit', n, 'b'))
    for n in (1, 2, 3, 4) + ((8, 16) if thorough else ()):
        add(g, 'stl.hex2bit', f'stl.hex2bit {n}, b, h', {'b': Var('bit', 4 * n, 'out'), 'h': Var('hex', n, 'in')}, lambda v: {'b': v['h']}, 'bit[:4n] = hex[:n]', values('hex', n, 'h'))
    add(g, 'bit.bin2ascii', 'bit.bin2ascii a, b', {'a': Var('bit', 8, 'out'), 'b': Var('bit', 1, 'in')}, lambda v: {'a': 0x30 + v['b']}, 'ascii := the ascii representation of the value of bin.', lambda rng: [{'b': b} for b in (0, 1, 1, 0) * 8])
    add(g, 'bit.dec2ascii', 'bit.dec2ascii a, d', {'a': Var('bit', 8, 'out'), 'd': Var('bit', 4, 'in')}, lambda v: {'a': 0x30 + v['d']}, 'ascii := the ascii representation of the value of dec.  ascii is bit[:8], dec is bit[:4].',
        lambda rng: [{'d': d} for d in rng.sample(range(10), 10) * 4])  # "dec": a decimal digit, 0..9
    add(g, 'bit.hex2ascii', 'bit.hex2ascii a, h', {'a': Var('bit', 8, 'out'), 'h': Var('bit', 4, 'in')}, lambda v: {'a': ord('0123456789ABCDEF'[v['h']])}, 'ascii := the ascii representation of the value of hex (digits & capital-letters).',
        lambda rng: [{'h': h} for h in rng.sample(range(16), 16) * 4])
    add(g, 'bit.ascii2bin', 'bit.ascii2bin e, b, a', {'e': Var('bit', 1, 'out'), 'b': Var('bit', 1, 'out'), 'a': Var('bit', 8, 'in')},
        lambda v: {'e': 0, 'b': v['a'] - 0x30} if v['a'] in (0x30, 0x31) else {'e': 1, 'b': None}, "if ascii is '0'/'1', set bit to 0/1 (end error=0).  else, set error=1.  ascii is bit[:8], and error(output-param),bin are bits.",
        lambda rng: [{'a': a} for a in rng.sample(range(256), 256) + [0x30, 0x31, 0x32, 0x31, 0xB1, 0x30]])
    add(g, 'bit.ascii2dec', 'bit.ascii2dec e, d, a', {'e': Var('bit', 1, 'out'), 'd': Var('bit', 4, 'out'), 'a': Var('bit', 8, 'in')},
        lambda v: {'e': 0, 'd': v['a'] - 0x30} if 0x30 <= v['a'] <= 0x39 else {'e': 1, 'd': None}, "if ascii is '0'-'9', set dec to that decimal digit value (end error=0).  else, set error=1.  ascii is bit[:8], dec in bit[:4], and error(output-param) is a bit.",
        lambda rng: [{'a': a} for a in rng.sample(range(256), 256) + rng.sample(range(0x2E, 0x3C), 14)])
    add(g, 'bit.ascii2hex', 'bit.ascii2hex e, h, a', {'e': Var('bit', 1, 'out'), 'h': Var('bit', 4, 'out'), 'a': Var('bit', 8, 'in')},
        lambda v: {'e': 0, 'h': hex_digit_value(v['a'])} if hex_digit_value(v['a']) is not None else {'e': 1, 'h': None},
        "if ascii is '0'-'9'/'a'-'f'/'A'-'F', set hex to that hexadecimal digit value (end error=0).  else, set error=1.  ascii is bit[:8] (unchanged), hex in bit[:4], and error(output-param) is a bit.",
        lambda rng: [{'a': a} for a in rng.sample(range(256), 256) + rng.sample(list(b'09afAF@G`g/:'), 12)])
    for text in ('Hi!\\n', 'a', '0123456789abcdef~'):
        real = text.replace('\\n', '\n').encode()
        k = len(real) + 1

        def size_ok(h: Any, v: Vals, k: int = k) -> Optional[str]:
            cells = (h._label('s_end') - h._label('s')) // (2 * h.w)
            return None if cells == 8 * k else f'size: bit.str reserves {cells} bits, documented: {8 * k} (bytes of the string plus 1)'

        add(g, 'bit.str', f'bit.print {k}, s', {}, lambda v: {}, "create a bit-vector, initialized with the value of 'str', and with the number of bytes needed to store 'str', plus 1.",
            lambda rng: [{}, {}], output=lambda v, real=real: real + b'\0', extra_decl=f's: bit.str "{text}"\ns_end:', post_hook=size_ok)

    # ============================================================ constant output (runlib)
    g = 'constants'
    add(g, 'stl.output_bit', 'stl.output_bit 0\n  stl.output_bit 1\n  stl.output_bit 2\n  stl.output_bit 0-1\n  stl.output_bit 256\n  stl.output_bit 0\n  stl.output_bit 1\n  stl.output_bit 1', {}, lambda v: {},
        'bit is a constant. 0 will output 0, anything else will output 1.', lambda rng: [{}, {}], output=lambda v: [False, True, True, True, True, False, True, True])
    chars = [0x41, 0x00, 0xFF, 0x0A, 0x141, 0x80, 0x7F, 0x1FF00 + 0x5A]
    add(g, 'stl.output_char', '\n  '.join(f'stl.output_char {c}' for c in chars), {}, lambda v: {}, 'ascii is a constant. The macro outputs the byte (ascii & 0xff)', lambda rng: [{}, {}], output=lambda v: bytes(c & 0xFF for c in chars))
    strs: List[Tuple[str, bytes]] = [('"0x"', b'0x'), ("'-'", b'-'), ('"Hello, World!\\n"', b'Hello, World!\n'), ('0x4142', b'BA'), ('0', b''), ('"a\\0b"', b'a\0b'), ("'\\n'", b'\n'), ('0xFF', b'\xff'), ('0x4100', b'\0A')]
    add(g, 'stl.output', '\n  '.join(f'stl.output {s}' for s, _ in strs), {}, lambda v: {}, 'str is a constant. The macro outputs the bytes of it (from lsB to msB) until it becomes all zeros.', lambda rng: [{}, {}], output=lambda v: b''.join(b for _, b in strs))

    # ============================================================ byte-buffer helpers (strings.fj)
    g = 'buffers'
    hw = w // 4
    N = 12  # cells of the buffer
    REQ = '@requires hex.init and stl.ptr_init (or stl.startup_and_init_all).'

    def line_of(s: bytes) -> Optional[Tuple[bytes, int]]:
        """bytes before the first '\\n' / 0-byte, and that terminator"""
        for i, b in enumerate(s):
            if b in TERMINATORS:
                return s[:i], b
        return None

    def lines_dom(rng: random.Random) -> List[Vals]:
        out: List[Vals] = []
        alpha = b'ab z09\x01\x7f\x80\xff\x0b\x0d\x10-'
        lens = list(range(0, 7)) * (3 if thorough else 1) + [8, 10]
        rng.shuffle(lens)
        for ln in lens:
            for term in (b'\n', b'\0'):
                off = rng.randrange(0, N - ln + 1)
                body = bytes(rng.choice(alpha) for _ in range(ln))
                out.append({'input': body + term + trailer(rng), 'off': off, 'buf': rng.randbytes(N)})
        for body in (b'', b'x', b'abc'):  # the input ends before a terminator
            out.append({'input': body, 'off': 1, 'buf': rng.randbytes(N)})
        rng.shuffle(out)
        return out

    def put(buf: bytes, off: int, data: bytes) -> bytes:
        return buf[:off] + data + buf[off + len(data):]

    add(g, 'hex.input_ptr_line', 'hex.input_ptr_line p, n', {'p': Var('hex', hw, 'in'), 'n': Var('hex', hw, 'out')}, lambda v: {'n': len(line_of(v['input'])[0])},
        "Reads bytes from input into a pointed buffer, until a '\\n' or a 0-byte (EOF); writes the byte count into len[:w/4].  " + REQ, lines_dom,
        input_=lambda v: v['input'], consumed=lambda v: 8 * (len(line_of(v['input'])[0]) + 1), eof=lambda v: line_of(v['input']) is None,
        buffers={'buf': N}, pointers={'p': lambda v: ('buf', v['off'])}, buf_pre=lambda v: {'buf': v['buf']}, buf_post=lambda v: {'buf': put(v['buf'], v['off'], line_of(v['input'])[0])},
        ptr_scratch=True, weight=300, max_ops=6_000_000)

    def text_dom(rng: random.Random) -> List[Vals]:
        out: List[Vals] = []
        lens = list(range(0, 6)) * (3 if thorough else 1) + [7, N]
        for ln in lens:
            off = rng.randrange(0, N - ln + 1)
            buf = bytearray(rng.choice(b'ab\x00\n\xff0 \x80') for _ in range(N))
            out.append({'n': ln, 'off': off, 'buf': bytes(buf)})
        rng.shuffle(out)
        return out

    add(g, 'hex.print_ptr_text', 'hex.print_ptr_text p, n', {'p': Var('hex', hw, 'in'), 'n': Var('hex', hw, 'in')}, lambda v: {}, 'Prints "len[:w/4]" bytes from the pointed buffer.  ' + REQ, text_dom,
        output=lambda v: v['buf'][v['off']:v['off'] + v['n']], buffers={'buf': N}, pointers={'p': lambda v: ('buf', v['off'])}, buf_pre=lambda v: {'buf': v['buf']}, ptr_scratch=True, weight=300, max_ops=6_000_000)

    def pline_dom(rng: random.Random) -> List[Vals]:
        out: List[Vals] = []
        lens = list(range(0, 6)) * (3 if thorough else 1) + [8]
        for ln in lens:
            for term in (0x0A, 0x00):
                off = rng.randrange(0, N - ln)
                buf = bytearray(rng.choice(b'ab\xff0 \x80\x0b\x01') for _ in range(N))
                buf[off + ln] = term
                out.append({'off': off, 'buf': bytes(buf)})
        rng.shuffle(out)
        return out

    add(g, 'hex.print_ptr_line', 'hex.print_ptr_line p, n', {'p': Var('hex', hw, 'in'), 'n': Var('hex', hw, 'out')}, lambda v: {'n': len(line_of(v['buf'][v['off']:])[0])},
        "Prints bytes from the pointed buffer, until a '\\n' or a 0-byte (EOF); writes the byte count into len[:w/4].  A terminating '\\n' is printed too (a terminating 0-byte is not); either way len excludes it.  " + REQ, pline_dom,
        output=lambda v: line_of(v['buf'][v['off']:])[0] + (b'\n' if line_of(v['buf'][v['off']:])[1] == 0x0A else b''),
        buffers={'buf': N}, pointers={'p': lambda v: ('buf', v['off'])}, buf_pre=lambda v: {'buf': v['buf']}, ptr_scratch=True, weight=300, max_ops=6_000_000)

    def fill_dom(rng: random.Random) -> List[Vals]:
        out: List[Vals] = []
        lens = list(range(0, 6)) * (2 if thorough else 1) + [N]
        for ln in lens:
            out.append({'n': ln, 'off': rng.randrange(0, N - ln + 1), 'v': rng.choice([0, 0xFF, 0x0A, 0x41, rng.randrange(256)]), 'buf': rng.randbytes(N)})
        rng.shuffle(out)
        return out

    add(g, 'hex.fill_bytes', 'hex.fill_bytes p, n, v', {'p': Var('hex', hw, 'in'), 'n': Var('hex', hw, 'in'), 'v': Var('hex', 2, 'in')}, lambda v: {},
        'Fills "count[:w/4]" bytes of the pointed buffer with the value byte.  ptr,count are hex[:w/4]; value is a hex[:2]. All three are preserved.  ' + REQ, fill_dom,
        buffers={'buf': N}, pointers={'p': lambda v: ('buf', v['off'])}, buf_pre=lambda v: {'buf': v['buf']}, buf_post=lambda v: {'buf': put(v['buf'], v['off'], bytes([v['v']]) * v['n'])}, ptr_scratch=True, weight=300, max_ops=6_000_000)

    def copy_dom(rng: random.Random) -> List[Vals]:
        out: List[Vals] = []
        lens = list(range(0, 6)) * (2 if thorough else 1) + [N]
        for ln in lens:
            out.append({'n': ln, 'off': rng.randrange(0, N - ln + 1), 'soff': rng.randrange(0, N - ln + 1), 'buf': rng.randbytes(N), 'src': bytes(rng.choice(b'ab\x00\n\xff0 \x80') for _ in range(N))})
        rng.shuffle(out)
        return out

    add(g, 'hex.copy_bytes', 'hex.copy_bytes p, q, n', {'p': Var('hex', hw, 'in'), 'q': Var('hex', hw, 'in'), 'n': Var('hex', hw, 'in')}, lambda v: {},
        'Copies "count[:w/4]" bytes from the src-pointed buffer to the dst-pointed buffer.  dst_ptr,src_ptr,count are hex[:w/4]. All three are preserved.  @Assumes: the buffers do not overlap.  ' + REQ, copy_dom,
        buffers={'buf': N, 'src': N}, pointers={'p': lambda v: ('buf', v['off']), 'q': lambda v: ('src', v['soff'])}, buf_pre=lambda v: {'buf': v['buf'], 'src': v['src']},
        buf_post=lambda v: {'buf': put(v['buf'], v['off'], v['src'][v['soff']:v['soff'] + v['n']])}, ptr_scratch=True, weight=400, max_ops=8_000_000)

    # ============================================================ round trips: what one macro stores the other prints (state shared in ONE program)
    g = 'roundtrip'
    for n in (2, 4) + ((8,) if thorough else ()):
        add(g, 'hex.input_dec_int_until;hex.print_dec_int;hex.print', f'hex.input_dec_int_until {n}, x, s\n  hex.print_dec_int {n}, x\n  hex.print s', {'x': Var('hex', n, 'out'), 's': Var('hex', 2, 'out')},
            lambda v: {'x': spell_int_until(v['input'])[0], 's': spell_int_until(v['input'])[1]}, DOC_IU + ' ; prints x[:n] as a signed DECIMAL number (without leading zeros). ; output 8 bits from x[:2]',
            lambda rng, n=n: [{'input': s} for s in decimal_inputs(n, rng, True, 'quick') if spell_int_until(s) is not None][:150 if thorough else 60],
            input_=lambda v: v['input'], consumed=lambda v: 8 * spell_int_until(v['input'])[2],
            output=lambda v, n=n: fmt_dec(signed(spell_int_until(v['input'])[0] % (1 << 4 * n), 4 * n)) + bytes([spell_int_until(v['input'])[1]]), weight=40 * n * n, max_ops=8_000_000)
        add(g, 'hex.input_as_hex;hex.print_uint', f'hex.input_as_hex {n}, x, l0\n  hex.print_uint {n}, x, 1, 0', {'x': Var('hex', n, 'out')}, lambda v, n=n: {'x': as_hex_value(v['input'], n)},
            'hex[:n] = hex_from_ascii(input(n-bytes)) ; print the unsigned x[:n], without leading zeros.', lambda rng, n=n: [t for t in as_hex_dom(n)(rng) if as_hex_value(t['input'], n) is not None][:80],
            input_=lambda v: v['input'], consumed=lambda v, n=n: 8 * n, exits=('l0',), exit_=lambda v: None, output=lambda v, n=n: fmt_hex(as_hex_value(v['input'], n), True, False))
    add(g, 'hex.input;hex.print', 'hex.input 2, x\n  hex.print 2, x', {'x': Var('hex', 4, 'out')}, lambda v: {'x': int.from_bytes(v['input'][:2], 'little')},
        'bytes[:2n] = input(8n-bits)   // lsb first ; output n bytes from x[:2n]  (lsb first)', lambda rng: [{'input': rng.randbytes(2) + trailer(rng)} for _ in range(40)],
        input_=lambda v: v['input'], consumed=lambda v: 16, output=lambda v: v['input'][:2])
    add(g, 'bit.input;bit.print', 'bit.input x\n  bit.print x', {'x': Var('bit', 8, 'out')}, lambda v: {'x': v['input'][0]},
        'input one byte into dst[:8] (lsb first) ; outputs a byte from x[:8] (a bit vector. from lsb to msb).', lambda rng: [{'input': rng.randbytes(1) + trailer(rng)} for _ in range(40)],
        input_=lambda v: v['input'], consumed=lambda v: 8, output=lambda v: v['input'][:1])
    return cs


ANCHORED = ('hex/input.fj', 'hex/output.fj', 'hex/strings.fj', 'bit/input.fj', 'bit/output.fj', 'bit/casting.fj', 'casting.fj', 'runlib.fj')

_PROLOGUE = 'program prologue, not an input/print/cast macro; stl.startup_and_init_all is the first statement of every harness program here, so every contract depends on it having set up the IO op, the tables and the pointer globals'
_CONTROL = 'runlib.fj control macro, outside the statement of C09 (no input, print, cast or buffer behaviour)'
NOT_COVERED: Dict[str, str] = {
    'bit.print_dec_uint.div10_step': 'inner step of bit.print_dec_uint: its parameters are the label-functions div10 / xor and the return register of the enclosing macro, it cannot be applied on its own; executed through bit.print_dec_uint / hex.print_dec_uint',
    'stl.startup': _PROLOGUE,
    'stl.startup_and_init_pointers': _PROLOGUE,
    'stl.startup_and_init_all': _PROLOGUE,
    'stl.fj': _CONTROL,
    'stl.wflip_macro': _CONTROL,
    'stl.comp_if': _CONTROL,
    'stl.comp_if0': _CONTROL + '; executed inside hex.print_uint / bit.print_hex_uint (the x_prefix option)',
    'stl.comp_if1': _CONTROL,
    'stl.comp_flip_if': _CONTROL,
    'stl.skip': _CONTROL,
    'stl.loop': _CONTROL + '; ends every harness program',
}
