"""
Contracts of the hex-namespace data macros (C04), written from the documentation line above each `def` in
/repo/flipjump/stl/hex/{memory,logics,math,math_basic,shifts,cond_jumps,mul,div}.fj (the `doc` field quotes it).

Conventions
- The shared program variables are x, y, z, u, every one a `hex.vec n`; a macro whose operand is shorter than n
  (a single hex, src[:src_n], r/b[:nb], dst[:small_n]) is applied to the LOW cells of such a variable and the
  contract says that the remaining cells stay.  So all contracts of one n are composable on shared variables.
- `t` (one hex) records the branch in the composable form of a jumping macro (`recorded`).
- `@U` in a call text is replaced by a string unique to the position of the call in the assembled program.
- frame_exempt entries 'macro/label/kind/cells' name cells DECLARED INSIDE the macro body (its private scratch
  vectors, e.g. hex.div's _r): only their data bits may change; everything else in memory must be bit-identical.
- widths containing 16: the macro's documentation has no `@requires ...init` line (it needs no table), so the
  harness may start it with `stl.startup` only, which is the only way a program fits in a 16-bit memory.
"""

from __future__ import annotations

import random
import re
from dataclasses import replace
from typing import Callable, Dict, List, Sequence, Tuple

from bounded.stl import MacroContract, Var

Vals = Dict[str, int]


def H(n: int, role: str = 'inout') -> Var:
    return Var('hex', n, role)


def M(n: int) -> int:
    return 16**n


def sgn(v: int, n: int) -> int:
    v %= M(n)
    return v - M(n) if v >= M(n) // 2 else v


def low(v: int, k: int) -> int:
    return v % M(k)


def put_low(old: int, k: int, new: int) -> int:
    """old with its k low hexes replaced by new mod 16^k"""
    return old - old % M(k) + new % M(k)


def popcount(v: int) -> int:
    return bin(v).count('1')


def bitrev4(v: int) -> int:
    return int(f'{v & 15:04b}'[::-1], 2)


def small_n(n: int) -> int:
    return ((4 * n).bit_length() + 3) // 4


# ---------------------------------------------------------------------------------------------- domains


def exhaustive(names: Sequence[str], sizes: Sequence[int], outs: Dict[str, int]) -> Callable[[random.Random], List[Vals]]:
    """every tuple of the named operands (shuffled: the order of consecutive executions matters); `outs`
    (name -> range) get random pre-values"""

    def dom(rng: random.Random) -> List[Vals]:
        import itertools

        ts = [dict(zip(names, combo)) for combo in itertools.product(*[range(s) for s in sizes])]
        rng.shuffle(ts)
        for t in ts:
            for nm, s in outs.items():
                t[nm] = rng.randrange(s)
        return ts

    dom.all_tuples = True  # type: ignore[attr-defined]
    return dom


def near_pairs(n: int, a: str, b: str, count: int, outs: Dict[str, int]) -> Callable[[random.Random], List[Vals]]:
    """operand pairs for comparisons: random, equal, differing in exactly one hex, differing by +-1, sign corners"""

    def dom(rng: random.Random) -> List[Vals]:
        s = M(n)
        ts: List[Vals] = []
        corners = [0, 1, s - 1, s // 2, s // 2 - 1, s // 2 + 1]
        for p in corners:
            for q in corners:
                ts.append({a: p % s, b: q % s})
        while len(ts) < count:
            p = rng.randrange(s)
            k = rng.randrange(5)
            if k == 0:
                q = rng.randrange(s)
            elif k == 1:
                q = p
            elif k == 2:
                i = rng.randrange(n)
                q = (p & ~(15 << (4 * i))) | (rng.randrange(16) << (4 * i))
            elif k == 3:
                q = (p + rng.choice([-1, 1])) % s
            else:
                q = p ^ (8 << (4 * (n - 1)))
            ts.append({a: p, b: q})
        rng.shuffle(ts)
        for t in ts:
            for nm, r in outs.items():
                t[nm] = rng.randrange(r)
        return ts

    return dom


# ---------------------------------------------------------------------------------------------- jumping -> composable


def recorded(j: MacroContract) -> MacroContract:
    """The composable form of a jumping macro application: all exits converge, the exit taken is recorded in the
    one-hex variable t (0: fell through, k+1: exit lk).  Built from hex.zero / hex.set, which are under contract."""
    call = j.call
    lines = ['hex.zero t', None, ';@U_end']
    for k, e in enumerate(j.exits):
        call = re.sub(rf'\b{e}\b', f'@U_{k}', call)
        lines += [f'@U_{k}:', f'hex.set t, {k + 1}', ';@U_end']
    lines[1] = call
    lines.append('@U_end:')
    vars_ = dict(j.vars)
    vars_['t'] = Var('hex', 1, 'out')
    ex, post = j.exit_, j.post

    def post2(v: Vals) -> Vals:
        sub = {k: x for k, x in v.items() if k != 't'}
        out = dict(post(sub))
        e = ex(sub) if ex else None
        out['t'] = 0 if e is None else j.exits.index(e) + 1
        return out

    req = j.requires
    return replace(
        j,
        name=j.name + '[recorded]',
        call='\n  '.join(lines),
        vars=vars_,
        post=post2,
        exits=(),
        exit_=None,
        domain=None,
        requires=(lambda v: req({k: x for k, x in v.items() if k != 't'})) if req else None,
        max_ops=j.max_ops + 200,
    )


# ---------------------------------------------------------------------------------------------- the table


def widths_for(tier: str, n: int, tablefree: bool, idx: int) -> Tuple[int, ...]:
    if tier == 'thorough':
        return (64, 32, 16) if tablefree and n <= 3 else (64, 32)
    # quick: one width per contract, alternating, plus the 16-bit machine for the table-free macros at n = 1
    base = (64,) if (n + idx) % 2 else (32,)
    return base + ((16,) if tablefree and n == 1 and idx % 3 == 0 else ())


class _Table:
    def __init__(self, tier: str, seed: int):
        self.tier, self.seed = tier, seed
        self.cs: List[MacroContract] = []
        self.rng = random.Random(seed * 7919 + 17)

    def add(
        self, name: str, call: str, vars_: Dict[str, Var], post: Callable[[Vals], Vals], doc: str, n: int, tablefree: bool = False, **kw
    ) -> MacroContract:
        widths = kw.pop('widths', None) or widths_for(self.tier, n, tablefree, len(self.cs))
        c = MacroContract(name, call, vars_, post, doc=doc, widths=widths, **kw)
        self.cs.append(c)
        return c

    def consts(self, n: int, extra: Sequence[int] = ()) -> List[int]:
        """representative compile-time constants in [0, 16^n): 0, 1, max, the given ones, and randoms"""
        out = [0, 1, M(n) - 1] + [e % M(n) for e in extra]
        for _ in range(2 if self.tier != 'thorough' else 4):
            out.append(self.rng.randrange(M(n)))
        seen: List[int] = []
        for x in out:
            if x not in seen:
                seen.append(x)
        return seen


DIV_OPS = 400_000


def div_exempt(n: int, nb: int) -> Tuple[str, ...]:
    return (f'hex.div/_b/hex/{nb + 1}', f'hex.div/_a/hex/{n}', f'hex.div/_r/hex/{nb + 1}', f'hex.div/i/hex/{n.bit_length()}')


def idiv_exempt(n: int, nb: int) -> Tuple[str, ...]:
    return div_exempt(n, nb) + ('hex.idiv/negative_a/bit/1', 'hex.idiv/negative_b/bit/1', 'hex.idiv/one_negative/bit/1')


def mul_exempt(n: int) -> Tuple[str, ...]:
    return (f'hex.mul/dst/hex/{n}', f'hex.mul/src/hex/{n}', f'hex.mul/a_1bits/hex/{small_n(n)}', f'hex.mul/b_1bits/hex/{small_n(n)}')


def idiv_model(a: int, b: int, n: int, nb: int, opt: int) -> Tuple[int, int]:
    """q, r of the documentation: a == q*b + r, |r| < |b|, sign(r)==sign(b) (opt 0) / sign(a) (opt 1) / r >= 0 (opt 2)"""
    A, B = sgn(a, n), sgn(b, nb)
    if opt == 0:
        q = A // B  # floor: the remainder has the sign of b
    elif opt == 1:
        q = abs(A) // abs(B) * (1 if (A < 0) == (B < 0) else -1)  # truncation: the remainder has the sign of a
    else:
        r = A % abs(B)  # euclidean: the remainder is never negative
        q = (A - r) // B
    return q, A - q * B


def exact_division_domain(n: int, nb: int, count: int) -> Callable[[random.Random], List[Vals]]:
    """signed operand pairs (a in hex[:n], b in hex[:nb], b != 0) with b dividing a, every sign combination, a == 0 included"""

    def dom(rng: random.Random) -> List[Vals]:
        lo_a, hi_a = -M(n) // 2, M(n) // 2 - 1
        lo_b, hi_b = -M(nb) // 2, M(nb) // 2 - 1
        pairs = set()
        if M(n) * M(nb) <= 65536:
            for a in range(lo_a, hi_a + 1):
                for b in range(lo_b, hi_b + 1):
                    if b and a % b == 0:
                        pairs.add((a, b))
        else:
            for b in (1, -1, 2, -2, 3, -3, hi_b, lo_b, 7, -7):
                if lo_b <= b <= hi_b:
                    for a in (0, b, -b, 2 * b, -2 * b, lo_a - lo_a % b, hi_a - hi_a % b):
                        if lo_a <= a <= hi_a:
                            pairs.add((a, b))
            while len(pairs) < count:
                b = rng.randrange(lo_b, hi_b + 1) if rng.random() < 0.5 else rng.randrange(-15, 16)
                if b == 0 or not lo_b <= b <= hi_b:
                    continue
                a = b * rng.randrange(lo_a // abs(b) - 1, hi_a // abs(b) + 2)
                if lo_a <= a <= hi_a:
                    pairs.add((a, b))
        ps = sorted(pairs)
        rng.shuffle(ps)
        ps = ps[: max(count, 0)] if len(ps) > count else ps
        return [
            {'z': a % M(n), 'u': (b % M(nb)) | (rng.randrange(M(n - nb)) << (4 * nb)), 'x': rng.randrange(M(n)), 'y': rng.randrange(M(n))}
            for a, b in ps
        ]

    dom.all_tuples = M(n) * M(nb) <= 256  # type: ignore[attr-defined]
    return dom


# obligations that isolate a candidate finding get a stable witness key (known-finding matching is by obligation AND key)
FINDING_KEYS = {'hex.idiv.exact': 'idiv-exact-division'}


def contracts(tier: str, seed: int = 0) -> List[MacroContract]:
    """Every single-macro contract.  quick: n in 1,2,3; thorough: n in 1,2,3,4,8."""
    T = _Table(tier, seed)
    thorough = tier == 'thorough'
    ns = (1, 2, 3, 4, 8) if thorough else (1, 2, 3)

    # ======================================================================== single-hex forms (operands: ONE hex)
    # applied to cell `i` of x and cell `j` of y, inside vectors of n cells: the other cells must stay.
    def cell(nm: str, i: int) -> str:
        return nm if i == 0 else f'{nm}+{i}*dw'

    def geth(v: int, i: int) -> int:
        return (v >> (4 * i)) & 15

    def seth(v: int, i: int, h: int) -> int:
        return (v & ~(15 << (4 * i))) | ((h & 15) << (4 * i))

    placements = [(1, 0, 0), (2, 1, 0), (3, 0, 2)] + ([(4, 3, 1)] if thorough else [])
    for n, i, j in placements:
        X, Y = cell('x', i), cell('y', j)
        tf = dict(n=n, tablefree=True)

        def un(f: Callable[[int], int], i: int = i) -> Callable[[Vals], Vals]:
            return lambda v: {'x': seth(v['x'], i, f(geth(v['x'], i)))}

        def bi(f: Callable[[int, int], int], i: int = i, j: int = j) -> Callable[[Vals], Vals]:
            return lambda v: {'x': seth(v['x'], i, f(geth(v['x'], i), geth(v['y'], j)))}

        xy = {'x': H(n), 'y': H(n, 'in')}
        x_ = {'x': H(n)}
        T.add('hex.zero', f'hex.zero {X}', x_, un(lambda a: 0), 'hex = 0', **tf)
        T.add('hex.mov', f'hex.mov {X}, {Y}', xy, bi(lambda a, b: b), 'dst = src', **tf)
        T.add('hex.mov(same)', f'hex.mov {X}, {X}', x_, un(lambda a: a), 'dst = src  [safe if they are the exact same address]', **tf)
        T.add('hex.xor', f'hex.xor {X}, {Y}', xy, bi(lambda a, b: a ^ b), 'dst ^= src', **tf)
        T.add('hex.not', f'hex.not {X}', x_, un(lambda a: 15 - a), 'hex = !hex  (15-hex)', **tf)
        T.add('hex.or', f'hex.or {X}, {Y}', xy, bi(lambda a, b: a | b), 'dst |= src', n=n)
        T.add('hex.and', f'hex.and {X}, {Y}', xy, bi(lambda a, b: a & b), 'dst &= src', n=n)
        T.add(
            'hex.exact_xor',
            f'hex.exact_xor {X}+dbit+3, {X}+dbit+2, {X}+dbit+1, {X}+dbit+0, {Y}',
            xy,
            bi(lambda a, b: a ^ b),
            '{d3,d2,d1,d0} ^= src',
            **tf,
        )
        T.add(
            'hex.exact_xor(reversed bits)',
            f'hex.exact_xor {X}+dbit+0, {X}+dbit+1, {X}+dbit+2, {X}+dbit+3, {Y}',
            xy,
            bi(lambda a, b: a ^ bitrev4(b)),
            '{d3,d2,d1,d0} ^= src   [d3..d0 are bit-addresses]',
            **tf,
        )
        T.add(
            'hex.xor_zero',
            f'hex.xor_zero {X}, {Y}',
            {'x': H(n), 'y': H(n)},
            (lambda v, i=i, j=j: {'x': seth(v['x'], i, geth(v['x'], i) ^ geth(v['y'], j)), 'y': seth(v['y'], j, 0)}),
            'dst ^= src ; src = 0',
            **tf,
        )
        T.add(
            'hex.swap',
            f'hex.swap {X}, {Y}',
            {'x': H(n), 'y': H(n)},
            (lambda v, i=i, j=j: {'x': seth(v['x'], i, geth(v['y'], j)), 'y': seth(v['y'], j, geth(v['x'], i))}),
            'hex1, hex2 = hex2, hex1',
            **tf,
        )
        T.add('hex.swap(same)', f'hex.swap {X}, {X}', x_, un(lambda a: a), 'hex1, hex2 = hex2, hex1  [same address]', **tf)
        for val in (0, 1, 15, 10) if n == 1 or thorough else (6,):
            T.add(f'hex.xor_by[{val}]', f'hex.xor_by {X}, {val}', x_, un(lambda a, val=val: a ^ val), 'hex ^= val (constant)', **tf)
            T.add(f'hex.set[{val}]', f'hex.set {X}, {val}', x_, un(lambda a, val=val: val), 'hex = val (constant)', **tf)

    # three-operand single-hex forms and the bit-address forms (n = 1 cells; all 16^3 tuples in thorough)
    for n in (1, 2):
        hi = n - 1  # operate on the top cell of x, the low cells of y, z
        X = cell('x', hi)
        xyz = {'x': H(n), 'y': H(n), 'z': H(n, 'in')}
        T.add(
            'hex.double_xor',
            f'hex.double_xor {X}, y, z',
            xyz,
            (lambda v, hi=hi: {'x': seth(v['x'], hi, geth(v['x'], hi) ^ (v['z'] & 15)), 'y': v['y'] ^ (v['z'] & 15)}),
            'dst1 ^= src ; dst2 ^= src',
            n=n,
            tablefree=True,
        )
        T.add(
            'hex.double_exact_xor',
            f'hex.double_exact_xor {X}+dbit+3, {X}+dbit+2, {X}+dbit+1, {X}+dbit+0, y+dbit+3, y+dbit+2, y+dbit+1, y+dbit+0, z',
            xyz,
            (lambda v, hi=hi: {'x': seth(v['x'], hi, geth(v['x'], hi) ^ (v['z'] & 15)), 'y': v['y'] ^ (v['z'] & 15)}),
            '{t3,t2,t1,t0} ^= src ; {d3,d2,d1,d0} ^= src',
            n=n,
            tablefree=True,
        )
        b4 = lambda nm: ', '.join(f'{nm}+dbit+{k}' for k in (3, 2, 1, 0))  # noqa: E731
        T.add(
            'hex.quadrupled_exact_xor',
            f'hex.quadrupled_exact_xor {b4(X)}, {b4("y")}, {b4("z")}, {b4("u")}, s',
            {'x': H(n), 'y': H(n), 'z': H(n), 'u': H(n), 's': H(1, 'in')},
            (
                lambda v, hi=hi: {
                    'x': seth(v['x'], hi, geth(v['x'], hi) ^ v['s']),
                    'y': v['y'] ^ v['s'],
                    'z': v['z'] ^ v['s'],
                    'u': v['u'] ^ v['s'],
                }
            ),
            '{q3..q0} ^= src ; {r3..r0} ^= src ; {t3..t0} ^= src ; {d3..d0} ^= src',
            n=n,
            tablefree=True,
        )
    # address (a run of 4n consecutive bits) + variable forms: the `address` operand is the packed variable p/q
    for n in (1, 2, 3) + ((4,) if thorough else ()):
        T.add(
            'hex.address_and_variable_xor',
            f'hex.address_and_variable_xor {n}, p+dbit, x, y',
            {'p': Var('packed', n), 'x': H(n), 'y': H(n, 'in')},
            lambda v: {'p': v['p'] ^ v['y'], 'x': v['x'] ^ v['y']},
            'address(bit_address) ^= src ; var ^= src   [var,src are hex[:n], address is an address]',
            n=n,
            widths=(64, 32) if thorough else ((64,) if n % 2 else (32,)),
        )
        T.add(
            'hex.address_and_variable_double_xor',
            f'hex.address_and_variable_double_xor {n}, p+dbit, x, q+dbit, z, y',
            {'p': Var('packed', n), 'q': Var('packed', n), 'x': H(n), 'z': H(n), 'y': H(n, 'in')},
            lambda v: {'p': v['p'] ^ v['y'], 'x': v['x'] ^ v['y'], 'q': v['q'] ^ v['y'], 'z': v['z'] ^ v['y']},
            'address1 ^= src ; var1 ^= src ; address2 ^= src ; var2 ^= src',
            n=n,
            widths=(64, 32) if thorough else ((32,) if n % 2 else (64,)),
        )

    # the carry-using single-hex add / sub, with the carry macros around them (carry-in 0 and 1, carry-out observed)
    for op, sym, f in (('add', '+', lambda a, b, c: a + b + c), ('sub', '-', lambda a, b, c: a - b - c)):
        for cin, pre in ((0, f'hex.{op}.clear_carry'), (1, f'hex.{op}.set_carry')):
            T.add(
                f'hex.{op}(hex,carry-in {cin})',
                f'{pre}\n  hex.{op} x, y\n  hex.{op}.clear_carry l0, l1',
                {'x': H(1), 'y': H(1, 'in')},
                (lambda v, f=f, cin=cin: {'x': f(v['x'], v['y'], cin) % 16}),
                f'dst {sym}= src  [relies on the {op}-carry, and updates it at the end]; clear_carry: carry = 0; set_carry: carry = 1; '
                'clear_carry c0, c1: carry = 0. jump to c0 if it was 0, and to c1 otherwise',
                n=1,
                exits=('l0', 'l1'),
                exit_=(lambda v, f=f, cin=cin: 'l0' if 0 <= f(v['x'], v['y'], cin) <= 15 else 'l1'),
            )
        T.add(
            f'hex.{op}.not_carry',
            f'hex.{op}.clear_carry\n  hex.{op}.not_carry\n  hex.{op}.not_carry\n  hex.{op}.not_carry\n  hex.{op} x, y\n  hex.{op}.clear_carry',
            {'x': H(1), 'y': H(1, 'in')},
            (lambda v, f=f: {'x': f(v['x'], v['y'], 1) % 16}),
            'not_carry: carry = !carry',
            n=1,
        )

    # inc1 / dec1 / if_flags / if / if0 / if1 / cmp on one hex (cell `hi` of x)
    for n in (1, 2):
        hi = n - 1
        X = cell('x', hi)
        x_in = {'x': H(n, 'in')}
        gx = lambda v, hi=hi: geth(v['x'], hi)  # noqa: E731
        T.add(
            'hex.inc1',
            f'hex.inc1 {X}, l0, l1',
            {'x': H(n)},
            (lambda v, hi=hi: {'x': seth(v['x'], hi, geth(v['x'], hi) + 1)}),
            'hex++  (if overflows - jump to carry1; else jump to carry0)',
            n=n,
            tablefree=True,
            exits=('l0', 'l1'),
            exit_=(lambda v, gx=gx: 'l1' if gx(v) == 15 else 'l0'),
        )
        T.add(
            'hex.dec1',
            f'hex.dec1 {X}, l0, l1',
            {'x': H(n)},
            (lambda v, hi=hi: {'x': seth(v['x'], hi, geth(v['x'], hi) - 1)}),
            'hex--  (if underflows - jump to borrow1; else jump to borrow0)',
            n=n,
            tablefree=True,
            exits=('l0', 'l1'),
            exit_=(lambda v, gx=gx: 'l1' if gx(v) == 0 else 'l0'),
        )
        flagset = [0, 0xFFFF, 0xFFFE, 0xFF00, 0x0001, 0x8000] + [T.rng.randrange(1 << 16) for _ in range(2)]
        for flags in flagset if n == 1 else flagset[-2:]:
            T.add(
                f'hex.if_flags[{flags:#06x}]',
                f'hex.if_flags {X}, {flags}, l0, l1',
                x_in,
                lambda v: {},
                'if flags&(1<<hex) is true: jump to l1; else jump to l0',
                n=n,
                tablefree=True,
                exits=('l0', 'l1'),
                exit_=(lambda v, gx=gx, flags=flags: 'l1' if (flags >> gx(v)) & 1 else 'l0'),
            )
        T.add(
            'hex.if',
            f'hex.if {X}, l0, l1',
            x_in,
            lambda v: {},
            'if hex==0 goto l0, else goto l1',
            n=n,
            tablefree=True,
            exits=('l0', 'l1'),
            exit_=(lambda v, gx=gx: 'l0' if gx(v) == 0 else 'l1'),
        )
        T.add(
            'hex.if0',
            f'hex.if0 {X}, l0',
            x_in,
            lambda v: {},
            'if hex==0 goto l0, else continue',
            n=n,
            tablefree=True,
            exits=('l0',),
            exit_=(lambda v, gx=gx: 'l0' if gx(v) == 0 else None),
        )
        T.add(
            'hex.if1',
            f'hex.if1 {X}, l1',
            x_in,
            lambda v: {},
            'if hex!=0 goto l1, else continue',
            n=n,
            tablefree=True,
            exits=('l1',),
            exit_=(lambda v, gx=gx: 'l1' if gx(v) != 0 else None),
        )
        xy_in = {'x': H(n, 'in'), 'y': H(n, 'in')}
        cmp3 = lambda v, gx=gx: 'l0' if gx(v) < (v['y'] & 15) else ('l1' if gx(v) == (v['y'] & 15) else 'l2')  # noqa: E731
        T.add(
            'hex.cmp',
            f'hex.cmp {X}, y, l0, l1, l2',
            xy_in,
            lambda v: {},
            'if a < b: goto lt; if a == b: goto eq; if a > b: goto gt',
            n=n,
            exits=('l0', 'l1', 'l2'),
            exit_=cmp3,
        )
        T.add(
            'hex.cmp.cmp_eq_next',
            f'hex.cmp.cmp_eq_next {X}, y, l0, l2',
            xy_in,
            lambda v: {},
            'compares a to b; if equal just continue  [else lt / gt as hex.cmp]',
            n=n,
            exits=('l0', 'l2'),
            exit_=(lambda v, cmp3=cmp3: None if cmp3(v) == 'l1' else cmp3(v)),
        )
        # the one-bit shift steps: "{next(1bit),dst(1hex)} = dst << 1", called so that next is "already shifted":
        # its receiving bit is 0 (that is the only state of `next` the note allows)
        T.add(
            'hex.shifts.shl_bit_once',
            f'hex.shifts.shl_bit_once {X}, y',
            {'x': H(n), 'y': H(n)},
            (lambda v, hi=hi: {'x': seth(v['x'], hi, geth(v['x'], hi) << 1), 'y': v['y'] | (geth(v['x'], hi) >> 3)}),
            '{next(1bit),dst(1hex)} = dst << 1   @note called in reverse order (so that the "next" is already shifted)',
            n=n,
            tablefree=True,
            requires=lambda v: v['y'] & 1 == 0,
        )
        T.add(
            'hex.shifts.shr_bit_once',
            f'hex.shifts.shr_bit_once {X}, y',
            {'x': H(n), 'y': H(n)},
            (lambda v, hi=hi: {'x': seth(v['x'], hi, geth(v['x'], hi) >> 1), 'y': v['y'] | ((geth(v['x'], hi) & 1) << 3)}),
            '{next(1bit),dst(1hex)} = dst >> 1   @note called in a regular order (so that the "next" is already shifted)',
            n=n,
            tablefree=True,
            requires=lambda v: v['y'] & 8 == 0,
        )

    # ======================================================================== vector forms
    for n in ns:
        s = M(n)
        x_ = {'x': H(n)}
        xy = {'x': H(n), 'y': H(n, 'in')}
        xy_in = {'x': H(n, 'in'), 'y': H(n, 'in')}
        tf = dict(n=n, tablefree=True)
        big = n >= 4

        # ---- memory
        T.add('hex.zero n', f'hex.zero {n}, x', x_, lambda v: {'x': 0}, 'x[:n] = 0', **tf)
        T.add('hex.mov n', f'hex.mov {n}, x, y', xy, lambda v: {'x': v['y']}, 'dst[:n] = src[:n]', **tf)
        T.add(
            'hex.mov n(same)', f'hex.mov {n}, x, x', x_, lambda v: {}, 'dst[:n] = src[:n]  [safe if they are the exact same address]', **tf
        )
        T.add(
            'hex.swap n',
            f'hex.swap {n}, x, y',
            {'x': H(n), 'y': H(n)},
            lambda v: {'x': v['y'], 'y': v['x']},
            'hex1[:n], hex2[:n] = hex2[:n], hex1[:n]',
            **tf,
        )
        T.add('hex.swap n(same)', f'hex.swap {n}, x, x', x_, lambda v: {}, 'hex1[:n], hex2[:n] = hex2[:n], hex1[:n]  [same address]', **tf)
        for val in T.consts(n, (0xA5A5A5A5,)):
            T.add(
                f'hex.xor_by n[{val:#x}]',
                f'hex.xor_by {n}, x, {val}',
                x_,
                (lambda v, val=val: {'x': v['x'] ^ val}),
                'hex[:n] ^= val (constant)',
                **tf,
            )
            T.add(f'hex.set n[{val:#x}]', f'hex.set {n}, x, {val}', x_, (lambda v, val=val: {'x': val}), 'hex[:n] = val (constant)', **tf)
            T.add(
                f'hex.vec n, value[{val:#x}]',
                f'hex.mov {n}, x, @U_c\n  ;@U_e\n  @U_c: hex.vec {n}, {val}\n  @U_e:',
                x_,
                (lambda v, val=val: {'x': val}),
                'hex.vec n, value: rep(n, i) .hex (value>>(4*i))&0xf  [read back through hex.mov]',
                **tf,
            )

        # ---- logic
        T.add('hex.xor n', f'hex.xor {n}, x, y', xy, lambda v: {'x': v['x'] ^ v['y']}, 'dst[:n] ^= src[:n]', **tf)
        T.add(
            'hex.xor_zero n',
            f'hex.xor_zero {n}, x, y',
            {'x': H(n), 'y': H(n)},
            lambda v: {'x': v['x'] ^ v['y'], 'y': 0},
            'dst[:n] ^= src[:n] ; src[:n] = 0',
            **tf,
        )
        T.add('hex.not n', f'hex.not {n}, x', x_, (lambda v, s=s: {'x': s - 1 - v['x']}), 'x[:n] = !x[:n]', **tf)
        T.add('hex.or n', f'hex.or {n}, x, y', xy, lambda v: {'x': v['x'] | v['y']}, 'dst[:n] |= src[:n]', n=n)
        T.add('hex.and n', f'hex.and {n}, x, y', xy, lambda v: {'x': v['x'] & v['y']}, 'dst[:n] &= src[:n]', n=n)

        # ---- arithmetic
        T.add('hex.add n', f'hex.add {n}, x, y', xy, lambda v: {'x': v['x'] + v['y']}, 'dst[:n] += src[:n]', n=n)
        T.add('hex.sub n', f'hex.sub {n}, x, y', xy, lambda v: {'x': v['x'] - v['y']}, 'dst[:n] -= src[:n]', n=n)
        shapes = sorted({(sn, sh) for sn in range(1, n + 1) for sh in range(0, n - sn + 1)})
        if len(shapes) > 6:
            keep = [(1, 0), (n, 0), (1, n - 1), (n - 1, 1), (1, 1)]
            shapes = sorted(set(keep + T.rng.sample(shapes, 3)))
        for sn, sh in shapes:
            T.add(
                f'hex.add_shifted[{sn},{sh}]',
                f'hex.add_shifted {n}, {sn}, x, y, {sh}',
                xy,
                (lambda v, sn=sn, sh=sh: {'x': v['x'] + (low(v['y'], sn) << (4 * sh))}),
                'dst[:dst_n] += src[:src_n] << (4*hex_shift)',
                n=n,
            )
            T.add(
                f'hex.sub_shifted[{sn},{sh}]',
                f'hex.sub_shifted {n}, {sn}, x, y, {sh}',
                xy,
                (lambda v, sn=sn, sh=sh: {'x': v['x'] - (low(v['y'], sn) << (4 * sh))}),
                'dst[:dst_n] -= src[:src_n] << (4*hex_shift)',
                n=n,
            )
        for const in T.consts(n, (0x10, 0xF0, 0x100, 0x7FFFFFFF, 0x80)):
            T.add(
                f'hex.add_constant[{const:#x}]',
                f'hex.add_constant {n}, x, {const}',
                x_,
                (lambda v, const=const: {'x': v['x'] + const}),
                'dst[:n] += const',
                n=n,
            )
            if True:  # (constant 0 did not assemble on the pinned tree - fixed in /repo eda7b6d; now under the same contract)
                T.add(
                    f'hex.sub_constant[{const:#x}]',
                    f'hex.sub_constant {n}, x, {const}',
                    x_,
                    (lambda v, const=const: {'x': v['x'] - const}),
                    'dst[:dst_n] -= const',
                    n=n,
                )
        if n >= 2:
            const, sh = T.rng.randrange(1, M(n - 1)), 1
            T.add(
                f'hex.add.add_hex_shifted_constant[{const:#x},{sh}]',
                f'hex.add.add_hex_shifted_constant {n}, x, {const}, {sh}',
                x_,
                (lambda v, const=const, sh=sh: {'x': v['x'] + (const << (4 * sh))}),
                'dst[:dst_n] += const << (4*hex_shift)',
                n=n,
            )
            T.add(
                f'hex.sub.sub_hex_shifted_constant[{const:#x},{sh}]',
                f'hex.sub.sub_hex_shifted_constant {n}, x, {const}, {sh}',
                x_,
                (lambda v, const=const, sh=sh: {'x': v['x'] - (const << (4 * sh))}),
                'dst[:dst_n] -= const << (4*hex_shift)',
                n=n,
            )
        T.add(
            'hex.add_count_bits',
            f'hex.add_count_bits {n}, x, y',
            xy,
            lambda v: {'x': v['x'] + popcount(v['y'] & 15)},
            'dst[:n] += src.#on-bits (between 0->4)   [dst is hex.vec n, src is hex]',
            **tf,
        )
        sm = small_n(n)
        T.add(
            'hex.count_bits',
            f'hex.count_bits {n}, y, x',
            {'x': H(n, 'in'), 'y': H(n)},
            (lambda v, sm=sm: {'y': put_low(v['y'], sm, popcount(v['x']))}),
            'dst[:small_n] = x[:n].#on-bits   [small_n = ((#(n*4))+3)/4]',
            **tf,
        )
        T.add('hex.inc n', f'hex.inc {n}, x', x_, lambda v: {'x': v['x'] + 1}, 'hex[:n]++', **tf)
        T.add('hex.dec n', f'hex.dec {n}, x', x_, lambda v: {'x': v['x'] - 1}, 'hex[:n]--', **tf)
        T.add('hex.neg n', f'hex.neg {n}, x', x_, lambda v: {'x': -v['x']}, 'x[:n] = -x[:n]', **tf)
        T.add(
            'hex.abs n',
            f'hex.abs {n}, x',
            x_,
            (lambda v, n=n: {'x': abs(sgn(v['x'], n))}),
            "x[:n] = |x[:n]|    (two's complement; the minimal value -2^(4n-1) stays itself)",
            **tf,
        )
        for sg in sorted({1, n, max(1, n - 1), max(1, n // 2)}):
            T.add(
                f'hex.sign_extend[{sg}]',
                f'hex.sign_extend {n}, {sg}, x',
                x_,
                (lambda v, sg=sg: {'x': sgn(low(v['x'], sg), sg)}),
                'sign-extends hex[:signed_n] into hex[:full_n]',
                **tf,
            )

        # ---- shifts
        T.add('hex.shl_bit', f'hex.shl_bit {n}, x', x_, lambda v: {'x': v['x'] << 1}, 'dst[:n] <<= 1', **tf)
        T.add('hex.shr_bit', f'hex.shr_bit {n}, x', x_, lambda v: {'x': v['x'] >> 1}, 'dst[:n] >>= 1', **tf)
        T.add('hex.shl_hex', f'hex.shl_hex {n}, x', x_, lambda v: {'x': v['x'] << 4}, 'dst[:n] <<= 4', **tf)
        T.add('hex.shr_hex', f'hex.shr_hex {n}, x', x_, lambda v: {'x': v['x'] >> 4}, 'dst[:n] >>= 4', **tf)
        for times in sorted({0, 1, n, n - 1, n // 2}):
            T.add(
                f'hex.shl_hex[{times}]',
                f'hex.shl_hex {n}, {times}, x',
                x_,
                (lambda v, times=times: {'x': v['x'] << (4 * times)}),
                'dst[:n] <<= 4*times   @Assumes: times <= n',
                **tf,
            )
            T.add(
                f'hex.shr_hex[{times}]',
                f'hex.shr_hex {n}, {times}, x',
                x_,
                (lambda v, times=times: {'x': v['x'] >> (4 * times)}),
                'dst[:n] >>= 4*times   @Assumes: times <= n',
                **tf,
            )

        # ---- conditional jumps
        x_in = {'x': H(n, 'in')}
        T.add(
            'hex.if n',
            f'hex.if {n}, x, l0, l1',
            x_in,
            lambda v: {},
            'if hex[:n]==0 goto l0, else goto l1',
            exits=('l0', 'l1'),
            exit_=lambda v: 'l0' if v['x'] == 0 else 'l1',
            **tf,
        )
        T.add(
            'hex.if0 n',
            f'hex.if0 {n}, x, l0',
            x_in,
            lambda v: {},
            'if hex[:n]==0 goto l0, else continue',
            exits=('l0',),
            exit_=lambda v: 'l0' if v['x'] == 0 else None,
            **tf,
        )
        T.add(
            'hex.if1 n',
            f'hex.if1 {n}, x, l1',
            x_in,
            lambda v: {},
            'if hex[:n]!=0 goto l1, else continue',
            exits=('l1',),
            exit_=lambda v: 'l1' if v['x'] != 0 else None,
            **tf,
        )
        T.add(
            'hex.sign',
            f'hex.sign {n}, x, l0, l1',
            x_in,
            lambda v: {},
            'if number[:n] < 0 jump to neg, else jump to zpos (Zero POSitive)',
            exits=('l0', 'l1'),
            exit_=(lambda v, n=n: 'l0' if sgn(v['x'], n) < 0 else 'l1'),
            **tf,
        )
        cnt = 6000 if thorough else 400
        T.add(
            'hex.cmp n',
            f'hex.cmp {n}, x, y, l0, l1, l2',
            xy_in,
            lambda v: {},
            'if a[:n] < b[:n]: goto lt; if a[:n] == b[:n]: goto eq; if a[:n] > b[:n]: goto gt',
            n=n,
            exits=('l0', 'l1', 'l2'),
            exit_=lambda v: 'l0' if v['x'] < v['y'] else ('l1' if v['x'] == v['y'] else 'l2'),
            domain=near_pairs(n, 'x', 'y', cnt, {}) if n >= 2 else None,
        )
        T.add(
            'hex.scmp',
            f'hex.scmp {n}, x, y, l0, l1, l2',
            xy_in,
            lambda v: {},
            "like bit.cmp but SIGNED (two's complement): jumps to lt if a<b, eq if a==b, gt if a>b; a,b are NOT modified",
            n=n,
            exits=('l0', 'l1', 'l2'),
            exit_=(lambda v, n=n: 'l0' if sgn(v['x'], n) < sgn(v['y'], n) else ('l1' if v['x'] == v['y'] else 'l2')),
            domain=near_pairs(n, 'x', 'y', cnt, {}) if n >= 2 else None,
            frame_exempt=(f'hex.scmp/ba/hex/{n}', f'hex.scmp/bb/hex/{n}'),
        )
        xyz_min = {'x': H(n, 'out'), 'y': H(n, 'in'), 'z': H(n, 'in')}
        T.add(
            'hex.min',
            f'hex.min {n}, x, y, z',
            xyz_min,
            lambda v: {'x': min(v['y'], v['z'])},
            'dst[:n] = min(a[:n], b[:n])   (unsigned)   @Assumes dst is distinct from a and b',
            n=n,
        )
        T.add(
            'hex.max',
            f'hex.max {n}, x, y, z',
            xyz_min,
            lambda v: {'x': max(v['y'], v['z'])},
            'dst[:n] = max(a[:n], b[:n])   (unsigned)   @Assumes dst is distinct from a and b',
            n=n,
        )
        if n >= 2:
            T.add(
                'hex.min(near)',
                f'hex.min {n}, x, y, z',
                xyz_min,
                lambda v: {'x': min(v['y'], v['z'])},
                'dst[:n] = min(a[:n], b[:n])   (unsigned)',
                n=n,
                domain=near_pairs(n, 'y', 'z', cnt // 2, {'x': s}),
            )
            T.add(
                'hex.max(near)',
                f'hex.max {n}, x, y, z',
                xyz_min,
                lambda v: {'x': max(v['y'], v['z'])},
                'dst[:n] = max(a[:n], b[:n])   (unsigned)',
                n=n,
                domain=near_pairs(n, 'y', 'z', cnt // 2, {'x': s}),
            )

        # ---- multiplication
        T.add(
            'hex.add_mul n',
            f'hex.add_mul {n}, x, y, z',
            {'x': H(n), 'y': H(n, 'in'), 'z': H(n, 'in')},
            lambda v: {'x': v['x'] + v['y'] * (v['z'] & 15)},
            'res[n] += a[n] * b[1]',
            n=n,
        )
        T.add('hex.mul10', f'hex.mul10 {n}, x', x_, lambda v: {'x': v['x'] * 10}, 'x[n] *= 10', n=n)
        T.add(
            'hex.mul',
            f'hex.mul {n}, x, y, z',
            {'x': H(n, 'out'), 'y': H(n, 'in'), 'z': H(n, 'in')},
            lambda v: {'x': v['y'] * v['z']},
            'res[:n] = a[:n] * b[:n]',
            n=n,
            frame_exempt=mul_exempt(n),
            max_ops=DIV_OPS * 4,
        )

        # ---- division: q = x[:n], r = y[:nb], a = z[:n], b = u[:nb]
        for nb in sorted({1, n, max(1, n // 2)}) if not big else sorted({1, n // 2}):
            qrab = {'x': H(n, 'out'), 'y': H(n, 'out'), 'z': H(n, 'in'), 'u': H(n, 'in')}

            def div_post(v: Vals, nb: int = nb) -> Vals:
                b = low(v['u'], nb)
                return {} if b == 0 else {'x': v['z'] // b, 'y': put_low(v['y'], nb, v['z'] % b)}

            T.add(
                f'hex.div[nb={nb}]',
                f'hex.div {n}, {nb}, x, y, z, u, l0',
                qrab,
                div_post,
                'if b==0: goto div0 ; q = a/b (unsigned division) ; r = a%b (unsigned modulo)   [q,a are hex[:n], r,b are hex[:nb]]',
                n=n,
                exits=('l0',),
                exit_=(lambda v, nb=nb: 'l0' if low(v['u'], nb) == 0 else None),
                frame_exempt=div_exempt(n, nb),
                max_ops=DIV_OPS * n,
            )
            for opt in (0, 1, 2):

                def idiv_post(v: Vals, nb: int = nb, n: int = n, opt: int = opt) -> Vals:
                    b = low(v['u'], nb)
                    if b == 0:
                        return {}
                    q, r = idiv_model(v['z'], b, n, nb, opt)
                    return {'x': q, 'y': put_low(v['y'], nb, r)}

                def inexact(v: Vals, nb: int = nb, n: int = n) -> bool:
                    b = low(v['u'], nb)
                    return b == 0 or sgn(v['z'], n) % sgn(b, nb) != 0

                idiv_doc = 'if b==0: goto div0 ; q = a/b (signed) ; r = a%b, rem_opt 0: sign(r)==sign(b), 1: sign(r)==sign(a), 2: r always positive ; a == q*b + r'
                # the operand domain is split in two contracts with the SAME documented formula: b does not divide a
                # (or b == 0) here, b divides a in `hex.idiv.exact` below (rem_opt 1 needs no split)
                T.add(
                    f'hex.idiv[nb={nb},rem_opt={opt}]',
                    f'hex.idiv {n}, {nb}, x, y, z, u, l0, {opt}',
                    qrab,
                    idiv_post,
                    idiv_doc + ('' if opt == 1 else '   [operands where b does not divide a, or b == 0]'),
                    n=n,
                    exits=('l0',),
                    exit_=(lambda v, nb=nb: 'l0' if low(v['u'], nb) == 0 else None),
                    frame_exempt=idiv_exempt(n, nb),
                    max_ops=DIV_OPS * n,
                    requires=None if opt == 1 else inexact,
                )
                if opt != 1 and n <= 3:
                    T.add(
                        f'hex.idiv.exact n={n} nb={nb} rem_opt={opt}',
                        f'hex.idiv {n}, {nb}, x, y, z, u, l0, {opt}',
                        qrab,
                        idiv_post,
                        idiv_doc + '   [operands where b divides a]',
                        n=n,
                        exits=('l0',),
                        exit_=lambda v: None,
                        frame_exempt=idiv_exempt(n, nb),
                        max_ops=DIV_OPS * n,
                        domain=exact_division_domain(n, nb, 300 if not thorough else 2000),
                    )
        if n <= 2:
            T.add(
                'hex.idiv[rem_opt=3]',
                f'hex.idiv {n}, {n}, x, y, z, u, l0, 3',
                {'x': H(n, 'out'), 'y': H(n, 'out'), 'z': H(n, 'in'), 'u': H(n, 'in')},
                lambda v: {},
                'On any other rem_opt value, will jump to "div0"',
                n=n,
                exits=('l0',),
                exit_=lambda v: 'l0',
                frame_exempt=idiv_exempt(n, n),
            )

    # divisor longer than the dividend (nb > n): own variables, not composable with the x, y, z, u family
    T.add(
        'hex.div[n=1,nb=2]',
        'hex.div 1, 2, q1, r2, a1, b2, l0',
        {'q1': H(1, 'out'), 'r2': H(2, 'out'), 'a1': H(1, 'in'), 'b2': H(2, 'in')},
        lambda v: {} if v['b2'] == 0 else {'q1': v['a1'] // v['b2'], 'r2': v['a1'] % v['b2']},
        'if b==0: goto div0 ; q = a/b ; r = a%b   [q,a are hex[:n], r,b are hex[:nb]]',
        n=1,
        exits=('l0',),
        exit_=lambda v: 'l0' if v['b2'] == 0 else None,
        frame_exempt=div_exempt(1, 2),
    )

    # operands that are THE SAME variable, where the formula is meaningful and the documentation sets no aliasing rule
    for n in (1, 2):
        x_ = {'x': H(n)}
        T.add('hex.xor n(same)', f'hex.xor {n}, x, x', x_, lambda v: {'x': 0}, 'dst[:n] ^= src[:n]   [dst is src]', n=n, tablefree=True)
        T.add('hex.add n(same)', f'hex.add {n}, x, x', x_, lambda v: {'x': 2 * v['x']}, 'dst[:n] += src[:n]   [dst is src]', n=n)
        T.add('hex.sub n(same)', f'hex.sub {n}, x, x', x_, lambda v: {'x': 0}, 'dst[:n] -= src[:n]   [dst is src]', n=n)
        T.add('hex.or n(same)', f'hex.or {n}, x, x', x_, lambda v: {}, 'dst[:n] |= src[:n]   [dst is src]', n=n)
        T.add('hex.and n(same)', f'hex.and {n}, x, x', x_, lambda v: {}, 'dst[:n] &= src[:n]   [dst is src]', n=n)

    # exhaustive two-operand runs at n = 2 (all 65536 pairs) for the table-driven vector macros: thorough only
    if thorough:
        ex2 = exhaustive(('x', 'y'), (256, 256), {})
        xy = {'x': H(2), 'y': H(2, 'in')}
        xy_in = {'x': H(2, 'in'), 'y': H(2, 'in')}
        w1 = dict(n=2, widths=(64,))
        T.add('hex.add n(all pairs)', 'hex.add 2, x, y', xy, lambda v: {'x': v['x'] + v['y']}, 'dst[:n] += src[:n]', domain=ex2, **w1)
        T.add(
            'hex.sub n(all pairs)',
            'hex.sub 2, x, y',
            xy,
            lambda v: {'x': v['x'] - v['y']},
            'dst[:n] -= src[:n]',
            domain=ex2,
            widths=(32,),
            n=2,
        )
        T.add('hex.or n(all pairs)', 'hex.or 2, x, y', xy, lambda v: {'x': v['x'] | v['y']}, 'dst[:n] |= src[:n]', domain=ex2, **w1)
        T.add(
            'hex.and n(all pairs)',
            'hex.and 2, x, y',
            xy,
            lambda v: {'x': v['x'] & v['y']},
            'dst[:n] &= src[:n]',
            domain=ex2,
            widths=(32,),
            n=2,
        )
        T.add('hex.xor n(all pairs)', 'hex.xor 2, x, y', xy, lambda v: {'x': v['x'] ^ v['y']}, 'dst[:n] ^= src[:n]', domain=ex2, **w1)
        T.add(
            'hex.cmp n(all pairs)',
            'hex.cmp 2, x, y, l0, l1, l2',
            xy_in,
            lambda v: {},
            'a[:n] < / == / > b[:n]: goto lt / eq / gt',
            domain=ex2,
            exits=('l0', 'l1', 'l2'),
            exit_=lambda v: 'l0' if v['x'] < v['y'] else ('l1' if v['x'] == v['y'] else 'l2'),
            **w1,
        )
        T.add(
            'hex.scmp(all pairs)',
            'hex.scmp 2, x, y, l0, l1, l2',
            xy_in,
            lambda v: {},
            'SIGNED: jumps to lt if a<b, eq if a==b, gt if a>b',
            domain=ex2,
            exits=('l0', 'l1', 'l2'),
            exit_=lambda v: 'l0' if sgn(v['x'], 2) < sgn(v['y'], 2) else ('l1' if v['x'] == v['y'] else 'l2'),
            frame_exempt=('hex.scmp/ba/hex/2', 'hex.scmp/bb/hex/2'),
            widths=(32,),
            n=2,
        )
        ex2yz = exhaustive(('y', 'z'), (256, 256), {'x': 256})
        xyz = {'x': H(2, 'out'), 'y': H(2, 'in'), 'z': H(2, 'in')}
        T.add(
            'hex.min(all pairs)',
            'hex.min 2, x, y, z',
            xyz,
            lambda v: {'x': min(v['y'], v['z'])},
            'dst[:n] = min(a[:n], b[:n])',
            domain=ex2yz,
            **w1,
        )
        T.add(
            'hex.max(all pairs)',
            'hex.max 2, x, y, z',
            xyz,
            lambda v: {'x': max(v['y'], v['z'])},
            'dst[:n] = max(a[:n], b[:n])',
            domain=ex2yz,
            widths=(32,),
            n=2,
        )
        T.add(
            'hex.mul(all pairs)',
            'hex.mul 2, x, y, z',
            xyz,
            lambda v: {'x': v['y'] * v['z']},
            'res[:n] = a[:n] * b[:n]',
            domain=ex2yz,
            frame_exempt=mul_exempt(2),
            **w1,
        )
        dd = exhaustive(('z', 'u'), (256, 256), {'x': 256, 'y': 256})
        qrab = {'x': H(2, 'out'), 'y': H(2, 'out'), 'z': H(2, 'in'), 'u': H(2, 'in')}
        T.add(
            'hex.div(all pairs)',
            'hex.div 2, 2, x, y, z, u, l0',
            qrab,
            lambda v: {} if v['u'] == 0 else {'x': v['z'] // v['u'], 'y': v['z'] % v['u']},
            'if b==0: goto div0 ; q = a/b ; r = a%b',
            domain=dd,
            exits=('l0',),
            exit_=lambda v: 'l0' if v['u'] == 0 else None,
            frame_exempt=div_exempt(2, 2),
            **w1,
        )
    return T.cs


# ---------------------------------------------------------------------------------------------- table obligations


def mul_table_domain(zs: Sequence[int]) -> Callable[[random.Random], List[Vals]]:
    """hex.add_mul 3, x, y, z: for b = z and every carry c that hex 0 can hand to hex 1 (one representative x0, y0
    per (b, c)), ALL (res, a) = (x1, y1) at hex 1; hex 2 (random x2, y2) shows the carry hex 1 hands on."""

    def dom(rng: random.Random) -> List[Vals]:
        ts: List[Vals] = []
        for z in zs:
            reps: Dict[int, Tuple[int, int]] = {}
            for x0 in range(16):
                for y0 in range(16):
                    reps.setdefault((x0 + y0 * z) >> 4, (x0, y0))
            for c, (x0, y0) in sorted(reps.items()):
                for x1 in range(16):
                    for y1 in range(16):
                        ts.append(
                            {
                                'x': x0 | x1 << 4 | rng.randrange(16) << 8,
                                'y': y0 | y1 << 4 | rng.randrange(16) << 8,
                                'z': z | rng.randrange(256) << 4,
                            }
                        )
        rng.shuffle(ts)
        return ts

    dom.all_tuples = True  # type: ignore[attr-defined]  # all REACHABLE table states (see the docstring)
    return dom


def mul_table_domain_size(zs: Sequence[int]) -> int:
    return sum(len({(x0 + y0 * z) >> 4 for x0 in range(16) for y0 in range(16)}) * 256 for z in zs)


def table_contracts(tier: str, seed: int = 0) -> Tuple[List[MacroContract], List[Tuple[str, str, int]]]:
    """The lookup tables built by hex.init (hex.tables.init_all: or 256, and 256, cmp 256, add 512, sub 512 entries,
    mul: switch / set_carry_0 / set_carry_1 / clean / add_carry tables), each driven over its COMPLETE operand
    domain, including the carry-in state, by the single-hex macro that uses it.  Returns the contracts and, for
    the evidence, (table, exact domain, number of tuples)."""
    cs: List[MacroContract] = []
    doms: List[Tuple[str, str, int]] = []
    W = (64, 32)
    xy = {'x': H(1), 'y': H(1, 'in')}
    ex = exhaustive(('x', 'y'), (16, 16), {})
    for op, f in (('or', lambda a, b: a | b), ('and', lambda a, b: a & b)):
        cs.append(
            MacroContract(
                f'table:hex.{op}',
                f'hex.{op} x, y',
                xy,
                (lambda v, f=f: {'x': f(v['x'], v['y'])}),
                widths=W,
                doc=f'dst {"|" if op == "or" else "&"}= src',
                domain=ex,
            )
        )
        doms.append((f'hex.{op}.init', 'all (dst, src) in [0,16)^2 = all 256 entries', 256))
    for op, f in (('add', lambda a, b, c: a + b + c), ('sub', lambda a, b, c: a - b - c)):
        for cin, pre in ((0, f'hex.{op}.clear_carry'), (1, f'hex.{op}.set_carry')):
            cs.append(
                MacroContract(
                    f'table:hex.{op}(carry-in {cin})',
                    f'{pre}\n  hex.{op} x, y\n  hex.{op}.clear_carry l0, l1',
                    xy,
                    (lambda v, f=f, cin=cin: {'x': f(v['x'], v['y'], cin) % 16}),
                    exits=('l0', 'l1'),
                    exit_=(lambda v, f=f, cin=cin: 'l0' if 0 <= f(v['x'], v['y'], cin) <= 15 else 'l1'),
                    widths=W,
                    doc=f'dst {"+" if op == "add" else "-"}= src, relies on the carry and updates it; clear_carry c0, c1 jumps to c1 iff the carry was set',
                    domain=ex,
                )
            )
        doms.append(
            (
                f'hex.{op}.init',
                'all (carry-in, src, dst) in {0,1} x [0,16)^2 = all 512 entries; result hex and carry-out both observed',
                512,
            )
        )
    cs.append(
        MacroContract(
            'table:hex.cmp',
            'hex.cmp x, y, l0, l1, l2',
            {'x': H(1, 'in'), 'y': H(1, 'in')},
            lambda v: {},
            exits=('l0', 'l1', 'l2'),
            exit_=lambda v: 'l0' if v['x'] < v['y'] else ('l1' if v['x'] == v['y'] else 'l2'),
            widths=W,
            doc='a < b: goto lt; a == b: goto eq; a > b: goto gt',
            domain=ex,
        )
    )
    doms.append(('hex.cmp.init', 'all (a, b) in [0,16)^2 = all 256 entries', 256))
    groups = [(0, 1, 2, 3, 4, 5, 6), (7, 8, 9, 10), (11, 12, 13), (14, 15)]
    total = 0
    for g in groups:
        cs.append(
            MacroContract(
                f'table:hex.add_mul(b in {g[0]}..{g[-1]})',
                'hex.add_mul 3, x, y, z',
                {'x': H(3), 'y': H(3, 'in'), 'z': H(3, 'in')},
                lambda v: {'x': v['x'] + v['y'] * (v['z'] & 15)},
                widths=(64,) if tier != 'thorough' else W,
                doc='res[n] += a[n] * b[1]',
                domain=mul_table_domain(g),
            )
        )
        total += mul_table_domain_size(g)
    doms.append(
        (
            'hex.mul.init',
            'hex 1 of hex.add_mul 3: all (b, carry-in, res, a) with b in [0,16), carry-in every value hex 0 can produce for that b '
            '(0..b), res and a in [0,16)^2; the product-low, product-high(+1), add-carry and clean tables are indexed by exactly these; '
            'carry-out observed through hex 2',
            total,
        )
    )
    return cs, doms


# ---------------------------------------------------------------------------------------------- compositions


def composable(cs: Sequence[MacroContract], n: int) -> List[MacroContract]:
    """one list of composable applications on the shared variables x, y, z, u (hex.vec n each) and t:
    the non-jumping contracts as they are, the jumping ones in recorded form"""
    out: List[MacroContract] = []
    seen = set()
    for c in cs:
        shapes = {(nm, v.kind, v.n) for nm, v in c.vars.items()}
        if any(nm not in ('x', 'y', 'z', 'u') or kind != 'hex' or k != n for nm, kind, k in shapes):
            continue
        if c.domain is not None and not c.exits:
            continue
        if (c.name, c.call) in seen or '(all pairs)' in c.name or '(near)' in c.name or c.name.startswith('hex.idiv.exact'):
            continue
        seen.add((c.name, c.call))
        out.append(recorded(c) if c.exits else c)
    return out


NOT_UNDER_CONTRACT = {
    'hex.hex / hex.vec n (no value), hex.init, hex.tables.init_shared / init_all, hex.{or,and,add,sub,cmp,mul}.init': 'declarations and table construction: '
    'no destination formula; the tables are covered entry by entry in the table section',
    'hex.add_mul res, x (single hex)': 'documented in terms of the hidden cells hex.mul.dst / hex.mul.add_carry_dst; exercised through hex.add_mul n '
    '(n = 1 is exactly its body between the documented set-up lines) and the mul-table section',
    'hex.mul.clear_carry, hex.tables.jump_to_table_entry, hex.tables.clean_table_entry__table, hex.inc.step, hex.dec.step, '
    'hex.add.add_constant_with_leading_zeros, hex.sub.sub_constant_with_leading_zeros, hex.add/sub.*_hex_shifted_constant (5 arguments)': 'undocumented or '
    'internal plumbing of macros that are under contract (every one of them is executed inside those)',
    'hex.shl_hex / hex.shr_hex with times > n': 'excluded by the documentation (@Assumes: times <= n)',
    'hex.min / hex.max with dst aliasing a or b, hex.add_count_bits with dst aliasing src': 'excluded by the documentation (@Assumes)',
}
