"""
Contracts of the bit-namespace data macros (C05), written from the documentation block above each `def` in
/repo/flipjump/stl/bit/{memory,logics,cond_jumps,shifts,math,mul,div}.fj.

`contracts(tier)` is the table.  Variables are `Var('bit', n)`; the names x, y (operands), q, r (division results),
f, g (flags of the branch observers) are shared by all contracts of one vector length, so that any two contracts of the
same n compose on the same cells (`covering_compositions`, `stl.random_compositions`).

Three things the generic harness of bounded/stl.py does not do are done by `BitHarness` (installed with `install()`):

  * w = 16: `stl.startup_and_init_all` does not assemble at 16 bits (the hex.mul table does not fit: "Not enough space
    with the 16-bits memory-width"), and the bit macros need none of the tables -> the w = 16 harness starts with
    `stl.startup`; w = 64 / 32 keep `stl.startup_and_init_all`, so a bit macro disturbing a table or a pointer global
    shows in the frame.
  * frame: the bit macros keep PRIVATE bit cells inside their own expansion (`carry: .bit`, `_src`, `temp_bit`, `twice`,
    `res`, `Q`, `R`, `negative_a` ...) and leave them dirty - those are not "other variables" (no label reaches them from
    outside).  Inside the footprint of the macro application under test ([again, done)) the DATA bit of an op's jump word
    (where a `.bit` keeps its value) is therefore exempt; every other bit of the footprint (the code, the wflip targets,
    the branch pointers) and every word outside it must still be bit-identical.  A private cell that leaks into the next
    execution is still seen: the same assembled instance is re-executed for every operand tuple.
  * helper macros (`c05_if`, `c05_if0`, `c05_if1`, `c05_cmp`): a jumping macro observed through a flag variable, so that
    the conditional jumps take part in sequential compositions too.

Operand domains are seeded with zlib.crc32 (not `hash`, which is salted per process): `pin_domains`.

Readings of the documentation that are not literal (reported as documentation remarks):
  * bit.inc1 / bit.add1 / bit.inc.inc1_with_carry0_jump: `{carry:dst}++`, `{carry:dst} += src`, with the file header
    "carry is both input and output" - read as {carry:dst} = dst + carry (+ src): the carry is an ADDEND and the carry-out.
  * bit.div.div_step: "R,D are bit[:n], while R,N are bits" - read as "Q,N are bits".

Found by this table on the unchanged tree, since fixed in /repo (the contracts are the documented ones, before and after):
  * bit.idiv / bit.idiv_loop with b == 0 and a < 0 negated q and r ("if b==0: goto end (do nothing)")  - ea34c96
  * bit.mul10 1, x cleared the cell after x (`.shl 1, 2, x` against shl's own times <= n)               - d8e5be1
  * comments: bit.neg said `x[:n]--` (F10), bit.div10.cmp_sub_10 said `val > 10`                         - 5af2ecd
"""
from __future__ import annotations

import collections
import contextlib
import importlib
import io
import itertools
import os
import random
import tempfile
import zlib
from pathlib import Path
from typing import Callable, Dict, List, Optional, Sequence, Tuple

from bounded import stl
from bounded.stl import MacroContract, Var
from spec.machine import Machine

Vals = Dict[str, int]

HELPERS = """
def c05_if n, x, f @ l0, l1 {
    bit.if n, x, l0, l1
  l1:
    bit.not f
  l0:
}
def c05_if0 n, x, f @ l0 {
    bit.if0 n, x, l0
    bit.not f
  l0:
}
def c05_if1 n, x, f @ l1, end {
    bit.if1 n, x, l1
    ;end
  l1:
    bit.not f
  end:
}
def c05_cmp n, a, b, g @ lt, eq, gt {
    bit.cmp n, a, b, lt, eq, gt
  lt:
    bit.not g
    ;eq
  gt:
    bit.not g+dw
  eq:
}
"""


# --------------------------------------------------------------------------- harness


class BitHarness(stl.Harness):
    """see the module docstring: stl.startup at w=16, helper macros appended, private cells of the footprint exempt"""

    def __init__(self, c: MacroContract, w: int, td: Path):
        self.skipped = False
        try:
            self._build(c, w, td)
        except Exception as e:
            # 2^16 bits of memory hold ~2000 ops: the bigger macro applications do not exist at w = 16 (the assembler refuses)
            if w != 16 or 'Not enough space with the 16-bits memory-width' not in str(e):
                raise
            alt = next((x for x in c.widths if x != 16), None)
            if c.widths[0] == 16 and alt is not None:  # (never the case after order_widths; kept so that no contract goes unexecuted)
                _log(f'fallback\t{alt}\t{c.name}\t{c.call!r}')
                self._build(c, alt, td)
                self.source += f'// does not fit in 16 bits of memory: assembled and executed at w = {alt}\n'
            else:
                _log(f'skip\t16\t{c.name}\t{c.call!r}')
                self.skipped = True
                c.__dict__['_c05_skip'] = True  # read (and reset) by the contract's domain: no operand tuples for this width

    def _build(self, c: MacroContract, w: int, td: Path) -> None:
        self.c, self.w = c, w
        lines = ['stl.startup' if w < 32 else 'stl.startup_and_init_all', 'again:', '  ' + c.call, '  ;done']
        for k in c.exits:
            lines += [f'{k}:', '  ;done']
        lines += ['done:', '  stl.loop']
        for nm, v in c.vars.items():
            lines.append(f'{nm}: {"hex" if v.kind == "hex" else "bit"}.vec {v.n}')
        if c.extra_decl:
            lines.append(c.extra_decl)
        self.source = '\n'.join(lines) + '\n' + HELPERS
        flipjump = importlib.import_module('flipjump')
        reader = importlib.import_module('flipjump.fjm.fjm_reader')
        functions = importlib.import_module('flipjump.utils.functions')
        src = td / 'h.fj'
        src.write_text(self.source)
        out, dbg = td / 'h.fjm', td / 'h.fjd'
        with contextlib.redirect_stdout(io.StringIO()):
            flipjump.assemble([src], out, memory_width=w, debugging_file_path=dbg, print_time=False, warning_as_errors=False)
        rd = reader.Reader(out)
        self.labels = functions.load_debugging_labels(dbg)
        self.m = Machine(w, [(s.segment_start, s.segment_length) for s in rd.memory_segments], dict(rd.memory))
        self.addr = {nm: self._label(nm) for nm in list(c.vars) + ['again', 'done'] + list(c.exits)}
        self.out_bits: List[bool] = []
        self.inp_bits: List[bool] = []
        self.dbit = w.bit_length()
        self.m.last = collections.deque(maxlen=8)
        self._run_until({self.addr['again']}, 5_000_000)
        self._vw = self.var_words()
        self._lo, self._hi = self.addr['again'] // w, self.addr['done'] // w
        self._in_word = (3 * w + w.bit_length()) // w

    def run_once(self, vals: Vals) -> Dict[str, object]:
        """stl.Harness.run_once with (a) the private cells of the footprint exempt from the frame and (b) the frame computed
        by a symmetric difference of the two memory dicts (the per-execution overhead is what bounds the operand domains)"""
        c, m = self.c, self.m
        for nm, x in vals.items():
            self.poke(nm, x)
        self.out_bits = []
        inp = c.input_(vals) if c.input_ else b''
        self.inp_bits = [bool((inp[i // 8] >> (i % 8)) & 1) for i in range(8 * len(inp))]
        before = dict(m.mem)
        m.ip = self.addr['again']
        visited_exit = None
        stops = {self.addr[k]: k for k in c.exits}
        n0 = m.n
        res = None
        step, rd, wr = m.step, self._rd, self.out_bits.append
        for _ in range(c.max_ops):
            if visited_exit is None and m.ip in stops:
                visited_exit = stops[m.ip]
            res = step(rd, wr)
            if res is not None:
                break
        got = {nm: self.read(nm) for nm in c.vars}
        ok_halt = res is not None and res[0] == 'looping' and m.ip == self.addr['done']
        changed = []
        for a in {k for k, _v in before.items() ^ m.mem.items()}:
            diff = before.get(a, 0) ^ m.mem.get(a, 0)
            mask = self._vw.get(a, 0)
            if a == 0:
                mask |= 1  # `;x` is `0;x`: bit 0 of word 0 is the language's own scratch bit
            if self._lo <= a < self._hi and a % 2 == 1:
                mask |= 1 << self.dbit  # the value bit of a private `.bit` cell of the macro application under test
            if diff & ~mask and not (a == self._in_word and c.input_ is not None):
                changed.append(a)
        ob = self.out_bits
        out_bytes = bytes(sum((1 << j) for j in range(8) if ob[i + j]) for i in range(0, len(ob) - len(ob) % 8, 8))
        return dict(values=got, exit=visited_exit, halted=ok_halt, result=res, ops=m.n - n0, frame_broken=sorted(changed)[:4], output=out_bytes, out_bits=len(ob), input_left=len(self.inp_bits))


_LOG: Optional[str] = None


def _log(line: str) -> None:
    if _LOG is not None:
        with open(_LOG, 'a') as f:  # one short line per event: atomic enough for the 16 workers
            f.write(line + '\n')


def install() -> None:
    """check_contract instantiates `stl.Harness`: the workers are forked after this, so they all see BitHarness"""
    global _LOG
    fd, _LOG = tempfile.mkstemp(prefix='c05-widths-', suffix='.log')
    os.close(fd)
    stl.Harness = BitHarness  # type: ignore[misc]


def width_events() -> List[List[str]]:
    """[kind ('skip' | 'fallback'), width, contract name, call] for every (contract, w=16) that does not fit in 16 bits"""
    if _LOG is None or not os.path.exists(_LOG):
        return []
    with open(_LOG) as f:
        rows = sorted(ln.rstrip('\n').split('\t') for ln in f if ln.strip())
    os.unlink(_LOG)
    return rows


# --------------------------------------------------------------------------- domains


def _domain(c: MacroContract, rng: random.Random, limit: int) -> List[Vals]:
    """stl.default_domain with an explicit limit: exhaustive (shuffled) when the product of the operand ranges is
    <= limit, otherwise corners x corners + random tuples"""
    names = [nm for nm, v in c.vars.items() if v.role != 'out']
    sizes = [(16 ** c.vars[nm].n if c.vars[nm].kind == 'hex' else 2 ** c.vars[nm].n) for nm in names]
    total = 1
    for s in sizes:
        total *= s
    tuples: List[Vals] = []
    if total <= limit:
        for combo in itertools.product(*[range(s) for s in sizes]):
            tuples.append(dict(zip(names, combo)))
    else:
        corners = [sorted({0, 1 % s, s - 1, s // 2, (s // 2 - 1) % s}) for s in sizes]
        n_corner = 1
        for cr in corners:
            n_corner *= len(cr)
        if n_corner <= limit // 2:
            for combo in itertools.product(*corners):
                tuples.append(dict(zip(names, combo)))
        while len(tuples) < limit:
            tuples.append({nm: rng.randrange(s) for nm, s in zip(names, sizes)})
    rng.shuffle(tuples)  # the ORDER matters: state leaks show between consecutive executions
    for t in tuples:
        for nm, v in c.vars.items():
            if v.role == 'out':
                t[nm] = rng.randrange(16 ** v.n if v.kind == 'hex' else 2 ** v.n)
    return tuples


EST_FACTOR = 25  # max_ops = EST_FACTOR * (estimated worst-case ops): the estimate is carried by max_ops (it adds up in stl.compose)


def _limit(c: MacroContract, tier: str) -> int:
    """all tuples when there are <= cap of them; otherwise as many as the time budget of one (contract, width) allows"""
    cap, budget_s = (4096, 8.0) if tier == 'thorough' else (256, 2.5)
    if c.name.startswith('seq['):
        budget_s = 2.0
    total = 1
    for v in c.vars.values():
        if v.role != 'out':
            total *= (16 if v.kind == 'hex' else 2) ** v.n
    if total <= cap:
        return cap
    per_run_s = 0.002 + (c.max_ops / EST_FACTOR / 2) / 300_000
    return int(max(64, min(cap, budget_s / per_run_s)))


def pin_domains(cs: Sequence[MacroContract], tier: str, seed: int) -> None:
    """every contract without an explicit domain gets one that is a function of (name, call, seed, how many times it was
    asked - once per width) only, sized by the tier and by the estimated cost of one execution"""
    for c in cs:
        if c.domain is not None:
            continue
        calls = itertools.count()

        def dom(_rng: random.Random, c: MacroContract = c, calls: 'itertools.count[int]' = calls) -> List[Vals]:
            key = f'{c.name}|{c.call}|{seed}|{next(calls)}'.encode()
            return _domain(c, random.Random(zlib.crc32(key)), _limit(c, tier))

        c.domain = _unless_skipped(c, dom)


def _unless_skipped(c: MacroContract, dom: Callable[[random.Random], List[Vals]]) -> Callable[[random.Random], List[Vals]]:
    def guarded(rng: random.Random) -> List[Vals]:
        if c.__dict__.pop('_c05_skip', False):
            return []  # BitHarness could not assemble this application in 16 bits of memory (logged)
        return dom(rng)

    return guarded


def order_widths(cs: Sequence[MacroContract]) -> None:
    """the quick tier executes the FIRST width only: it must be one at which the application fits in memory"""
    for c in cs:
        if c.widths and c.widths[0] == 16 and c.max_ops // EST_FACTOR >= 2400 and len(c.widths) > 1:
            c.widths = tuple(c.widths[1:]) + (16,)


def _fixed(c: MacroContract, seed: int, limit: int = 1 << 62) -> Callable[[random.Random], List[Vals]]:
    """an explicit domain (such contracts stay out of the composition pools): every tuple, or `limit` of them"""
    return _unless_skipped(c, lambda _rng: _domain(c, random.Random(zlib.crc32(f'{c.name}|{c.call}|{seed}|fixed'.encode())), limit))


# --------------------------------------------------------------------------- the table

ROT = {0: (64, 32, 16), 1: (32, 16, 64), 2: (16, 64, 32)}  # the quick tier runs the FIRST width only: it depends on n


def _sx(x: int, n: int) -> int:
    x &= (1 << n) - 1
    return x - (1 << n) if x >> (n - 1) else x


def _tdiv(a: int, b: int) -> Tuple[int, int]:
    """signed division with sign(r) == sign(a) (truncation toward zero), a == q*b + r"""
    q = abs(a) // abs(b)
    if (a < 0) != (b < 0):
        q = -q
    return q, a - q * b


def contracts(tier: str, seed: int = 0) -> List[MacroContract]:
    thorough = tier == 'thorough'
    cs: List[MacroContract] = []

    def add(name: str, call: str, vars_: Dict[str, Var], post: Callable[[Vals], Vals], doc: str, n: int, est: int = 0, **kw: object) -> MacroContract:
        c = MacroContract(name, call, vars_, post, doc=doc, widths=ROT[n % 3], max_ops=EST_FACTOR * max(est or 100 * n, 200), **kw)  # type: ignore[arg-type]
        cs.append(c)
        return c

    def X(n: int) -> Var:
        return Var('bit', n)

    def I(n: int) -> Var:
        return Var('bit', n, 'in')

    def O(n: int) -> Var:
        return Var('bit', n, 'out')

    # ------------------------------------------------------------------ single-bit forms (x, y, c are bits)
    n = 1
    add('bit.zero', 'bit.zero x', {'x': X(1)}, lambda v: {'x': 0}, 'bit = 0', n)
    add('bit.one', 'bit.one x', {'x': X(1)}, lambda v: {'x': 1}, 'bit = 1', n)
    add('bit.unsafe_mov', 'bit.unsafe_mov x, y', {'x': X(1), 'y': I(1)}, lambda v: {'x': v['y']}, "dst = src  (note: doesn't work if dst==src)", n)
    add('bit.mov', 'bit.mov x, y', {'x': X(1), 'y': I(1)}, lambda v: {'x': v['y']}, 'dst = src  (note: works if dst==src)', n)
    add('bit.mov', 'bit.mov x, x', {'x': X(1)}, lambda v: {}, 'dst = src  (note: works if dst==src)', n)
    add('bit.swap', 'bit.swap x, y', {'x': X(1), 'y': X(1)}, lambda v: {'x': v['y'], 'y': v['x']}, 'a, b = b, a', n)
    add('bit.xor', 'bit.xor x, y', {'x': X(1), 'y': I(1)}, lambda v: {'x': v['x'] ^ v['y']}, 'dst ^= src', n)
    add('bit.exact_xor', 'bit.exact_xor x+dbit, y', {'x': X(1), 'y': I(1)}, lambda v: {'x': v['x'] ^ v['y']}, 'dst(bit_address) ^= src', n)
    add('bit.double_exact_xor', 'bit.double_exact_xor x+dbit, q+dbit, y', {'x': X(1), 'q': X(1), 'y': I(1)}, lambda v: {'x': v['x'] ^ v['y'], 'q': v['q'] ^ v['y']}, 'dst1(bit_address) ^= src ; dst2(bit_address) ^= src', n)
    add('bit.xor_zero', 'bit.xor_zero x, y', {'x': X(1), 'y': X(1)}, lambda v: {'x': v['x'] ^ v['y'], 'y': 0}, 'dst ^= src ; src = 0', n)
    add('bit.or', 'bit.or x, y', {'x': X(1), 'y': I(1)}, lambda v: {'x': v['x'] | v['y']}, 'dst |= src', n)
    add('bit.and', 'bit.and x, y', {'x': X(1), 'y': I(1)}, lambda v: {'x': v['x'] & v['y']}, 'dst &= src', n)
    add('bit.not', 'bit.not x', {'x': X(1)}, lambda v: {'x': v['x'] ^ 1}, 'dst ^= 1', n)
    add('bit.exact_not', 'bit.exact_not x+dbit', {'x': X(1)}, lambda v: {'x': v['x'] ^ 1}, 'dst(bit_address) ^= 1', n)
    add('bit.if', 'bit.if x, l0, l1', {'x': I(1)}, lambda v: {}, 'if x == 0 jump to l0, else jump to l1', n, exits=('l0', 'l1'), exit_=lambda v: 'l1' if v['x'] else 'l0')
    add('bit.if1', 'bit.if1 x, l1', {'x': I(1)}, lambda v: {}, 'if x == 1 jump to l1', n, exits=('l1',), exit_=lambda v: 'l1' if v['x'] else None)
    add('bit.if0', 'bit.if0 x, l0', {'x': I(1)}, lambda v: {}, 'if x == 0 jump to l0', n, exits=('l0',), exit_=lambda v: None if v['x'] else 'l0')
    cmp3 = lambda v: 'l0' if v['x'] < v['y'] else ('l1' if v['x'] == v['y'] else 'l2')  # noqa: E731
    add('bit.cmp', 'bit.cmp x, y, l0, l1, l2', {'x': I(1), 'y': I(1)}, lambda v: {}, 'jump to: a < b: lt ; a = b: eq ; a > b: gt', n, exits=('l0', 'l1', 'l2'), exit_=cmp3)
    add('bit._.cmp_next_eq', 'bit._.cmp_next_eq x, y, l0, l2', {'x': I(1), 'y': I(1)}, lambda v: {}, 'jump to: a < b: lt ; a = b: continue ; a > b: gt', n, exits=('l0', 'l2'), exit_=lambda v: None if v['x'] == v['y'] else cmp3(v))
    inc1 = lambda v: {'x': (v['x'] + v['c']) & 1, 'c': (v['x'] + v['c']) >> 1}  # noqa: E731
    add('bit.inc1', 'bit.inc1 x, c', {'x': X(1), 'c': X(1)}, inc1, '{carry:dst}++  (file header: "carry is both input and output" -> {carry:dst} = dst + carry)', n)
    add('bit.inc.inc1_with_carry0_jump', 'bit.inc.inc1_with_carry0_jump x, c, l0', {'x': X(1), 'c': X(1)}, inc1, 'If carry was 0, jump to carry0_jump. {carry:dst}++', n, exits=('l0',), exit_=lambda v: None if v['c'] else 'l0')
    add1 = lambda v: {'x': (v['x'] + v['y'] + v['c']) & 1, 'c': (v['x'] + v['y'] + v['c']) >> 1}  # noqa: E731
    add('bit.add1', 'bit.add1 x, y, c', {'x': X(1), 'y': I(1), 'c': X(1)}, add1, '{carry:dst} += src  (carry is both input and output -> {carry:dst} = dst + src + carry)', n)
    for val in (0, 1):
        c = add('bit.bit(value)', 'bit.mov x, c05v', {'x': X(1)}, lambda v, val=val: {'x': val}, 'def bit value: a bit holding `value` (0/1)', n, extra_decl=f'c05v: bit.bit {val}')
        c.domain = _fixed(c, seed)
    c = add('bit.bit()', 'bit.mov x, c05v', {'x': X(1)}, lambda v: {'x': 0}, 'def bit: .bit 0', n, extra_decl='c05v: bit.bit')
    c.domain = _fixed(c, seed)

    # ------------------------------------------------------------------ vector forms
    if thorough:
        ns_lin, ns_quad = (1, 2, 3, 4, 5, 6, 7, 8, 16), (1, 2, 3, 4, 5, 6, 7, 8, 16)
    else:
        ns_lin, ns_quad = (1, 2, 3, 4, 5, 8), (1, 2, 3, 4, 8)

    for n in ns_lin:
        M = (1 << n) - 1
        add('bit.zero[n]', f'bit.zero {n}, x', {'x': X(n)}, lambda v: {'x': 0}, 'x[:n] = 0', n)
        add('bit.one[n]', f'bit.one {n}, x', {'x': X(n)}, lambda v, M=M: {'x': M}, "x[:n] = (1<<n) - 1   // all 1's", n)
        add('bit.mov[n]', f'bit.mov {n}, x, y', {'x': X(n), 'y': I(n)}, lambda v: {'x': v['y']}, "dst[:n] = src[:n]  (doesn't work if dst and src overlap. works if dst==src)", n)
        add('bit.mov[n]', f'bit.mov {n}, x, x', {'x': X(n)}, lambda v: {}, 'dst[:n] = src[:n]  (works if dst==src)', n)
        add('bit.swap[n]', f'bit.swap {n}, x, y', {'x': X(n), 'y': X(n)}, lambda v: {'x': v['y'], 'y': v['x']}, 'a[:n], b[:n] = b[:n], a[:n]', n)
        add('bit.xor[n]', f'bit.xor {n}, x, y', {'x': X(n), 'y': I(n)}, lambda v: {'x': v['x'] ^ v['y']}, 'dst[:n] ^= src[:n]', n)
        add('bit.xor_zero[n]', f'bit.xor_zero {n}, x, y', {'x': X(n), 'y': X(n)}, lambda v: {'x': v['x'] ^ v['y'], 'y': 0}, 'dst[:n] ^= src[:n] ; src[:n] = 0', n)
        add('bit.or[n]', f'bit.or {n}, x, y', {'x': X(n), 'y': I(n)}, lambda v: {'x': v['x'] | v['y']}, 'dst[:n] |= src[:n]', n)
        add('bit.and[n]', f'bit.and {n}, x, y', {'x': X(n), 'y': I(n)}, lambda v: {'x': v['x'] & v['y']}, 'dst[:n] &= src[:n]', n)
        add('bit.not[n]', f'bit.not {n}, x', {'x': X(n)}, lambda v, M=M: {'x': v['x'] ^ M}, 'dst[:n] ^= (1<<n)-1', n)
        k = n - 1  # the single-bit "exact" forms aimed at the last bit of a vector
        add('bit.exact_xor', f'bit.exact_xor x+{k}*dw+dbit, y+{k}*dw', {'x': X(n), 'y': I(n)}, lambda v, k=k: {'x': v['x'] ^ (v['y'] >> k << k)}, 'dst(bit_address) ^= src', n)
        add('bit.exact_not', f'bit.exact_not x+{k}*dw+dbit', {'x': X(n)}, lambda v, k=k: {'x': v['x'] ^ (1 << k)}, 'dst(bit_address) ^= 1', n)
        if n <= 4:  # the n bits behind `address` are the data bits of one hex cell (the macro is made for the address word of an op)
            add('bit.address_and_variable_xor', f'bit.address_and_variable_xor {n}, h+dbit, x, y', {'h': Var('hex', 1), 'x': X(n), 'y': I(n)}, lambda v: {'h': v['h'] ^ v['y'], 'x': v['x'] ^ v['y']}, 'address(bit_address) ^= src ; var ^= src', n)
        val = 0x5AC3A5 & M
        for decl, want, nm in ((f'bit.vec {n}, {0x5AC3A5}', val, 'bit.vec(n, value)'), (f'bit.vec {n}', 0, 'bit.vec(n)')):
            c = add(nm, f'bit.mov {n}, x, c05v', {'x': X(n)}, lambda v, want=want: {'x': want}, 'def vec n, value: rep(n, i) .bit (value>>i)&1 ; def vec n: n zero bits', n, extra_decl=f'c05v: {decl}')
            c.domain = _fixed(c, seed, 64)

        # conditional jumps
        add('bit.if[n]', f'bit.if {n}, x, l0, l1', {'x': I(n)}, lambda v: {}, 'if x[:n] == 0 jump to l0, else jump to l1', n, exits=('l0', 'l1'), exit_=lambda v: 'l1' if v['x'] else 'l0')
        add('bit.if1[n]', f'bit.if1 {n}, x, l1', {'x': I(n)}, lambda v: {}, 'if the x[:n] != 0 jump to l1', n, exits=('l1',), exit_=lambda v: 'l1' if v['x'] else None)
        add('bit.if0[n]', f'bit.if0 {n}, x, l0', {'x': I(n)}, lambda v: {}, 'if x[:n] == 0 jump to l0', n, exits=('l0',), exit_=lambda v: None if v['x'] else 'l0')
        add('bit.cmp[n]', f'bit.cmp {n}, x, y, l0, l1, l2', {'x': I(n), 'y': I(n)}, lambda v: {}, 'jump to: a[:n] < b[:n]: lt ; a[:n] = b[:n]: eq ; a[:n] > b[:n]: gt', n, exits=('l0', 'l1', 'l2'), exit_=cmp3)
        # ... the same four observed through a flag, so that they compose
        flag = lambda v: {'f': v['f'] ^ (1 if v['x'] else 0)}  # noqa: E731
        add('bit.if[n]/flag', f'c05_if {n}, x, f', {'x': I(n), 'f': X(1)}, flag, 'if x[:n] == 0 jump to l0, else jump to l1  (l1: f ^= 1)', n)
        add('bit.if0[n]/flag', f'c05_if0 {n}, x, f', {'x': I(n), 'f': X(1)}, flag, 'if x[:n] == 0 jump to l0  (fall through: f ^= 1)', n)
        add('bit.if1[n]/flag', f'c05_if1 {n}, x, f', {'x': I(n), 'f': X(1)}, flag, 'if the x[:n] != 0 jump to l1  (l1: f ^= 1)', n)
        add('bit.cmp[n]/flag', f'c05_cmp {n}, x, y, g', {'x': I(n), 'y': I(n), 'g': X(2)}, lambda v: {'g': v['g'] ^ (1 if v['x'] < v['y'] else (2 if v['x'] > v['y'] else 0))}, 'jump to lt / eq / gt  (lt: g ^= 1, gt: g ^= 2)', n, est=150 * n)

        # shifts and rotates
        add('bit.shr[n]', f'bit.shr {n}, x', {'x': X(n)}, lambda v: {'x': v['x'] >> 1}, 'x[:n] >>= 1', n)
        add('bit.shl[n]', f'bit.shl {n}, x', {'x': X(n)}, lambda v: {'x': v['x'] << 1}, 'x[:n] <<= 1', n)
        add('bit.ror[n]', f'bit.ror {n}, x', {'x': X(n)}, lambda v, n=n: {'x': (v['x'] >> 1) | ((v['x'] & 1) << (n - 1))}, 'rotate x[:n] right by 1-bit', n)
        add('bit.rol[n]', f'bit.rol {n}, x', {'x': X(n)}, lambda v, n=n, M=M: {'x': ((v['x'] << 1) & M) | (v['x'] >> (n - 1))}, 'rotate x[:n] left by 1-bit', n)
        times = sorted(set(range(0, n + 1)) if n <= (8 if thorough else 4) else {0, 1, 2, n // 2, n - 1, n})
        for t in times:
            add('bit.shr[n,times]', f'bit.shr {n}, {t}, x', {'x': X(n)}, lambda v, t=t: {'x': v['x'] >> t}, 'x[:n] >>= times  (@Assumes: times <= n)', n)
            add('bit.shl[n,times]', f'bit.shl {n}, {t}, x', {'x': X(n)}, lambda v, t=t: {'x': v['x'] << t}, 'x[:n] <<= times  (@Assumes: times <= n)', n)
            add('bit.shra[n,times]', f'bit.shra {n}, {t}, x', {'x': X(n)}, lambda v, t=t, n=n: {'x': _sx(v['x'], n) >> t}, 'x[:n] >>= times (arithmetic shift right)  (@Assumes: times <= n)', n)

        # arithmetic, linear cost
        add('bit.inc[n]', f'bit.inc {n}, x', {'x': X(n)}, lambda v: {'x': v['x'] + 1}, 'x[:n]++', n)
        add('bit.dec[n]', f'bit.dec {n}, x', {'x': X(n)}, lambda v: {'x': v['x'] - 1}, 'x[:n]--', n)
        add('bit.neg[n]', f'bit.neg {n}, x', {'x': X(n)}, lambda v: {'x': -v['x']}, 'x[:n] = -x[:n]', n)
        add('bit.add[n]', f'bit.add {n}, x, y', {'x': X(n), 'y': I(n)}, lambda v: {'x': v['x'] + v['y']}, 'dst[:n] += src[:n]', n)
        add('bit.sub[n]', f'bit.sub {n}, x, y', {'x': X(n), 'y': I(n)}, lambda v: {'x': v['x'] - v['y']}, 'dst[:n] -= src[:n]', n)
        # n = 1: with the variable placed right after x in view (the unchanged tree cleared it: `.shl 1, 2, x`; fixed in /repo d8e5be1)
        add('bit.mul10[n]', f'bit.mul10 {n}, x', {'x': X(n), 'y': I(1)} if n == 1 else {'x': X(n)}, lambda v: {'x': v['x'] * 10}, 'x[:n] *= 10', n, est=250 * n)
        add('bit.div10[n]', f'bit.div10 {n}, q, x', {'q': O(n), 'x': X(n)}, lambda v: {'q': v['x'] // 10, 'x': v['x'] % 10}, 'dst[:n], src[:n] = src[:n] / 10, src[:n] % 10.', n)
        add('bit.mul.mul_add_if', f'bit.mul.mul_add_if {n}, f, x, y', {'f': I(1), 'x': X(n), 'y': I(n)}, lambda v: {'x': v['x'] + v['y'] * v['f']}, 'if flag: dst[:n] += src[:n]', n)

        def div_step(v: Vals, n: int = n) -> Vals:
            r = v['r'] ^ v['f']
            return {'r': r - v['y'], 'g': v['g'] ^ 1} if r >= v['y'] else {'r': r}

        add('bit.div.div_step', f'bit.div.div_step {n}, f, y, r, g', {'f': I(1), 'y': I(n), 'r': X(n), 'g': X(2)}, div_step, 'R[0] ^= N ; if R[:n] >= D[:n]: R -= D ; not Q[0]', n, est=250 * n)

    def cmp_sub_10(v: Vals) -> Vals:
        val = v['c'] * 16 + v['x']
        if val >= 10:
            val -= 10
            return {'c': val >> 4, 'x': val & 15, 'f': v['f'] ^ 1}
        return {}

    add('bit.div10.cmp_sub_10', 'bit.div10.cmp_sub_10 c, x, f', {'c': X(1), 'x': X(4), 'f': X(1)}, cmp_sub_10, 'if (val >= 10) { val -= 10; res = !res; }  for val4:val[3,2,1,0], Assumes val <= 19', 4, requires=lambda v: v['c'] * 16 + v['x'] <= 19)

    # ------------------------------------------------------------------ arithmetic, quadratic cost
    for n in ns_quad:
        q_est = 260 * n * n + 200
        add('bit.mul[n]', f'bit.mul {n}, x, y', {'x': X(n), 'y': I(n)}, lambda v: {'x': v['x'] * v['y']}, 'dst[:n] *= src[:n]', n, est=q_est)
        add('bit.mul[n]', f'bit.mul {n}, x, x', {'x': X(n)}, lambda v: {'x': v['x'] * v['x']}, 'dst[:n] *= src[:n]  (@NOTE: safe when dst and src are the same address (squaring: dst *= dst))', n, est=q_est)
        add('bit.mul_loop[n]', f'bit.mul_loop {n}, x, y', {'x': X(n), 'y': I(n)}, lambda v: {'x': v['x'] * v['y']}, 'dst[:n] *= src[:n]  (@Assumes: dst and src are NOT the same address)', n, est=q_est)

        def udiv(v: Vals) -> Vals:
            return {'q': v['x'] // v['y'], 'r': v['x'] % v['y']} if v['y'] else {}

        def sdiv(v: Vals, n: int = n) -> Vals:
            if not v['y']:
                return {}  # (the unchanged tree negated q and r here when a < 0; fixed in /repo ea34c96)
            q, r = _tdiv(_sx(v['x'], n), _sx(v['y'], n))
            return {'q': q, 'r': r}

        dv = {'x': I(n), 'y': I(n), 'q': O(n), 'r': O(n)}
        udoc = 'if b==0: goto end (do nothing) ; q = a/b (unsigned division) ; r = a%b (unsigned modulo)'
        sdoc = 'if b==0: goto end (do nothing) ; q = a/b (signed division) ; r = a%b (signed modulo - sign(r)==sign(a))'
        add('bit.div[n]', f'bit.div {n}, x, y, q, r', dict(dv), udiv, udoc, n, est=q_est)
        add('bit.div_loop[n]', f'bit.div_loop {n}, x, y, q, r', dict(dv), udiv, udoc, n, est=q_est)
        add('bit.idiv[n]', f'bit.idiv {n}, x, y, q, r', dict(dv), sdiv, sdoc, n, est=q_est)
        add('bit.idiv_loop[n]', f'bit.idiv_loop {n}, x, y, q, r', dict(dv), sdiv, sdoc, n, est=q_est)

    # ------------------------------------------------------------------ thorough: every operand pair at n = 8 (one width each)
    if thorough:
        n = 8
        both: List[Tuple[str, str, Callable[[Vals], Vals], bool, str]] = [
            ('bit.add[n]', 'bit.add {n}, x, y', lambda v: {'x': v['x'] + v['y']}, True, 'dst[:n] += src[:n]'),
            ('bit.sub[n]', 'bit.sub {n}, x, y', lambda v: {'x': v['x'] - v['y']}, True, 'dst[:n] -= src[:n]'),
            ('bit.xor[n]', 'bit.xor {n}, x, y', lambda v: {'x': v['x'] ^ v['y']}, True, 'dst[:n] ^= src[:n]'),
            ('bit.or[n]', 'bit.or {n}, x, y', lambda v: {'x': v['x'] | v['y']}, True, 'dst[:n] |= src[:n]'),
            ('bit.and[n]', 'bit.and {n}, x, y', lambda v: {'x': v['x'] & v['y']}, True, 'dst[:n] &= src[:n]'),
            ('bit.mov[n]', 'bit.mov {n}, x, y', lambda v: {'x': v['y']}, True, 'dst[:n] = src[:n]'),
            ('bit.xor_zero[n]', 'bit.xor_zero {n}, x, y', lambda v: {'x': v['x'] ^ v['y'], 'y': 0}, False, 'dst[:n] ^= src[:n] ; src[:n] = 0'),
            ('bit.swap[n]', 'bit.swap {n}, x, y', lambda v: {'x': v['y'], 'y': v['x']}, False, 'a[:n], b[:n] = b[:n], a[:n]'),
        ]
        for i, (nm, call, post, src_in, doc) in enumerate(both):
            c = add(nm, call.format(n=n), {'x': X(n), 'y': I(n) if src_in else X(n)}, post, doc + '   (every operand pair at n = 8)', n)
            c.widths = (ROT[0][i % 3],)
            c.domain = _fixed(c, seed)
        c = add('bit.cmp[n]', f'bit.cmp {n}, x, y, l0, l1, l2', {'x': I(n), 'y': I(n)}, lambda v: {}, 'jump to: a[:n] < b[:n]: lt ; a[:n] = b[:n]: eq ; a[:n] > b[:n]: gt   (every operand pair at n = 8)', n, exits=('l0', 'l1', 'l2'), exit_=cmp3)
        c.widths = (32,)
        c.domain = _fixed(c, seed)
    return cs


# --------------------------------------------------------------------------- compositions


def composable(cs: Sequence[MacroContract]) -> List[MacroContract]:
    return [c for c in cs if not c.exits and c.input_ is None and c.domain is None and not c.extra_decl]


def _compatible(shapes: Dict[str, Tuple[str, int]], c: MacroContract) -> bool:
    return all(shapes.get(nm, (v.kind, v.n)) == (v.kind, v.n) for nm, v in c.vars.items())


def covering_compositions(cs: Sequence[MacroContract], seed: int, per: str = 'name') -> List[MacroContract]:
    """for every composable contract (per='call') / every composable macro name (per='name', the vector length rotates):
    one sequence of 2-4 applications that STARTS with it and one in which it comes LATER, the other members drawn at
    random among the contracts whose variables have the same shapes"""
    rng = random.Random(zlib.crc32(f'C05-compositions|{seed}|{per}'.encode()))
    pool = composable(cs)
    by_name: Dict[str, List[MacroContract]] = {}
    for c in pool:
        by_name.setdefault(c.name, []).append(c)
    targets: List[MacroContract] = list(pool) if per == 'call' else [v[i % len(v)] for i, (_k, v) in enumerate(sorted(by_name.items()))]
    out: List[MacroContract] = []
    for t in targets:
        for later in (False, True):
            k = rng.choice((2, 3, 4))
            pos = rng.randrange(1, k) if later else 0
            shapes = {nm: (v.kind, v.n) for nm, v in t.vars.items()}
            seq: List[Optional[MacroContract]] = [None] * k
            seq[pos] = t
            for i in range(k):
                if seq[i] is not None:
                    continue
                cands = [c for c in pool if _compatible(shapes, c)]
                nxt = rng.choice(cands)
                seq[i] = nxt
                shapes.update({nm: (v.kind, v.n) for nm, v in nxt.vars.items()})
            out.append(stl.compose([c for c in seq if c is not None]))
    return out


def one_width_each(seqs: Sequence[MacroContract]) -> None:
    """a composition is executed at ONE width (also in the thorough tier, where they are many): the widths rotate over the list"""
    for i, c in enumerate(seqs):
        if len(c.widths) > 1:
            big = c.max_ops // EST_FACTOR >= 2400  # may not fit in 16 bits of memory
            ws = [w for w in c.widths if not (big and w == 16)] or list(c.widths)
            c.widths = (ws[i % len(ws)],)
