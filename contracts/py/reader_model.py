"""
Symbolic model + contracts of flipjump.fjm.fjm_reader.Reader at run time (bit-vector theory, concrete
memory width, GarbageHandling.Stop - the only mode fjm_run.run uses).

absmem(reader) = (V, M):  V(a) = a in memory  or  a in some zeros_boundaries range (ghost set ZB with
Skolem witness zw);  M(a) = memory[a] if present else 0.   Representation invariant I_R:
  every stored value is in [0, 2^w) (by construction: the value array of the model holds w-bit words);
  ZB/zw describe zeros_boundaries exactly.
Model normalisation: the value array of the symbolic dict is 0 at absent keys (the real code cannot observe
it there: every read tests key presence first), so M(a) is simply the value array; the normalisation is an
assumption about the MODEL's don't-care entries, kept by every store (key and value are set together).
"""
from __future__ import annotations

import importlib
from typing import Any, Dict, List, Tuple

import z3

from vc.pyvc.engine import OK, RAISE, Engine, LoopSpec, State
from vc.pyvc.values import ExcVal, IntBV, Obj, Opaque, Ref, SDict, SList


def mods():
    R = importlib.import_module('flipjump.fjm.fjm_reader')
    X = importlib.import_module('flipjump.utils.exceptions')
    return R, X


class ReaderModel:
    def __init__(self, eng: Engine, st: State, w: int, tag: str = '', zb_axioms: bool = False):
        R, X = mods()
        T: IntBV = eng.T
        self.eng, self.w, self.ww, self.N = eng, w, w.bit_length() - 1, T.n
        S = T.sort()
        self.dom0 = z3.Array('mem_dom' + tag, S, z3.BoolSort())
        self.val0 = z3.Array('mem_val' + tag, S, z3.BitVecSort(w))  # w-bit words: 'every stored value fits' holds by construction
        mem = self.mk_mem(self.dom0, self.val0)
        self.mem_ref = st.alloc(mem)
        zlen = eng.fresh_int('zb_len' + tag, st, 0, 1 << 40)
        zb = SList(zlen, (z3.Array('zb_lo' + tag, S, S), z3.Array('zb_hi' + tag, S, S)), 2)
        zb.elem_bits, zb.elem_nonneg = 66, True  # type: ignore[attr-defined]
        self.zb = zb
        self.zb_ref = st.alloc(zb)
        self.ZB = z3.Array('ZB' + tag, S, z3.BoolSort())
        self.zw = z3.Array('zw' + tag, S, S)
        self.ref = st.alloc(Obj(R.Reader, dict(memory_width=w, memory=self.mem_ref, zeros_boundaries=self.zb_ref, garbage_handling=R.GarbageHandling.Stop)))
        if zb_axioms:  # only the code that walks zeros_boundaries needs to know what ZB means
            for c in self.invariant(st):
                st.assume(c)
            st.assume(self.normalised(mem))

    def bv(self, v: int):
        return z3.BitVecVal(v, self.N)

    def mk_mem(self, dom, val) -> SDict:
        m = SDict(dom, val)
        m.val_width = self.w  # type: ignore[attr-defined]
        return m

    def mem(self, st: State) -> SDict:
        return st.heap[self.mem_ref.id]

    def invariant(self, st: State) -> List[Any]:
        m = self.mem(st)
        a, e = z3.BitVecs('a_ir e_ir', self.N)
        zb = self.zb
        w_ = z3.Select(self.zw, a)
        return [
            z3.ForAll([e, a], z3.Implies(z3.And(z3.ULT(e, zb.length), z3.ULE(z3.Select(zb.cols[0], e), a), z3.ULT(a, z3.Select(zb.cols[1], e))), z3.Select(self.ZB, a))),
            z3.ForAll([a], z3.Implies(z3.Select(self.ZB, a), z3.And(z3.ULT(w_, zb.length), z3.ULE(z3.Select(zb.cols[0], w_), a), z3.ULT(a, z3.Select(zb.cols[1], w_))))),
            z3.ForAll([e], z3.Implies(z3.ULT(e, zb.length), z3.And(z3.ULT(z3.Select(zb.cols[0], e), self.bv(1 << 65)), z3.ULT(z3.Select(zb.cols[1], e), self.bv(1 << 65))))),
        ]

    # abstraction
    def V(self, st_or_mem: Any, a):
        m = st_or_mem if isinstance(st_or_mem, SDict) else self.mem(st_or_mem)
        return z3.Or(z3.Select(m.dom, a), z3.Select(self.ZB, a))

    def M(self, st_or_mem: Any, a):
        m = st_or_mem if isinstance(st_or_mem, SDict) else self.mem(st_or_mem)
        return z3.ZeroExt(self.N - self.w, z3.Select(m.val, a))

    def normalised(self, m: SDict) -> Any:
        a = z3.BitVec('a_nm', self.N)
        return z3.ForAll([a], z3.Implies(z3.Not(z3.Select(m.dom, a)), z3.Select(m.val, a) == 0))

    def V_arr(self, m: SDict):
        a = z3.BitVec('a_va', self.N)
        return z3.Lambda([a], self.V(m, a))

    def M_arr(self, m: SDict):
        a = z3.BitVec('a_ma', self.N)
        return z3.Lambda([a], self.M(m, a))

    def same_absmem(self, m0: SDict, m1: SDict) -> Any:
        a = z3.BitVec('a_sa', self.N)
        return z3.ForAll([a], z3.And(self.V(m0, a) == self.V(m1, a), self.M(m0, a) == self.M(m1, a)))

    def note(self, t, bits: int):
        self.eng.T.note(t, bits, True)
        return t

    # ---- contracts (each is proved against the real body in props/C01.py) --------------------------
    def install_contracts(self, eng: Engine, *, which: Tuple[str, ...]) -> None:
        R, X = mods()
        T: IntBV = eng.T
        w, ww = self.w, self.ww
        mask = self.bv((1 << w) - 1)

        def get_memory_word(e, st, args, kwargs):
            recv, a = args
            a2 = T.lift(a) & mask
            m = self.mem(st)
            for s, ok in e.branch(st, self.V(m, a2), '_get_memory_word.valid'):
                if ok:
                    val = self.M(m, a2)
                    self.note(val, w)
                    # instance of the model normalisation (absent key => value entry 0); a lazily-zero word is
                    # materialised as 0, which leaves the value array as it is
                    s.assume(z3.Implies(z3.Not(z3.Select(m.dom, a2)), z3.Select(m.val, a2) == 0))
                    s.heap[self.mem_ref.id] = self.mk_mem(z3.Store(m.dom, a2, z3.BoolVal(True)), m.val)
                    yield (OK, s, val)
                else:
                    addr = a2 << self.bv(ww)
                    self.note(addr, w + ww)
                    yield (RAISE, s, ExcVal(X.FlipJumpRuntimeMemoryException, (), dict(memory_address=addr)))

        def set_memory_word(e, st, args, kwargs):
            recv, a, v = args
            a2, v2 = T.lift(a) & mask, T.lift(v) & mask
            m = self.mem(st)
            s = st.fork()
            s.heap[self.mem_ref.id] = self.mk_mem(z3.Store(m.dom, a2, z3.BoolVal(True)), z3.Store(m.val, a2, z3.Extract(w - 1, 0, v2)))
            yield (OK, s, None)

        def decompose(e, st, args, kwargs):
            recv, b = args
            b = T.lift(b)
            e.oblige(st, 'call._bit_address_decompose.requires_nonnegative_address', b >= 0)
            wa = z3.LShR(b, self.bv(ww)) & mask
            off = b & self.bv(w - 1)
            self.note(wa, w)
            self.note(off, ww)
            yield (OK, st, (wa, off))

        def read_bit(e, st, args, kwargs):
            recv, b = args
            b = T.lift(b)
            wa = z3.LShR(b, self.bv(ww)) & mask
            off = b & self.bv(w - 1)
            for k, s, val in get_memory_word(e, st, [recv, wa], {}):
                if k == OK:
                    yield (OK, s, z3.Extract(0, 0, z3.LShR(val, off)) == 1)
                else:
                    yield (k, s, val)

        def write_bit(e, st, args, kwargs):
            recv, b, v = args
            b = T.lift(b)
            wa = z3.LShR(b, self.bv(ww)) & mask
            off = b & self.bv(w - 1)
            bit = self.bv(1) << off
            t = e.truth(v, st)
            t = z3.BoolVal(t) if isinstance(t, bool) else t
            for k, s, val in get_memory_word(e, st, [recv, wa], {}):
                if k != OK:
                    yield (k, s, val)
                    continue
                m = self.mem(s)
                new = z3.If(t, val | bit, val & ~bit & mask)
                s.heap[self.mem_ref.id] = self.mk_mem(m.dom, z3.Store(m.val, wa, z3.Extract(w - 1, 0, new)))
                yield (OK, s, None)

        def get_word(e, st, args, kwargs):
            recv, b = args
            b = T.lift(b)
            wa = z3.LShR(b, self.bv(ww)) & mask
            off = b & self.bv(w - 1)
            for s0, aligned in e.branch(st, off == 0, 'get_word.aligned'):
                if aligned:
                    yield from get_memory_word(e, s0, [recv, wa], {})
                    continue
                for s1, top in e.branch(s0, wa == mask, 'get_word.top'):
                    if top:
                        yield (RAISE, s1, ExcVal(X.FlipJumpRuntimeMemoryException, (), dict(memory_address=b)))
                        continue
                    for k, s2, lo in get_memory_word(e, s1, [recv, wa], {}):
                        if k != OK:
                            yield (k, s2, lo)
                            continue
                        for k2, s3, hi in get_memory_word(e, s2, [recv, wa + 1], {}):
                            if k2 != OK:
                                yield (k2, s3, hi)
                                continue
                            val = (z3.LShR(lo, off) | (hi << (self.bv(w) - off))) & mask
                            self.note(val, w)
                            yield (OK, s3, val)

        table = dict(_get_memory_word=get_memory_word, _set_memory_word=set_memory_word, _bit_address_decompose=decompose, read_bit=read_bit, write_bit=write_bit, get_word=get_word)
        for name in which:
            eng.contracts[getattr(R.Reader, name)] = table[name]
        self.contract_table = table
