"""
Sidecar contracts of flipjump.fjm.fjm_writer.Writer (mathematical-integer theory, one instantiation
per (memory width, version)).

Ghost state:  abs   - the data pool exactly as supplied to add_data (array index -> word)
              owner - for each pool index, the number of the registered segment whose data range
                      contains it, or -1 (a Skolem function for "there is a segment ...")

Inv_W (the writer's representation invariant), for n = len(segments), m = len(data):
  S1  every segment: length >= 1, start and length even, data_length <= length
  S2  memory ranges pairwise disjoint
  S3  (v2/v3) non-empty data ranges pairwise disjoint
  S4  (round-trip preconditions; established by add_segment only AFTER the fix of F7a/F7b)
      0 <= data_start, data_start + data_length <= m, data_length even, 0 <= start < 2^64,
      length < 2^64 (so every table field packs as u64; m < 2^62 is the model's bound on list lengths)
  D1  owner is exact: owner[k] = i  <=>  i is a segment (v2/v3, non-empty range) whose data range holds k
  D2  data[k] = (abs[k] - (start_i + k - ds_i) * w) mod 2^w  if owner[k] = i >= 0 and k - ds_i is odd
               = abs[k]                                        otherwise            (v0/v1: always abs[k])
  D3  (after the fix of F6) 0 <= abs[k] < 2^w for k < m
"""
from __future__ import annotations

import importlib
from typing import Any, Dict, List, Tuple

import z3

from vc.pyvc.engine import OK, RAISE, Engine, LoopSpec, State
from vc.pyvc.values import ExcVal, IntMath, Obj, Opaque, Ref, SList

I = z3.IntSort()


def mods():
    W = importlib.import_module('flipjump.fjm.fjm_writer')
    C = importlib.import_module('flipjump.fjm.fjm_consts')
    X = importlib.import_module('flipjump.utils.exceptions')
    return W, C, X


class WriterModel:
    """a Writer object in an arbitrary state satisfying Inv_W, for concrete (w, version)"""

    def __init__(self, eng: Engine, st: State, w: int, version: Any, *, assume_inv: bool = True, tag: str = ''):
        W, C, X = mods()
        self.eng, self.w, self.version = eng, w, version
        self.rel = version in (C.FJMVersion.RelativeJumpVersion, C.FJMVersion.CompressedVersion)
        self.segs = eng.fresh_list('segments' + tag, st, ncols=4)
        self.data = eng.fresh_list('data' + tag, st)
        self.abs = z3.Array('abs' + tag, I, I)
        self.owner = z3.Array('owner' + tag, I, I)
        self.segs_ref = st.alloc(self.segs)
        self.data_ref = st.alloc(self.data)
        self.flags = eng.fresh_int('flags' + tag, st, 0, 1 << 64)
        fields = dict(
            output_file=Opaque('path'),
            word_size=w,
            version=version,
            flags=self.flags,
            reserved=0,
            segments=self.segs_ref,
            data=self.data_ref,
        )
        if version == C.FJMVersion.CompressedVersion:
            fields['lzma_preset'] = eng.fresh_int('preset' + tag, st, 0, 10)
        self.ref = st.alloc(Obj(W.Writer, fields))
        if assume_inv:
            for c in inv_w(self.segs, self.data, self.abs, self.owner, w, self.rel):
                st.assume(c)

    def current(self, st: State) -> Tuple[SList, SList]:
        o = st.heap[self.ref.id]
        return st.heap[o.fields['segments'].id], st.heap[o.fields['data'].id]


def seg(s: SList, i):
    return tuple(z3.Select(c, i) for c in s.cols)


def disjoint(a0, a1, b0, b1):
    """half-open [a0,a1) and [b0,b1)"""
    return z3.Or(a1 <= b0, b1 <= a0)


def in_data_range(s: SList, i, k):
    ss, sl, ds, dl = seg(s, i)
    return z3.And(ds <= k, k < ds + dl)


def inv_w(segs: SList, data: SList, abs_, owner, w: int, rel: bool, *, with_s4: bool = True, with_d3: bool = True) -> List[Any]:
    i, j, k = z3.Ints('i_w j_w k_w')
    n, m = segs.length, data.length
    ss, sl, ds, dl = seg(segs, i)
    ss2, sl2, ds2, dl2 = seg(segs, j)
    out = [
        z3.ForAll([i], z3.Implies(z3.And(0 <= i, i < n), z3.And(sl >= 1, ss % 2 == 0, sl % 2 == 0, dl <= sl))),
        z3.ForAll([i, j], z3.Implies(z3.And(0 <= i, i < j, j < n), disjoint(ss, ss + sl, ss2, ss2 + sl2))),
    ]
    if with_s4:
        out.append(z3.ForAll([i], z3.Implies(z3.And(0 <= i, i < n), z3.And(0 <= ds, ds + dl <= m, dl % 2 == 0, 0 <= dl, 0 <= ss, ss < (1 << 64), sl < (1 << 64)))))
    if rel:
        out.append(z3.ForAll([i, j], z3.Implies(z3.And(0 <= i, i < j, j < n, dl > 0, dl2 > 0), disjoint(ds, ds + dl, ds2, ds2 + dl2))))
        # D1: owner exact
        out.append(z3.ForAll([k], z3.Or(z3.Select(owner, k) == -1, z3.And(0 <= z3.Select(owner, k), z3.Select(owner, k) < n, in_data_range(segs, z3.Select(owner, k), k)))))
        out.append(z3.ForAll([i, k], z3.Implies(z3.And(0 <= i, i < n, in_data_range(segs, i, k)), z3.Select(owner, k) == i)))
        out.append(z3.ForAll([k], z3.Implies(z3.And(0 <= k, k < m), z3.Select(data.cols[0], k) == encoded_word(segs, abs_, owner, k, w))))
    else:
        out.append(z3.ForAll([k], z3.Implies(z3.And(0 <= k, k < m), z3.Select(data.cols[0], k) == z3.Select(abs_, k))))
    if with_d3:
        out.append(z3.ForAll([k], z3.Implies(z3.And(0 <= k, k < m), z3.And(0 <= z3.Select(abs_, k), z3.Select(abs_, k) < (1 << w)))))
    return out


def encoded_word(segs: SList, abs_, owner, k, w: int):
    o = z3.Select(owner, k)
    ss, sl, ds, dl = seg(segs, o)
    return z3.If(z3.And(o >= 0, (k - ds) % 2 == 1), (z3.Select(abs_, k) - (ss + (k - ds)) * w) % (1 << w), z3.Select(abs_, k))


# ----------------------------------------------------------------------------- callee contracts


def is_collision_spec(s1, e1, s2, e2):
    """closed intervals [s1,e1], [s2,e2] intersect"""
    return z3.And(s1 <= e2, s2 <= e1)


def contract_is_collision(e: Engine, st: State, args, kwargs):
    s1, e1, s2, e2 = [e.T.lift(a) for a in args[-4:]]
    e.oblige(st, 'call._is_collision.requires_nonempty_intervals', z3.And(s1 <= e1, s2 <= e2))
    yield (OK, st, is_collision_spec(s1, e1, s2, e2))


def mem_overlap_exists(segs: SList, ns, nl):
    i = z3.Int('i_ov')
    ss, sl, ds, dl = seg(segs, i)
    return z3.Exists([i], z3.And(0 <= i, i < segs.length, z3.Not(disjoint(ss, ss + sl, ns, ns + nl))))


def data_overlap_exists(segs: SList, nds, ndl):
    i = z3.Int('i_ovd')
    ss, sl, ds, dl = seg(segs, i)
    return z3.Exists([i], z3.And(0 <= i, i < segs.length, dl != 0, z3.Not(disjoint(ds, ds + dl, nds, nds + ndl))))


def make_validate_addresses_contract(X):
    def h(e: Engine, st: State, args, kwargs):
        recv, ns, nl = args
        o = st.heap[recv.id]
        segs = st.heap[o.fields['segments'].id]
        ns, nl = e.T.lift(ns), e.T.lift(nl)
        e.oblige(st, 'call._validate_segment_addresses_not_overlapping.requires_positive_length', nl >= 1)
        ov = mem_overlap_exists(segs, ns, nl)
        for s, bad in e.branch(st, ov, 'addr-overlap'):
            if bad:
                yield (RAISE, s, ExcVal(X.FlipJumpWriteFjmException))
            else:
                yield (OK, s, None)

    return h


def make_validate_data_contract(X):
    def h(e: Engine, st: State, args, kwargs):
        recv, nds, ndl = args
        o = st.heap[recv.id]
        segs = st.heap[o.fields['segments'].id]
        nds, ndl = e.T.lift(nds), e.T.lift(ndl)
        e.oblige(st, 'call._validate_segment_data_not_overlapping.requires_nonnegative_length', ndl >= 0)
        ov = z3.And(ndl != 0, data_overlap_exists(segs, nds, ndl))
        for s, bad in e.branch(st, ov, 'data-overlap'):
            if bad:
                yield (RAISE, s, ExcVal(X.FlipJumpWriteFjmException))
            else:
                yield (OK, s, None)

    return h


def make_validate_contract(X, C):
    """_validate_segment_not_overlapping: addresses always, data ranges in v2/v3"""

    def h(e: Engine, st: State, args, kwargs):
        recv, ns, nl, nds, ndl = args
        o = st.heap[recv.id]
        segs = st.heap[o.fields['segments'].id]
        rel = o.fields['version'] in (C.FJMVersion.RelativeJumpVersion, C.FJMVersion.CompressedVersion)
        ns, nl, nds, ndl = [e.T.lift(a) for a in (ns, nl, nds, ndl)]
        e.oblige(st, 'call._validate_segment_not_overlapping.requires_positive_length', nl >= 1)
        e.oblige(st, 'call._validate_segment_not_overlapping.requires_nonnegative_data_length', ndl >= 0)
        bad_c = mem_overlap_exists(segs, ns, nl)
        if rel:
            bad_c = z3.Or(bad_c, z3.And(ndl != 0, data_overlap_exists(segs, nds, ndl)))
        for s, bad in e.branch(st, bad_c, 'overlap'):
            if bad:
                yield (RAISE, s, ExcVal(X.FlipJumpWriteFjmException))
            else:
                yield (OK, s, None)

    return h


def relative_jumps_post(old: SList, new: SList, ss, ds, dl, w: int) -> List[Any]:
    k = z3.Int('k_rj')
    inr = z3.And(ds <= k, k < ds + dl, (k - ds) % 2 == 1)
    return [
        new.length == old.length,
        z3.ForAll(
            [k],
            z3.Select(new.cols[0], k) == z3.If(inr, (z3.Select(old.cols[0], k) - (ss + (k - ds)) * w) % (1 << w), z3.Select(old.cols[0], k)),
        ),
    ]


def make_update_relative_contract():
    def h(e: Engine, st: State, args, kwargs):
        recv, ss, ds, dl = args
        o = st.heap[recv.id]
        dref = o.fields['data']
        old = st.heap[dref.id]
        ss, ds, dl = [e.T.lift(a) for a in (ss, ds, dl)]
        e.oblige(st, 'call._update_to_relative_jumps.requires_data_range_inside_pool', z3.Or(dl <= 1, z3.And(0 <= ds, ds + dl <= old.length)))
        s = st.fork()
        new = SList(old.length, (e.fresh_array('data_rel'),), 0, 'list')
        for c in relative_jumps_post(old, new, ss, ds, dl, o.fields['word_size']):
            s.assume(c)
        s.heap[dref.id] = new
        yield (OK, s, None)

    return h
