"""
Sidecar contracts for flipjump.fjm.fjm_reader.Reader and the assumed contracts of the external
functions used by the writer/reader (open, struct.pack/unpack, file read/write, lzma).

Abstraction of a Reader:  absmem(reader) = (V, M)
    V(a) = a in reader.memory  or  a lies in one of reader.zeros_boundaries
    M(a) = reader.memory[a] if present else 0
Postcondition of _init_memory(segments, data) (requires: segment memory ranges pairwise disjoint,
every table field in [0, 2^64), every data word in [0, 2^w)):
    raises FlipJumpReadFjmException  iff  some segment has an odd data_length, a data_length above its
    segment_length, or a data range that exceeds the pool (first such segment, nothing else raised);  otherwise
    V = union of the segment ranges,  M(ss_j + t) = decode(data[ds_j + t]) for t < dl_j, 0 for t >= dl_j,
    memory_segments = [(ss_j, sl_j)].
"""
from __future__ import annotations

import importlib
from typing import Any, Callable, Dict, List

import z3

from vc.common import Obl, Undecided
from vc.pyvc.engine import OK, RAISE, Engine, LoopSpec, State
from vc.pyvc.values import ExcVal, IntMath, Obj, Opaque, Ref, SDict, SList

I = z3.IntSort()
FMT_BITS = {'B': 8, 'H': 16, 'L': 32, 'Q': 64, 'I': 32}


def decode_word(word, addr, t, w: int, rel: bool):
    """what the reader stores for pool word `word` placed at word address `addr` (offset t in its segment)"""
    if not rel:
        return word
    return z3.If(t % 2 == 1, (word + addr * w) % (1 << w), word)


# ----------------------------------------------------------------------------- assumed externals (writer side)


def install_file_externals(eng: Engine, W, C, X) -> None:
    import struct

    T = eng.T

    def h_open(e, st, args, kwargs):
        s = st.fork()
        s.trace.append(('open', args[1] if len(args) > 1 else kwargs.get('mode')))
        yield (OK, s, Opaque('file'))

    def h_pack(e, st, args, kwargs):
        fmt = args[0]
        vals = args[1:]
        if isinstance(fmt, str):
            codes = [c for c in fmt if c in FMT_BITS]
            if len(vals) == 1 and isinstance(vals[0], Opaque) and vals[0].tag == 'star':
                vals = list(vals[0].payload) if isinstance(vals[0].payload, tuple) else None
            if vals is None or len(codes) != len(vals):
                raise Undecided(f'struct.pack({fmt!r}) arity')
            kind = {C._header_base_format: 'header', C._header_extension_format: 'ext', C._segment_format: 'segment'}.get(fmt, 'other')
            for i, (c, v) in enumerate(zip(codes, vals)):
                v = T.lift(v)
                e.oblige(st, f'call.struct.pack[{kind}].field{i}_fits_{c}', z3.And(0 <= v, v < (1 << FMT_BITS[c])), clause='precondition of the assumed struct.pack contract')
            s = st.fork()
            if kind == 'header':
                s.trace.append(('header-fields', tuple(vals)))
            yield (OK, s, Opaque('packed', kind))
            return
        if isinstance(fmt, Opaque) and fmt.tag == 'fstr':
            parts = fmt.payload
            if len(parts) == 3 and parts[0] == '<' and isinstance(parts[2], tuple) and parts[2][1] in FMT_BITS and len(vals) == 1 and isinstance(vals[0], Opaque) and vals[0].tag == 'star':
                cnt = T.lift(parts[1][1])
                lst = st.deref(vals[0].payload)
                bits = FMT_BITS[parts[2][1]]
                k = z3.Int('k_pk')
                e.oblige(st, 'call.struct.pack[data].count_matches_pool_length', cnt == lst.length)
                e.oblige(st, f'call.struct.pack[data].every_word_fits_{parts[2][1]}', z3.ForAll([k], z3.Implies(z3.And(0 <= k, k < lst.length), z3.And(0 <= z3.Select(lst.cols[0], k), z3.Select(lst.cols[0], k) < (1 << bits)))), clause='precondition of the assumed struct.pack contract (F6)')
                yield (OK, st, Opaque('packed', 'data'))
                return
        raise Undecided(f'struct.pack with format {fmt!r}')

    def h_write(e, st, recv, args, kwargs):
        s = st.fork()
        kind = args[0].payload if isinstance(args[0], Opaque) and args[0].tag == 'packed' else '?'
        s.trace.append(('write', kind))
        yield (OK, s, None)

    def h_compress(e, st, args, kwargs):
        # contract of Writer._compress_data: the compressed stream, or the write exception
        s1 = st.fork()
        yield (OK, s1, Opaque('packed', 'compressed'))
        s2 = st.fork()
        s2.trace.append(('compress-failed',))
        yield (RAISE, s2, ExcVal(X.FlipJumpWriteFjmException))

    eng.externals[open] = h_open
    eng.externals[struct.pack] = h_pack
    eng.method_handlers[('Opaque:file', 'write')] = h_write
    eng.contracts[W.Writer._compress_data] = h_compress


# ----------------------------------------------------------------------------- Reader._init_memory


def zb_ghost_axioms(zb: SList, ZB, zw) -> List[Any]:
    """ZB[a] <=> some entry of zeros_boundaries covers a; zw[a] is a (Skolem) witness entry"""
    e, a = z3.Ints('e_zb a_zb')
    w = z3.Select(zw, a)
    return [
        z3.ForAll([e, a], z3.Implies(z3.And(0 <= e, e < zb.length, z3.Select(zb.cols[0], e) <= a, a < z3.Select(zb.cols[1], e)), z3.Select(ZB, a))),
        z3.ForAll([a], z3.Implies(z3.Select(ZB, a), z3.And(0 <= w, w < zb.length, z3.Select(zb.cols[0], w) <= a, a < z3.Select(zb.cols[1], w)))),
    ]


def absmem_valid(mem: SDict, ZB, addr):
    return z3.Or(z3.Select(mem.dom, addr), z3.Select(ZB, addr))


def absmem_word(mem: SDict, addr):
    return z3.If(z3.Select(mem.dom, addr), z3.Select(mem.val, addr), 0)


def verify_init_memory(w: int, version: Any, finish: Callable) -> List[Dict[str, Any]]:
    R = importlib.import_module('flipjump.fjm.fjm_reader')
    C = importlib.import_module('flipjump.fjm.fjm_consts')
    X = importlib.import_module('flipjump.utils.exceptions')
    rel = version in (C.FJMVersion.RelativeJumpVersion, C.FJMVersion.CompressedVersion)
    eng = Engine(IntMath(), name=f'Reader._init_memory[w{w},v{version.value}]')
    st = State()
    segs = eng.fresh_list('segments', st, ncols=4)
    data = eng.fresh_list('data', st)
    sref, dref = st.alloc(segs), st.alloc(data)
    ref = st.alloc(Obj(R.Reader, dict(memory_width=w, version=version)))
    i, j, a, t = z3.Ints('i_r j_r a_r t_r')
    ss, sl, ds, dl = [z3.Select(c, i) for c in segs.cols]
    ss2, sl2, ds2, dl2 = [z3.Select(c, j) for c in segs.cols]
    # requires
    st.assume(z3.ForAll([i], z3.Implies(z3.And(0 <= i, i < segs.length), z3.And(*[z3.And(0 <= x, x < (1 << 64)) for x in (ss, sl, ds, dl)]))))
    st.assume(z3.ForAll([i, j], z3.Implies(z3.And(0 <= i, i < j, j < segs.length), z3.Or(ss + sl <= ss2, ss2 + sl2 <= ss))))
    st.assume(z3.ForAll([a], z3.Implies(z3.And(0 <= a, a < data.length), z3.And(0 <= z3.Select(data.cols[0], a), z3.Select(data.cols[0], a) < (1 << w)))))
    fn = R.Reader._init_memory
    qn = fn.__qualname__

    def fields(s: State):
        o = s.heap[ref.id]
        return s.heap[o.fields['memory'].id], s.heap[o.fields['zeros_boundaries'].id], s.heap[o.fields['memory_segments'].id]

    def bad(idx):
        x = [z3.Select(c, idx) for c in segs.cols]
        return z3.Or(x[3] % 2 != 0, x[3] > x[1], x[2] + x[3] > data.length)

    def image_word(idx, off):
        x = [z3.Select(c, idx) for c in segs.cols]
        return z3.If(off < x[3], decode_word(z3.Select(data.cols[0], x[2] + off), x[0] + off, off, w, rel), 0)

    def image_props(s: State, k) -> List[Any]:
        mem, zb, ms = fields(s)
        if len(ms.cols) < 2:  # the freshly created empty list
            ms = SList(ms.length, (ms.cols[0], ms.cols[0]), 2)
        if len(zb.cols) < 2:
            zb = SList(zb.length, (zb.cols[0], zb.cols[0]), 2)
        x = [z3.Select(c, j) for c in segs.cols]
        ZB, zw, who = s.ghost['ZB'], s.ghost['zw'], s.ghost['who']
        wa = z3.Select(who, a)
        return [
            ms.length == k,
            z3.ForAll([j], z3.Implies(z3.And(0 <= j, j < k), z3.And(z3.Select(ms.cols[0], j) == x[0], z3.Select(ms.cols[1], j) == x[1], z3.Not(bad(j))))),
            z3.ForAll([j, t], z3.Implies(z3.And(0 <= j, j < k, 0 <= t, t < x[1]), z3.And(absmem_valid(mem, ZB, x[0] + t), absmem_word(mem, x[0] + t) == image_word(j, t)))),
            # nothing else is valid: who[a] names a processed segment containing a (Skolem function of "exists j")
            z3.ForAll([a], z3.Implies(absmem_valid(mem, ZB, a), z3.And(0 <= wa, wa < k, z3.Select(segs.cols[0], wa) <= a, a < z3.Select(segs.cols[0], wa) + z3.Select(segs.cols[1], wa)))),
        ] + zb_ghost_axioms(zb, ZB, zw)

    def outer_havoc(s: State, e: Engine):
        o = s.heap[ref.id]
        s.ghost['ZB'], s.ghost['zw'], s.ghost['who'] = e.fresh_array('ZB', z3.BoolSort()), e.fresh_array('zw'), e.fresh_array('who')
        s.heap[o.fields['memory'].id] = SDict(e.fresh_array('mem_dom_h', z3.BoolSort()), e.fresh_array('mem_val_h'))
        s.heap[o.fields['zeros_boundaries'].id] = SList(e.fresh_int('zb_len', s, 0, None), (e.fresh_array('zb_lo'), e.fresh_array('zb_hi')), 2)
        s.heap[o.fields['memory_segments'].id] = SList(e.fresh_int('ms_len', s, 0, None), (e.fresh_array('ms_s'), e.fresh_array('ms_l')), 2)
        for nm in ('segment_start', 'segment_length', 'data_start', 'data_length', 'i', 'word'):
            s.locals.pop(nm, None)

    def inner_havoc(s: State, e: Engine):
        o = s.heap[ref.id]
        s.heap[o.fields['memory'].id] = SDict(e.fresh_array('mem_dom_i', z3.BoolSort()), e.fresh_array('mem_val_i'))
        if 'i' in s.locals:
            s.locals['i'] = e.fresh_int('i', s)

    def inner_inv(tagname: str, lo_of: Callable, n_of: Callable):
        """after k iterations the cells [ss + lo, ss + lo + n(k)) hold the image words, the rest is as at loop entry"""

        def inv(s: State, k):
            ent = s.ghost[f'entry:{qn}.loop{tagname}']
            mem0 = ent.heap[ent.heap[ref.id].fields['memory'].id]
            mem = s.heap[s.heap[ref.id].fields['memory'].id]
            L = s.locals
            ss_, dl_, ds_ = L['segment_start'], L['data_length'], L['data_start']
            lo, hi = ss_ + lo_of(L), ss_ + lo_of(L) + n_of(L, k)
            inside = z3.And(lo <= a, a < hi)
            off = a - ss_
            val = z3.If(off < dl_, decode_word(z3.Select(data.cols[0], ds_ + off), a, off, w, rel), 0)
            return [
                z3.ForAll([a], z3.Select(mem.dom, a) == z3.Or(z3.Select(mem0.dom, a), inside)),
                z3.ForAll([a], z3.Implies(inside, z3.Select(mem.val, a) == val)),
                z3.ForAll([a], z3.Implies(z3.Not(inside), z3.Select(mem.val, a) == z3.Select(mem0.val, a))),
            ]

        return inv

    eng.loop_specs[(qn, 0)] = LoopSpec(invariant=image_props, havoc=outer_havoc)
    eng.loop_specs[(qn, 1)] = LoopSpec(invariant=inner_inv('1', lambda L: 0, lambda L, k: 2 * k), havoc=inner_havoc)
    eng.loop_specs[(qn, 2)] = LoopSpec(invariant=inner_inv('2', lambda L: 0, lambda L, k: k), havoc=inner_havoc)
    eng.loop_specs[(qn, 3)] = LoopSpec(invariant=inner_inv('3', lambda L: L['data_length'], lambda L, k: k), havoc=inner_havoc)

    # ghost updates ride on the two list appends of the real code
    st.ghost['ZB'], st.ghost['zw'], st.ghost['who'] = z3.K(I, z3.BoolVal(False)), z3.K(I, z3.IntVal(0)), z3.K(I, z3.IntVal(0))
    generic_append = eng.call_builtin_method

    def call_builtin_method(recv, name, args, kwargs, s):
        if name == 'append' and isinstance(recv, Ref):
            o = s.heap[ref.id]
            if recv == o.fields.get('zeros_boundaries') and isinstance(args[0], tuple) and len(args[0]) == 2:
                lo, hi = args[0]
                n_old = s.heap[recv.id].length
                for k_, s2, v in generic_append(recv, name, args, kwargs, s):
                    ZB, zw = s2.ghost['ZB'], s2.ghost['zw']
                    s2.ghost['ZB'] = z3.Lambda([a], z3.Or(z3.Select(ZB, a), z3.And(lo <= a, a < hi)))
                    s2.ghost['zw'] = z3.Lambda([a], z3.If(z3.Select(ZB, a), z3.Select(zw, a), n_old))
                    yield (k_, s2, v)
                return
            if recv == o.fields.get('memory_segments'):
                n_old = s.heap[recv.id].length
                for k_, s2, v in generic_append(recv, name, args, kwargs, s):
                    new = s2.heap[recv.id]
                    s_, l_ = z3.Select(new.cols[0], n_old), z3.Select(new.cols[1], n_old)
                    who = s2.ghost['who']
                    s2.ghost['who'] = z3.Lambda([a], z3.If(z3.And(s_ <= a, a < s_ + l_), n_old, z3.Select(who, a)))
                    yield (k_, s2, v)
                return
        yield from generic_append(recv, name, args, kwargs, s)

    eng.call_builtin_method = call_builtin_method  # type: ignore[assignment]
    extra: List[Obl] = [Obl(f'{eng.name}:cover.requires', list(st.pc), None, 'cover')]
    outs = eng.run_function(fn, st, [ref, sref, dref])
    n_ret = 0
    for idx, (s, sig) in enumerate(outs):
        tag = f'{eng.name}:path{idx}'
        extra.append(Obl(f'{tag}.cover', list(s.pc), None, 'cover'))
        if sig[0] == 'raise':
            extra.append(Obl(f'{tag}.raises_only_the_read_exception', list(s.pc), z3.BoolVal(sig[1].cls is X.FlipJumpReadFjmException)))
            some_bad = z3.Exists([j], z3.And(0 <= j, j < segs.length, bad(j)))
            extra.append(Obl(f'{tag}.raises_only_for_odd_or_out_of_pool_data_ranges', list(s.pc), some_bad))
            continue
        n_ret += 1
        for jj, c in enumerate(image_props(s, segs.length)):
            extra.append(Obl(f'{tag}.ensures_absmem_is_image_of_table_and_pool[{jj}]', list(s.pc), c))
    if n_ret == 0:
        raise Undecided('_init_memory has no normal path')
    extra.append(Obl(f'{eng.name}:canary', list(st.pc), None, 'canary'))
    return finish(eng, extra)
