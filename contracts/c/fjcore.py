"""
Sidecar contracts for flipjump/interpreter/_fjcore.c (the native engine), used by C01/C07/C11/C18/C19.

Ghost:  V : BV64 -> Bool   the valid word addresses (= union of the segments; `flat_seg_contains` and
                            `word_is_valid` are verified to compute it)
Abstraction of a MemoryObject m (garbage_stop == 1, the only mode fjm_run uses):
  absM(m)(a) = flat[a]                         if flat != NULL and a < flat_count
             = pg_words[a >> 14][a & 0x3fff]   otherwise (words of pages that do not exist are 0: model
                                               normalisation, as unobservable as an unallocated page)
Representation invariant Rep(m, V):
  R2  flat != NULL => forall a < flat_count:  V(a) => (w <= 32 => flat[a] <= word_mask)
                                              not V(a) => flat[a] == FILL_w   (bit 63 / the w=64 magic)
  R3  every page word <= word_mask
  R4  validity soundness: pg_exists[p] and valid_start[p] <= off < valid_end[p] => V(p << 14 | off);
      valid_end[p] <= PAGE_WORDS
  R5  cache coherence: for s < 16: key_plus1[s] != 0 => (key-1) & 15 == s and cache_page[s] == key-1 == cache_words[s]
      (non-NULL), pg_exists[key-1], cached valid range == the page's
  R6  pages only exist for page indices below 2^50 (word addresses are 64-bit)
"""
from __future__ import annotations

from typing import Any, Callable, Dict, List, Optional, Tuple

import z3

from vc.common import Obl, Undecided
from vc.cvc.exec import BV64, NULL, CExec, CState, Ptr, u64

PAGE_BITS = 14
PAGE_WORDS = 1 << 14
PAGE_MASK = PAGE_WORDS - 1
GARBAGE_SENTINEL = 1 << 63
FLAT_GARBAGE_MAGIC = 0xBB67AE8584CAA73B
WW = {8: 3, 16: 4, 32: 5, 64: 6}

BOOL = z3.BoolSort()
ARR = z3.ArraySort(BV64, BV64)


def i32(v: int):
    return z3.BitVecVal(v, 32)


class NativeModel:
    """a MemoryObject in an arbitrary state satisfying Rep, for a concrete width"""

    def __init__(self, w: int, tag: str = '', flat: Optional[bool] = None):
        self.w, self.ww = w, WW[w]
        self.mask = (1 << w) - 1
        self.V = z3.Array('V' + tag, BV64, BOOL)
        self.new_vstart = z3.Function('new_valid_start' + tag, BV64, BV64)
        self.new_vend = z3.Function('new_valid_end' + tag, BV64, BV64)
        st = CState()
        M = st.M
        M['f:w'], M['f:ww'] = i32(w), i32(self.ww)
        M['f:word_mask'] = u64(self.mask)
        M['f:garbage_stop'] = i32(1)
        M['f:flat_count'] = z3.BitVec('flat_count' + tag, 64)
        M['flat_nonnull'] = z3.Bool('flat_nonnull' + tag) if flat is None else z3.BoolVal(flat)
        M['flat'] = z3.Array('flat' + tag, BV64, BV64)
        M['f:mem_error'] = z3.BitVec('mem_error' + tag, 32)
        M['f:error_bit_address'] = z3.BitVec('error_bit_address' + tag, 64)
        M['f:last_run_op_count'] = z3.BitVec('last_run_op_count' + tag, 64)
        M['f:segment_count'] = z3.BitVec('segment_count' + tag, 64)
        M['f:segment_capacity'] = z3.BitVec('segment_capacity' + tag, 64)
        M['f:segments_sorted'] = z3.BitVec('segments_sorted' + tag, 32)
        M['f:flat_covers_all'] = z3.BitVec('flat_covers_all' + tag, 32)
        M['seg_start'] = z3.Array('seg_start' + tag, BV64, BV64)
        M['seg_end'] = z3.Array('seg_end' + tag, BV64, BV64)
        M['pg_exists'] = z3.Array('pg_exists' + tag, BV64, BOOL)
        M['pg_words'] = z3.Array('pg_words' + tag, BV64, ARR)
        M['pg_valid_start'] = z3.Array('pg_valid_start' + tag, BV64, BV64)
        M['pg_valid_end'] = z3.Array('pg_valid_end' + tag, BV64, BV64)
        for nm in ('page_cache_key_plus1', 'page_cache_page', 'page_cache_words', 'page_cache_valid_start', 'page_cache_valid_end'):
            M['a:' + nm] = z3.Array(nm + tag, BV64, BV64)
        M['a:page_cache_page#null'] = z3.Array('page_cache_page_null' + tag, BV64, BOOL)
        M['a:page_cache_words#null'] = z3.Array('page_cache_words_null' + tag, BV64, BOOL)
        M['pyerr'] = z3.BoolVal(False)
        M['pyerr_is_eof'] = z3.BoolVal(False)
        st.vars['m'] = st.vars['self'] = Ptr('mem')
        self.st0 = st
        st.assume(z3.UGE(M['f:segment_count'], u64(0)))
        st.assume(M['f:segment_count'] >= 0)
        st.assume(z3.Implies(M['flat_nonnull'], z3.UGT(M['f:flat_count'], u64(0))))

    # ---- abstraction
    def absM(self, st: CState, a):
        M = st.M
        paged = z3.Select(z3.Select(M['pg_words'], z3.LShR(a, u64(PAGE_BITS))), a & u64(PAGE_MASK))
        return z3.If(z3.And(M['flat_nonnull'], z3.ULT(a, M['f:flat_count'])), z3.Select(M['flat'], a), paged)

    def in_flat(self, st: CState, a):
        return z3.And(st.M['flat_nonnull'], z3.ULT(a, st.M['f:flat_count']))

    def is_garbage(self, v):
        return (v & u64(GARBAGE_SENTINEL)) != 0 if self.w <= 32 else v == u64(FLAT_GARBAGE_MAGIC)

    def fill(self):
        return u64(GARBAGE_SENTINEL if self.w <= 32 else FLAT_GARBAGE_MAGIC)

    # ---- invariants
    def R2_at(self, st: CState, a):
        M = st.M
        val = z3.Select(M['flat'], a)
        good = z3.ULE(val, u64(self.mask)) if self.w <= 32 else z3.BoolVal(True)
        return z3.Implies(self.in_flat(st, a), z3.And(z3.Implies(z3.Select(self.V, a), good), z3.Implies(z3.Not(z3.Select(self.V, a)), val == self.fill())))

    def R2(self, st: CState):
        a = z3.BitVec('a_r2', 64)
        return z3.ForAll([a], self.R2_at(st, a))

    def R3(self, st: CState):
        p, o = z3.BitVecs('p_r3 o_r3', 64)
        return z3.ForAll([p, o], z3.ULE(z3.Select(z3.Select(st.M['pg_words'], p), o), u64(self.mask)))

    def R4(self, st: CState):
        """validity soundness, stated per word address a (page a >> 14, offset a & MASK) so that V[a] is the trigger"""
        a, p = z3.BitVecs('a_r4 p_r4', 64)
        M = st.M
        pa, oa = z3.LShR(a, u64(PAGE_BITS)), a & u64(PAGE_MASK)
        return z3.And(
            z3.ForAll([p], z3.Implies(z3.Select(M['pg_exists'], p), z3.ULE(z3.Select(M['pg_valid_end'], p), u64(PAGE_WORDS)))),
            z3.ForAll([a], z3.Implies(z3.And(z3.Select(M['pg_exists'], pa), z3.ULE(z3.Select(M['pg_valid_start'], pa), oa), z3.ULT(oa, z3.Select(M['pg_valid_end'], pa))), z3.Select(self.V, a))),
        )

    def R5_at(self, st: CState, s):
        M = st.M
        key = z3.Select(M['a:page_cache_key_plus1'], s)
        p = key - 1
        return z3.Implies(
            key != 0,
            z3.And(
                (p & u64(15)) == s,
                z3.Select(M['a:page_cache_page'], s) == p,
                z3.Not(z3.Select(M['a:page_cache_page#null'], s)),
                z3.Select(M['a:page_cache_words'], s) == p,
                z3.Not(z3.Select(M['a:page_cache_words#null'], s)),
                z3.Select(M['pg_exists'], p),
                z3.Select(M['a:page_cache_valid_start'], s) == z3.Select(M['pg_valid_start'], p),
                z3.Select(M['a:page_cache_valid_end'], s) == z3.Select(M['pg_valid_end'], p),
                z3.ULT(p, u64(1 << 50)),
            ),
        )

    def R5(self, st: CState):
        s = z3.BitVec('s_r5', 64)
        return z3.ForAll([s], z3.Implies(z3.ULT(s, u64(16)), self.R5_at(st, s)))

    def R6(self, st: CState):
        p = z3.BitVec('p_r6', 64)
        return z3.ForAll([p], z3.Implies(z3.Select(st.M['pg_exists'], p), z3.ULT(p, u64(1 << 50))))

    def normal(self, st: CState):
        p, o = z3.BitVecs('p_nm o_nm', 64)
        return z3.ForAll([p, o], z3.Implies(z3.Not(z3.Select(st.M['pg_exists'], p)), z3.Select(z3.Select(st.M['pg_words'], p), o) == 0))

    def rep(self, st: CState) -> List[Any]:
        return [self.R2(st), self.R3(st), self.R4(st), self.R5(st), self.R6(st), self.normal(st)]

    REP_DEPENDS = (
        ('flat', 'flat_nonnull', 'f:flat_count'),
        ('pg_words',),
        ('pg_exists', 'pg_valid_start', 'pg_valid_end'),
        ('pg_exists', 'pg_valid_start', 'pg_valid_end', 'a:page_cache_key_plus1', 'a:page_cache_page', 'a:page_cache_words', 'a:page_cache_valid_start', 'a:page_cache_valid_end', 'a:page_cache_page#null', 'a:page_cache_words#null'),
        ('pg_exists',),
        ('pg_exists', 'pg_words'),
    )

    def rep_changed(self, start: CState, st: CState) -> List[Tuple[str, Any]]:
        """(name, formula) of the Rep conjuncts whose memory components differ from `start` (where Rep was
        assumed): the others hold trivially and generate no obligation"""
        out = []
        for name, deps, c in zip(self.rep_names(), self.REP_DEPENDS, self.rep(st)):
            if any(not (start.M[k] is st.M[k] or start.M[k].eq(st.M[k])) for k in deps):
                out.append((name, c))
        return out

    def rep_names(self) -> List[str]:
        return ['R2_flat_array', 'R3_page_words_fit', 'R4_validity_soundness', 'R5_cache_coherence', 'R6_page_index_range', 'model_normalisation']

    # ---- state comparison (for body-vs-contract checks)
    MEM_KEYS = ('flat', 'f:mem_error', 'f:error_bit_address', 'pg_exists', 'pg_words', 'pg_valid_start', 'pg_valid_end', 'a:page_cache_key_plus1', 'a:page_cache_page', 'a:page_cache_words', 'a:page_cache_valid_start', 'a:page_cache_valid_end', 'a:page_cache_page#null', 'a:page_cache_words#null', 'pyerr', 'f:last_run_op_count')

    def same_state(self, s1: CState, s2: CState, keys: Optional[Tuple[str, ...]] = None) -> Any:
        cs = []
        for k in keys or self.MEM_KEYS:
            a, b = s1.M[k], s2.M[k]
            if a is not b:
                cs.append(a == b)
        return z3.And(*cs) if cs else z3.BoolVal(True)

    # ------------------------------------------------------------------ contracts
    def install(self, ex: CExec, names: Tuple[str, ...]) -> None:
        table = self.contracts()
        for n in names:
            ex.contracts[n] = table[n]

    def contracts(self) -> Dict[str, Callable]:
        w, ww = self.w, self.ww

        def ret32(v: int):
            return i32(v)

        def set_mem_error(st: CState, addr_word) -> CState:
            s = st.fork()
            s.M['f:mem_error'] = i32(1)
            s.M['f:error_bit_address'] = addr_word << u64(ww)
            return s

        # ---- [A] the page table
        def mem_get_page(ex: CExec, st: CState, args, node):
            """[A] open-addressing page table (mem_get_page / mem_grow_slots / page_compute_validity):
            returns the page of that index, allocating a zero page with a sound fast-valid range if absent,
            and refills cache slot index & 15; or NULL with a python error and no change."""
            p = args[1]
            s_null = st.fork()
            s_null.M['pyerr'] = z3.BoolVal(True)
            s_null.trace.append(('alloc-fail',))
            s_null.path.append('mem_get_page:NULL')
            yield (s_null, NULL)
            s = st.fork()
            s.path.append('mem_get_page:ok')
            M = s.M
            existed = z3.Select(M['pg_exists'], p)
            vs = z3.If(existed, z3.Select(M['pg_valid_start'], p), self.new_vstart(p))
            ve = z3.If(existed, z3.Select(M['pg_valid_end'], p), self.new_vend(p))
            o = z3.BitVec('o_gp', 64)
            # assumed of page_compute_validity: the fast range of a new page is sound (R4) and inside the page
            s.assume(z3.ULE(self.new_vend(p), u64(PAGE_WORDS)))
            s.assume(z3.ForAll([o], z3.Implies(z3.And(z3.LShR(o, u64(PAGE_BITS)) == p, z3.ULE(self.new_vstart(p), o & u64(PAGE_MASK)), z3.ULT(o & u64(PAGE_MASK), self.new_vend(p))), z3.Select(self.V, o))))
            # model normalisation instance: a page that did not exist reads as zeros
            s.assume(z3.Implies(z3.Not(existed), z3.Select(M['pg_words'], p) == z3.K(BV64, u64(0))))
            ex.oblige(st, 'call.mem_get_page.requires_page_index_below_2^50', z3.ULT(p, u64(1 << 50)), kind='contract-precondition')
            M['pg_exists'] = z3.Store(M['pg_exists'], p, z3.BoolVal(True))
            M['pg_valid_start'] = z3.Store(M['pg_valid_start'], p, vs)
            M['pg_valid_end'] = z3.Store(M['pg_valid_end'], p, ve)
            slot = p & u64(15)
            M['a:page_cache_key_plus1'] = z3.Store(M['a:page_cache_key_plus1'], slot, p + 1)
            M['a:page_cache_page'] = z3.Store(M['a:page_cache_page'], slot, p)
            M['a:page_cache_words'] = z3.Store(M['a:page_cache_words'], slot, p)
            M['a:page_cache_page#null'] = z3.Store(M['a:page_cache_page#null'], slot, z3.BoolVal(False))
            M['a:page_cache_words#null'] = z3.Store(M['a:page_cache_words#null'], slot, z3.BoolVal(False))
            M['a:page_cache_valid_start'] = z3.Store(M['a:page_cache_valid_start'], slot, vs)
            M['a:page_cache_valid_end'] = z3.Store(M['a:page_cache_valid_end'], slot, ve)
            yield (s, Ptr('page', p))

        # ---- validity
        def flat_seg_contains(ex, st, args, node):
            yield (st, z3.If(z3.Select(self.V, args[1]), i32(1), i32(0)))

        def word_is_valid(ex, st, args, node):
            yield (st, z3.If(z3.Select(self.V, args[1]), i32(1), i32(0)))

        def flat_is_garbage(ex, st, args, node):
            yield (st, z3.If(self.is_garbage(args[1]), i32(1), i32(0)))

        def flat_garbage(ex, st, args, node):
            yield (set_mem_error(st, args[1]), i32(0))

        def flat_garbage_check(ex, st, args, node):
            a = args[1]
            real = z3.And(z3.BoolVal(w > 32), z3.Select(self.V, a))
            for s, isreal in ex.branch(st, real, 'flat_garbage_check.real_data'):
                if isreal:
                    yield (s, i32(0))
                else:
                    yield (set_mem_error(s, a), i32(-1))

        def access_check(ex, st, args, node):
            page, a = args[1], args[2]
            ex.oblige(st, 'call.access_check.requires_the_page_of_that_word', z3.And(z3.Not(page.null), page.where == z3.LShR(a, u64(PAGE_BITS)), z3.Select(st.M['pg_exists'], page.where)), kind='contract-precondition')
            for s, ok in ex.branch(st, z3.Select(self.V, a), 'access_check.valid'):
                if ok:
                    yield (s, i32(1))
                else:
                    yield (set_mem_error(s, a), i32(0))

        def merge(c, sa: CState, sb: CState) -> CState:
            """state that equals sa where c holds and sb elsewhere (memory components only; same locals)"""
            s = sa.fork()
            for k in set(sa.M) | set(sb.M):
                x, y = sa.M.get(k), sb.M.get(k)
                if x is y or (x is not None and y is not None and x.eq(y)):
                    continue
                s.M[k] = z3.If(c, x, y)
            return s

        def with_page(ex, st: CState, p) -> CState:
            """the state after a successful mem_get_page(p) (its NULL outcome is handled by the callers)"""
            outs = [(s, r) for s, r in mem_get_page(ex, st, [None, p], None) if r is not NULL]
            s = outs[0][0]
            s.path = list(st.path)
            return s

        def out_store(st: CState, outp: Any, val) -> CState:
            s = st.fork()
            if isinstance(outp, Ptr) and outp.kind in ('u64', 'localptr') and outp.where[0] == 'local':
                s.vars[outp.where[1]] = val
            else:
                raise Undecided(f'out parameter {outp!r}')
            return s

        def pyerr_state(st: CState) -> CState:
            s = st.fork()
            s.M['pyerr'] = z3.BoolVal(True)
            if not s.trace or s.trace[-1] != ('alloc-fail',):
                s.trace.append(('alloc-fail',))
            return s

        def access(ex, st: CState, a):
            """common part of the three accessors: (state after routing, in_flat).  The page route refills the
            cache; the flat route touches nothing.  Outcomes are MERGED with If so a caller sees three
            cases per access (ok / memory error / python error), not one per route."""
            fl = self.in_flat(st, a)
            s_pg = with_page(ex, st, z3.LShR(a, u64(PAGE_BITS)))
            # the assumptions with_page added are about the page route only
            extra = s_pg.pc[len(st.pc):]
            s = merge(fl, st, s_pg)
            s.pc = list(st.pc) + [z3.Or(fl, c) for c in extra]
            return s, fl

        def mem_read_word(ex, st, args, node):
            a, outp = args[1], args[2]
            s, fl = access(ex, st, a)
            for s2, ok in ex.branch(s, z3.Select(self.V, a), 'mem_read_word.valid'):
                if ok:
                    yield (out_store(s2, outp, self.absM(s2, a)), i32(0))
                else:
                    yield (set_mem_error(s2, a), i32(-1))
            for s3, paged in ex.branch(st, z3.Not(fl), 'mem_read_word.page_alloc_fails'):
                if paged:
                    yield (pyerr_state(s3), i32(-1))

        def write_abs(st: CState, a, val) -> CState:
            s = st.fork()
            M = s.M
            fl = self.in_flat(st, a)
            p, o = z3.LShR(a, u64(PAGE_BITS)), a & u64(PAGE_MASK)
            M['flat'] = z3.If(fl, z3.Store(M['flat'], a, val), M['flat'])
            M['pg_words'] = z3.If(fl, M['pg_words'], z3.Store(M['pg_words'], p, z3.Store(z3.Select(M['pg_words'], p), o, val)))
            return s

        def rmw(ex, st, b, f_new, label):
            a = z3.LShR(b, u64(ww))
            bit = u64(1) << (b & u64(w - 1))
            s, fl = access(ex, st, a)
            for s2, ok in ex.branch(s, z3.Select(self.V, a), label + '.valid'):
                if ok:
                    yield (write_abs(s2, a, f_new(self.absM(s2, a), bit)), i32(0))
                else:
                    yield (set_mem_error(s2, a), i32(-1))
            for s3, paged in ex.branch(st, z3.Not(fl), label + '.page_alloc_fails'):
                if paged:
                    yield (pyerr_state(s3), i32(-1))

        def mem_flip_bit(ex, st, args, node):
            yield from rmw(ex, st, args[1], lambda cur, bit: cur ^ bit, 'mem_flip_bit')

        def mem_write_bit(ex, st, args, node):
            v = args[2]
            t = v if isinstance(v, z3.BoolRef) else (v != 0)
            yield from rmw(ex, st, args[1], lambda cur, bit: z3.If(t, cur | bit, cur & ~bit), 'mem_write_bit')

        def mem_get_word_unaligned(ex, st, args, node):
            b, outp = args[1], args[2]
            a = z3.LShR(b, u64(ww))
            off = b & u64(w - 1)
            for s, al in ex.branch(st, off == 0, 'getword.aligned'):
                if al:
                    yield from mem_read_word(ex, s, [None, a, outp], node)
                    continue
                for s1, top in ex.branch(s, a == u64(self.mask), 'getword.top'):
                    if top:
                        s2 = s1.fork()
                        s2.M['f:mem_error'] = i32(1)
                        s2.M['f:error_bit_address'] = b
                        yield (s2, i32(-1))
                        continue
                    sa, fl_a = access(ex, s1, a)
                    sb, fl_b = access(ex, sa, a + 1)
                    va, vb = z3.Select(self.V, a), z3.Select(self.V, a + 1)
                    # ok: both words valid
                    for s_ok, ok in ex.branch(sb, z3.And(va, vb), 'getword.both_valid'):
                        if ok:
                            val = (z3.LShR(self.absM(s_ok, a), off) | (self.absM(s_ok, a + 1) << (u64(w) - off))) & u64(self.mask)
                            yield (out_store(s_ok, outp, val), i32(0))
                    # memory error: the low word first
                    for s_lo, bad in ex.branch(sa, z3.Not(va), 'getword.low_invalid'):
                        if bad:
                            yield (set_mem_error(s_lo, a), i32(-1))
                    for s_hi, bad in ex.branch(sb, z3.And(va, z3.Not(vb)), 'getword.high_invalid'):
                        if bad:
                            yield (set_mem_error(s_hi, a + 1), i32(-1))
                    # python error: allocating the page of the low word, or (low word valid) of the high word
                    for s_p, paged in ex.branch(s1, z3.Not(fl_a), 'getword.low_page_alloc_fails'):
                        if paged:
                            yield (pyerr_state(s_p), i32(-1))
                    for s_p, paged in ex.branch(sa, z3.And(va, z3.Not(fl_b)), 'getword.high_page_alloc_fails'):
                        if paged:
                            yield (pyerr_state(s_p), i32(-1))

        return dict(
            mem_get_page=mem_get_page,
            flat_seg_contains=flat_seg_contains,
            word_is_valid=word_is_valid,
            flat_is_garbage=flat_is_garbage,
            flat_garbage=flat_garbage,
            flat_garbage_check=flat_garbage_check,
            access_check=access_check,
            mem_read_word=mem_read_word,
            mem_flip_bit=mem_flip_bit,
            mem_write_bit=mem_write_bit,
            mem_get_word_unaligned=mem_get_word_unaligned,
        )
