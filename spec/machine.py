"""
The FlipJump machine of the property statement (C01), once as an executable reference (`Machine`)
and once as a z3 term builder (`SymStep`) - the same definition read two ways.

State: w, V (valid word addresses = union of the loaded segments), M (word -> w-bit value), ip,
n (executed ops), input bit stream, output bit list.

step:  f := getword(ip)                        (fault -> halt MemoryError(n, address))
       if f in {2w, 2w+1}: emit (f == 2w+1)
       if in_addr - 2w < ip <= in_addr:  (in_addr = 3w + #w)
             no input left -> halt EOF(n);  else write the bit at in_addr (fault if its word invalid)
       flip bit f                              (fault if its word is invalid)
       j := getword(ip + w)                    (fault ...)
       n := n + 1
       j == ip and not (ip <= f < ip + 2w) -> halt Looping(n)
       j < 2w                              -> halt NullIP(n)
       ip := j
getword(a): aligned -> M[a >> ww] (invalid word: fault at (a >> ww) << ww);
            unaligned -> word == 2^w - 1: fault at a; else low word, then high word (first invalid one
            faults at its own word address), value ((lo >> off) | (hi << (w - off))) mod 2^w.
"""
from __future__ import annotations

from typing import Any, Callable, Dict, Iterable, List, Optional, Tuple

LOOPING, EOF, NULLIP, MEMERR = 'looping', 'eof', 'nullip', 'memory-error'


class Fault(Exception):
    def __init__(self, address: int):
        self.address = address


class Machine:
    """executable reference"""

    def __init__(self, w: int, segments: Iterable[Tuple[int, int]], words: Dict[int, int]):
        self.w, self.ww = w, w.bit_length() - 1
        self.mask = (1 << w) - 1
        self.segments = [(s, l) for s, l in segments]
        self.mem = dict(words)
        self.ip, self.n = 0, 0
        self.out: List[bool] = []
        self.last: List[int] = []
        self.events: List[tuple] = []

    def valid(self, a: int) -> bool:
        return any(s <= a < s + l for s, l in self.segments)

    def word(self, a: int) -> int:
        a &= self.mask
        if not self.valid(a):
            raise Fault(a << self.ww)
        return self.mem.get(a, 0)

    def getword(self, b: int) -> int:
        a, off = (b >> self.ww) & self.mask, b & (self.w - 1)
        if off == 0:
            return self.word(a)
        if a == self.mask:
            raise Fault(b)
        lo = self.word(a)
        hi = self.word(a + 1)
        return ((lo >> off) | (hi << (self.w - off))) & self.mask

    def step(self, read_bit: Callable[[], Optional[bool]], write_bit: Callable[[bool], None]) -> Optional[tuple]:
        """one op; returns None to continue or (cause, n, address)"""
        w = self.w
        ip = self.ip
        self.last.append(ip)
        try:
            f = self.getword(ip)
            if f in (2 * w, 2 * w + 1):
                write_bit(f == 2 * w + 1)
            in_addr = 3 * w + w.bit_length()
            if in_addr - 2 * w < ip <= in_addr:
                b = read_bit()
                if b is None:
                    return (EOF, self.n, None)
                a = (in_addr >> self.ww) & self.mask
                v = self.word(a)
                bit = 1 << (in_addr & (w - 1))
                self.mem[a] = (v | bit) if b else (v & ~bit)
            fa = (f >> self.ww) & self.mask
            v = self.word(fa)
            self.mem[fa] = v ^ (1 << (f & (w - 1)))
            j = self.getword(ip + w)
        except Fault as e:
            return (MEMERR, self.n, e.address)
        self.n += 1
        if j == ip and not (ip <= f < ip + 2 * w):
            return (LOOPING, self.n, None)
        if j < 2 * w:
            return (NULLIP, self.n, None)
        self.ip = j
        return None

    def run(self, inp: bytes, max_ops: int) -> Optional[tuple]:
        bits = [bool((inp[i // 8] >> (i % 8)) & 1) for i in range(8 * len(inp))]
        pos = [0]

        def rd():
            if pos[0] >= len(bits):
                return None
            pos[0] += 1
            return bits[pos[0] - 1]

        for _ in range(max_ops):
            r = self.step(rd, self.out.append)
            if r is not None:
                return r
        return None  # budget exhausted


# ----------------------------------------------------------------------------- symbolic reading


class SymStep:
    """spec of one op over z3 bit-vectors of width N (N large enough that nothing wraps).
    V: array BV(N)->Bool, M: array BV(N)->BV(w) (w-bit words).  All results are z3 terms."""

    def __init__(self, z3mod: Any, N: int, w: int, V: Any, M: Any, ip: Any, in_bit: Any, in_available: Any, index_bits: Optional[int] = None):
        z3 = z3mod
        self.z3, self.N, self.w, self.ww = z3, N, w, w.bit_length() - 1
        bv = lambda v: z3.BitVecVal(v, N)  # noqa: E731
        self.bv = bv
        mask = bv((1 << w) - 1)
        ww = bv(self.ww)

        # memory arrays may be indexed by fewer bits than the arithmetic width N (the C engine: 64-bit word
        # addresses, 72-bit arithmetic); an address beyond the index range is simply not valid
        ib = index_bits or N
        ix = (lambda a: a) if ib == N else (lambda a: z3.Extract(ib - 1, 0, a))  # noqa: E731
        inrange = (lambda a: z3.BoolVal(True)) if ib == N else (lambda a: z3.Extract(N - 1, ib, a) == 0)  # noqa: E731
        Varr = V
        V = None
        valid = lambda a: z3.And(inrange(a), z3.Select(Varr, ix(a)))  # noqa: E731
        sel = lambda Mx, a: z3.ZeroExt(N - w, z3.Select(Mx, ix(a)))  # noqa: E731
        sto = lambda Mx, a, v: z3.Store(Mx, ix(a), z3.Extract(w - 1, 0, v))  # noqa: E731
        self.sel = sel
        self.ix = ix

        def getword(Mx, b):
            a = z3.LShR(b, ww) & mask
            off = b & bv(w - 1)
            lo_ok = valid(a)
            hi_ok = valid(a + 1)
            top = a == mask
            aligned = off == 0
            fault = z3.If(aligned, z3.Not(lo_ok), z3.Or(top, z3.Not(lo_ok), z3.Not(hi_ok)))
            faddr = z3.If(aligned, a << ww, z3.If(top, b, z3.If(z3.Not(lo_ok), a << ww, (a + 1) << ww)))
            val = z3.If(aligned, sel(Mx, a), (z3.LShR(sel(Mx, a), off) | (sel(Mx, a + 1) << (bv(w) - off))) & mask)
            return fault, faddr, val

        self.f_fault, self.f_faddr, self.f = getword(M, ip)
        f = self.f
        self.outputs = z3.Or(f == bv(2 * w), f == bv(2 * w + 1))
        self.out_bit = f == bv(2 * w + 1)
        in_addr = 3 * w + w.bit_length()
        self.in_addr = in_addr
        self.reads = z3.And(z3.UGT(ip + bv(2 * w), bv(in_addr)), z3.ULE(ip, bv(in_addr)))  # in_addr - 2w < ip <= in_addr
        self.eof = z3.And(self.reads, z3.Not(in_available))
        ia = bv((in_addr >> self.ww) & ((1 << w) - 1))
        ibit = bv(1 << (in_addr & (w - 1)))
        self.in_fault = z3.And(self.reads, z3.Not(valid(ia)))
        self.in_faddr = ia << ww
        v0 = sel(M, ia)
        self.M1 = z3.If(self.reads, sto(M, ia, z3.If(in_bit, v0 | ibit, v0 & ~ibit & mask)), M)
        fa = z3.LShR(f, ww) & mask
        self.flip_fault = z3.Not(valid(fa))
        self.flip_faddr = fa << ww
        self.M2 = sto(self.M1, fa, sel(self.M1, fa) ^ (bv(1) << (f & bv(w - 1))))
        self.j_fault, self.j_faddr, self.j = getword(self.M2, ip + bv(w))
        j = self.j
        self.looping = z3.And(j == ip, z3.Not(z3.And(z3.ULE(ip, f), z3.ULT(f, ip + bv(2 * w)))))
        self.nullip = z3.ULT(j, bv(2 * w))
        # outcome classification, in the order of the definition
        self.fault = z3.Or(self.f_fault, z3.And(z3.Not(self.eof), z3.Or(self.in_fault, self.flip_fault, self.j_fault)))
        self.fault_addr = z3.If(self.f_fault, self.f_faddr, z3.If(self.in_fault, self.in_faddr, z3.If(self.flip_fault, self.flip_faddr, self.j_faddr)))
        self.completes = z3.And(z3.Not(self.f_fault), z3.Not(self.eof), z3.Not(self.in_fault), z3.Not(self.flip_fault), z3.Not(self.j_fault))
