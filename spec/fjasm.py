"""
Reference semantics of the .fj language for generated programs (C02, C03, C16, C13, C20 bounded oracles).

Programs are generated as an AST (below), printed to .fj text for the real assembler, and given a meaning here by
an independent route: hygienic textual inlining (every expansion gets a unique path; local labels are renamed
apart; arguments are substituted as already-evaluated expression trees; rep is unrolled) followed by the
denotation of the primitive statements (addresses, words, labels).  wflip statements are checked by EXECUTION
on the machine of spec.machine (the placement of their auxiliary ops is the assembler's freedom).
"""
from __future__ import annotations

import random
from dataclasses import dataclass, field
from typing import Any, Dict, List, Optional, Tuple, Union

# ----------------------------------------------------------------------------- expressions

Expr = Union[int, str, tuple]  # int | name | (op, a, b) | ('$',)


def e_str(e: Expr) -> str:
    if isinstance(e, int):
        return str(e) if e >= 0 else f'(0-{-e})'
    if isinstance(e, str):
        return e
    if e[0] == '$':
        return '$'
    return f'({e_str(e[1])} {e[0]} {e_str(e[2])})'


_OPS = {'+': lambda a, b: a + b, '-': lambda a, b: a - b, '*': lambda a, b: a * b, '&': lambda a, b: a & b, '|': lambda a, b: a | b, '^': lambda a, b: a ^ b}


def e_subst(e: Expr, env: Dict[str, Expr]) -> Expr:
    """simultaneous single-pass substitution"""
    if isinstance(e, int):
        return e
    if isinstance(e, str):
        return env.get(e, e)
    if e[0] == '$':
        return e
    return (e[0], e_subst(e[1], env), e_subst(e[2], env))


def e_eval(e: Expr, labels: Dict[str, int], dollar: Optional[int]) -> int:
    if isinstance(e, int):
        return e
    if isinstance(e, str):
        if e not in labels:
            raise KeyError(e)
        return labels[e]
    if e[0] == '$':
        assert dollar is not None
        return dollar
    return _OPS[e[0]](e_eval(e[1], labels, dollar), e_eval(e[2], labels, dollar))


# ----------------------------------------------------------------------------- program AST


@dataclass
class Op:
    f: Expr
    j: Expr


@dataclass
class Label:
    name: str  # as written (a simple identifier; inside `ns` it gets the namespace prefix)


@dataclass
class WFlip:
    a: Expr
    v: Expr
    r: Optional[Expr]


@dataclass
class Pad:
    k: Expr


@dataclass
class Segment:
    addr: Expr


@dataclass
class Reserve:
    bits: Expr


@dataclass
class Call:
    name: str  # full macro name
    args: List[Expr]
    written: Optional[str] = None  # how the name is written at the call site (relative / dotted); default = name


@dataclass
class Rep:
    n: Expr
    it: str
    name: str
    args: List[Expr]


@dataclass
class MacroDef:
    name: str  # base name
    ns: str  # namespace it is defined in ('' = top)
    params: List[str]
    locals_: List[str]
    body: List[Any]

    @property
    def full(self) -> str:
        return f'{self.ns}.{self.name}' if self.ns else self.name


@dataclass
class Start:
    """marker: a macro expansion (or the main program) begins here"""

    path: str


@dataclass
class Program:
    consts: Dict[str, int]
    macros: List[MacroDef]
    main: List[Any]


def _stmt_str(s: Any, ind: str = '') -> List[str]:
    if isinstance(s, Op):
        return [f'{ind}{e_str(s.f)};{e_str(s.j)}']
    if isinstance(s, Label):
        return [f'{ind}{s.name}:']
    if isinstance(s, WFlip):
        return [f'{ind}wflip {e_str(s.a)}, {e_str(s.v)}' + (f', {e_str(s.r)}' if s.r is not None else '')]
    if isinstance(s, Pad):
        return [f'{ind}pad {e_str(s.k)}']
    if isinstance(s, Segment):
        return [f'{ind}segment {e_str(s.addr)}']
    if isinstance(s, Reserve):
        return [f'{ind}reserve {e_str(s.bits)}']
    if isinstance(s, Call):
        nm = s.written or s.name
        return [f'{ind}{nm}' + (' ' + ', '.join(e_str(a) for a in s.args) if s.args else '')]
    if isinstance(s, Rep):
        return [f'{ind}rep({e_str(s.n)}, {s.it}) {s.name}' + (' ' + ', '.join(e_str(a) for a in s.args) if s.args else '')]
    raise TypeError(s)


def to_text(p: Program, split_at: Optional[List[int]] = None) -> List[str]:
    """the program as one or several files (split at top-level statement indices of main)"""
    head: List[str] = []
    for k, v in p.consts.items():
        head.append(f'{k} = {v}')
    by_ns: Dict[str, List[MacroDef]] = {}
    for m in p.macros:
        by_ns.setdefault(m.ns, []).append(m)
    for ns, ms in by_ns.items():
        ind = ''
        for part in (ns.split('.') if ns else []):
            head.append(f'{ind}ns {part} {{')
            ind += '  '
        for m in ms:
            sig = ' '.join(x for x in [', '.join(m.params), ('@ ' + ', '.join(m.locals_)) if m.locals_ else ''] if x)
            head.append(f'{ind}def {m.name}' + (f' {sig}' if sig else '') + ' {')
            for s in m.body:
                head += _stmt_str(s, ind + '  ')
            head.append(f'{ind}}}')
        for _ in (ns.split('.') if ns else []):
            ind = ind[:-2]
            head.append(f'{ind}}}')
    files: List[List[str]] = [list(head)]
    cuts = sorted(set(split_at or []))
    for i, s in enumerate(p.main):
        if i in cuts and files[-1]:
            files.append([])
        files[-1] += _stmt_str(s)
    return ['\n'.join(f) + '\n' for f in files]


# ----------------------------------------------------------------------------- reference semantics


@dataclass
class Flat:
    """macro-free program: primitive statements with globally unique label names"""

    stmts: List[Any] = field(default_factory=list)
    label_paths: Dict[str, str] = field(default_factory=dict)  # unique label -> source label (for the debug table)


class RefError(Exception):
    pass


def inline(p: Program, w: int, max_depth: int = 40) -> Flat:
    macros = {(m.full, len(m.params)): m for m in p.macros}
    out = Flat()
    counter = [0]
    consts: Dict[str, Expr] = {k: v for k, v in p.consts.items()}
    consts['w'] = w

    def expand(body: List[Any], env: Dict[str, Expr], path: str, depth: int, ns: str) -> None:
        if depth > max_depth:
            raise RefError('recursion')
        for s in body:
            if isinstance(s, Label):
                nm = s.name
                if nm in env:
                    tgt = env[nm]
                    if not isinstance(tgt, str):
                        raise RefError('label parameter bound to a non-name')
                    out.stmts.append(Label(tgt))
                else:
                    out.stmts.append(Label(f'{ns}.{nm}' if ns and depth == 0 else nm))
            elif isinstance(s, Op):
                out.stmts.append(Op(e_subst(s.f, env), e_subst(s.j, env)))
            elif isinstance(s, WFlip):
                out.stmts.append(WFlip(e_subst(s.a, env), e_subst(s.v, env), e_subst(s.r, env) if s.r is not None else None))
            elif isinstance(s, Pad):
                out.stmts.append(Pad(e_subst(s.k, env)))
            elif isinstance(s, Segment):
                out.stmts.append(Segment(e_subst(s.addr, env)))
            elif isinstance(s, Reserve):
                out.stmts.append(Reserve(e_subst(s.bits, env)))
            elif isinstance(s, Call):
                args = [e_subst(a, env) for a in s.args]
                call_one(s.name, args, path, depth)
            elif isinstance(s, Rep):
                n = e_subst(s.n, env)
                if not isinstance(n, int):
                    try:
                        n = e_eval(n, {}, None)
                    except Exception:
                        raise RefError('rep count not constant in the reference')
                for i in range(n):
                    # the iterator is bound only inside the rep's own arguments; then the caller's bindings apply
                    args = [e_subst(e_subst(a, {s.it: i}) if s.it not in () else a, env) for a in s.args]
                    # hygiene: the iterator shadows NOTHING of the caller: substitute the iterator first on the
                    # source text of the arguments, where only the rep's own iterator name can mean the iterator
                    call_one(s.name, args, path, depth)
            else:
                raise TypeError(s)

    def call_one(name: str, args: List[Expr], path: str, depth: int) -> None:
        m = macros.get((name, len(args)))
        if m is None:
            raise RefError(f'unknown macro {name}/{len(args)}')
        counter[0] += 1
        me = f'{path}/{counter[0]}'
        out.stmts.append(Start(me))
        env: Dict[str, Expr] = dict(consts)
        for prm, a in zip(m.params, args):
            env[prm] = a
        for loc in m.locals_:
            env[loc] = f'{me}::{loc}'
        expand(m.body, env, me, depth + 1, m.ns)

    out.stmts.append(Start('main'))
    expand(p.main, dict(consts), '', 0, '')
    return out


@dataclass
class Denotation:
    words: Dict[int, int]  # word address -> value, for user `f;j` statements
    stmt_ops: List[Tuple[int, int, int]]  # (bit address, flip, jump) of every f;j statement
    wflips: List[Tuple[int, int, int, int]]  # (bit address of the statement, a, v, r)
    labels: Dict[str, int]
    reserved: List[Tuple[int, int]]  # word ranges that must read 0
    segments: List[int]  # segment start addresses (bit)
    rejected: Optional[str] = None
    starts: List[int] = field(default_factory=list)  # addresses where expansions begin


def denote(fl: Flat, w: int) -> Denotation:
    """two passes: addresses and labels, then values"""
    dw = 2 * w
    labels: Dict[str, int] = {}
    addr = 0
    places = []
    segs = [0]
    reserved = []
    starts: List[int] = []
    for s in fl.stmts:
        if isinstance(s, Start):
            starts.append(addr)
            continue
        if isinstance(s, Label):
            if s.name in labels:
                return Denotation({}, [], [], {}, [], [], rejected='duplicate label')
            labels[s.name] = addr
        elif isinstance(s, (Op, WFlip)):
            places.append((s, addr))
            addr += dw
        elif isinstance(s, Pad):
            k = e_eval(s.k, labels, None)
            if k <= 0 or addr % dw:
                return Denotation({}, [], [], {}, [], [], rejected='bad pad')
            ops_to_pad = (-(addr // dw)) % k
            addr += ops_to_pad * dw
        elif isinstance(s, Reserve):
            b = e_eval(s.bits, labels, None)
            if b % w or b < 0:
                return Denotation({}, [], [], {}, [], [], rejected='bad reserve')
            reserved.append((addr // w, (addr + b) // w))
            addr += b
        elif isinstance(s, Segment):
            a = e_eval(s.addr, labels, None)
            if a % w or a < 0:
                return Denotation({}, [], [], {}, [], [], rejected='bad segment')
            addr = a
            segs.append(a)
    words: Dict[int, int] = {}
    ops, wfl = [], []
    mask = (1 << w) - 1
    for s, a in places:
        try:
            if isinstance(s, Op):
                f, j = e_eval(s.f, labels, a + dw), e_eval(s.j, labels, a + dw)
                if not (0 <= f <= mask and 0 <= j <= mask):
                    return Denotation({}, [], [], {}, [], [], rejected='value out of range')
                if a // w in words or a // w + 1 in words:
                    return Denotation({}, [], [], {}, [], [], rejected='overlap')
                words[a // w], words[a // w + 1] = f, j
                ops.append((a, f, j))
            else:
                wa, wv = e_eval(s.a, labels, a + dw), e_eval(s.v, labels, a + dw)
                wr = e_eval(s.r, labels, a + dw) if s.r is not None else a + dw
                wfl.append((a, wa, wv, wr))
        except KeyError as k:
            return Denotation({}, [], [], {}, [], [], rejected=f'unknown label {k}')
    return Denotation(words, ops, wfl, labels, reserved, segs, starts=starts)


# ----------------------------------------------------------------------------- generators


def gen_primitive(rng: random.Random, w: int) -> Program:
    """macro-free programs: ops over expressions and `$`, labels, wflip, pad, segment, reserve in any interleaving"""
    dw = 2 * w
    n_labels = rng.randrange(1, 5)
    names = [f'l{i}' for i in range(n_labels)]
    # the first two ops are plain statements: the op at 2w..4w is the machine's IO op (its jump word receives the
    # input bit), so no padding slot / wflip chain op may be placed there by a meaningful program
    main: List[Any] = [Op(0, ('$',)), Op(0, ('$',))]
    placed = set()
    seg_base = 0

    def expr(depth: int = 0) -> Expr:
        r = rng.random()
        if r < 0.35 or depth > 2:
            return rng.choice([0, 1, dw, 3 * w, rng.randrange(0, 40) * w])
        if r < 0.6:
            return rng.choice(names)
        if r < 0.7:
            return ('$',)
        return (rng.choice(['+', '+', '+', '-', '&', '|']), expr(depth + 1), expr(depth + 1))

    for _ in range(rng.randrange(3, 12)):
        r = rng.random()
        if r < 0.18 and len(placed) < n_labels:
            nm = [n for n in names if n not in placed][0]
            placed.add(nm)
            main.append(Label(nm))
        elif r < 0.55:
            main.append(Op(expr(), expr()))
        elif r < 0.72:
            main.append(WFlip(rng.choice([rng.choice(names), rng.randrange(0, 30) * w]), rng.choice([0, 1, 3, 5, dw, rng.randrange(1 << min(w, 12)), (1 << w) - 1, rng.choice(names)]), rng.choice([None, None, rng.choice(names), ('$',)])))
        elif r < 0.8:
            main.append(Pad(rng.choice([1, 2, 4, 8])))
        elif r < 0.88:
            main.append(Reserve(rng.choice([w, dw, 4 * w, 3 * w, 2100 * w])))
        else:
            seg_base += rng.randrange(3000, 4000) * dw
            main.append(Segment(rng.choice([seg_base, seg_base, seg_base + w])))
    for nm in names:
        if nm not in placed:
            main.append(Label(nm))
            main.append(Op(0, ('$',)))
    return Program({}, [], main)


def gen_macro_program(rng: random.Random, w: int) -> Program:
    """macro programs with deliberate name collisions: caller labels / arguments spelled like callee parameters,
    local labels and rep iterators; nested calls; arity overloading; namespaces with dotted and relative names"""
    dw = 2 * w
    pool = ['x', 'y', 'i', 'd', 'loc', 'a']  # the SAME spellings are used for labels, params, locals, iterators
    nss = ['', '', 'n1', 'n1.n2']
    macros: List[MacroDef] = []
    n_macros = rng.randrange(2, 6)
    for k in range(n_macros):
        ns = rng.choice(nss)
        params = rng.sample(pool, rng.randrange(0, 3))
        locals_ = [n for n in rng.sample(pool, rng.randrange(0, 2)) if n not in params]
        macros.append(MacroDef(f'm{k % 3}', ns, params, locals_, []))
    # arity overloading happens when two macros share a base name with different arities in one namespace
    seen = set()
    macros = [m for m in macros if not ((m.full, len(m.params)) in seen or seen.add((m.full, len(m.params))))]
    consts = {'cst': rng.randrange(1, 6) * dw}

    def expr(scope: List[str]) -> Expr:
        r = rng.random()
        if r < 0.4:
            return rng.choice([0, dw, rng.randrange(0, 20) * dw, 'cst'])
        if r < 0.8 and scope:
            return rng.choice(scope)
        if r < 0.85 and allow_dollar[0]:
            return ('$',)
        return ('+', expr(scope), rng.choice([0, dw, 2 * dw]))

    allow_dollar = [True]

    def arg(scope: List[str]) -> Expr:
        # `$` inside a macro argument is not a meaningful construct (it names no op of the caller)
        allow_dollar[0] = False
        try:
            return expr(scope)
        finally:
            allow_dollar[0] = True

    for idx, m in enumerate(macros):
        scope = m.params + m.locals_
        body: List[Any] = []
        for loc in m.locals_:
            body.append(Label(loc))
            body.append(Op(expr(scope), expr(scope)))
        for _ in range(rng.randrange(1, 4)):
            r = rng.random()
            callees = [c for c in macros[idx + 1 :]]
            if r < 0.5 or not callees:
                body.append(Op(expr(scope), expr(scope)))
            elif r < 0.8:
                c = rng.choice(callees)
                body.append(Call(c.full, [arg(scope) for _ in c.params], written=_written(rng, c, m.ns)))
            else:
                c = rng.choice(callees)
                it = rng.choice(pool)
                body.append(Rep(rng.choice([0, 1, 2, 3]), it, c.full, [rng.choice([it, ('+', it, 'cst'), ('*', it, dw), arg(scope)]) for _ in c.params]))
        if not body:
            body.append(Op(0, ('$',)))
        m.body = body
    # main: labels spelled like the callee identifiers, calls with those labels as arguments
    main: List[Any] = []
    lab = rng.sample(pool, rng.randrange(1, 4))
    for nm in lab:
        main.append(Label(nm))
        main.append(Op(expr(lab), expr(lab)))
    for _ in range(rng.randrange(1, 5)):
        c = rng.choice(macros)
        if rng.random() < 0.3:
            it = rng.choice(pool)
            main.append(Rep(rng.choice([0, 1, 2, 3]), it, c.full, [rng.choice([it, ('*', it, dw), arg(lab)]) for _ in c.params]))
        else:
            main.append(Call(c.full, [arg(lab) for _ in c.params]))
        if rng.random() < 0.3:
            main.append(Op(expr(lab), ('$',)))
    return Program(consts, macros, main)


def _written(rng: random.Random, callee: MacroDef, from_ns: str) -> str:
    """a spelling of the callee's name valid inside namespace from_ns: full name with leading dots to the root"""
    depth = len(from_ns.split('.')) if from_ns else 0
    if depth == 0:
        return callee.full
    # leading dots: one dot = current namespace, k+1 dots = k levels up
    if callee.ns == from_ns and rng.random() < 0.5:
        return '.' + callee.name
    return '.' * (depth + 1) + callee.full
