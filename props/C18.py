"""
C18 - a device failure or interrupt stops the run at a consistent point.
Deductive: the exceptional exits of the one-op simulations (python loops: a device call may raise at its call
site; native loops: a NULL result of a callback / signal poll): the op is not counted, nothing of it is
visible but the device calls before the failing one, memory is that of the ops before, statistics restored in
`finally`; fjm_run.run's exception classification.  Bounded: fault injection at IO call indices on all engines.
Not decidable here: an asynchronous KeyboardInterrupt between two bytecodes of the python loops.
"""
from __future__ import annotations

import importlib
from typing import Any, Dict, List

import z3

from bounded import isolated
from props import C01c, C01py
from props.native_common import add_native_functions, native_assumptions, python_functions, ring_jobs, ring_report
from vc.common import Obl, Report, finish_unit, main_wrapper, run_and_discharge
from vc.pyvc.engine import OK, RAISE, Engine, State
from vc.pyvc.values import ExcVal, IntMath, Obj, Opaque, Ref

PROP = 'C18'


def unit_run_classification() -> Dict[str, Any]:
    """fjm_run.run: library exceptions propagate unchanged, a memory fault becomes a RuntimeMemoryError termination
    with the fault address, KeyboardInterrupt a keyboard-interrupt termination, anything else is wrapped in
    FlipJumpRuntimeException with the cause chained; whichever engine is selected."""
    FR = importlib.import_module('flipjump.interpreter.fjm_run')
    RD = importlib.import_module('flipjump.fjm.fjm_reader')
    X = importlib.import_module('flipjump.utils.exceptions')
    CL = importlib.import_module('flipjump.utils.classes')
    BR = importlib.import_module('flipjump.interpreter.io_devices.BrokenIO')
    DM = importlib.import_module('flipjump.interpreter.io_devices.device_memory')
    eng = Engine(IntMath(), name='fjm_run.run')
    st = State()
    reader = st.alloc(Obj(RD.Reader, dict(memory_width=64, garbage_handling=RD.GarbageHandling.Stop)))
    dev = st.alloc(Obj(importlib.import_module('flipjump.interpreter.io_devices.IODevice').IODevice, {}))
    address = eng.fresh_int('fault_address', st)

    class Foreign(Exception):
        pass

    raised = [
        ('memory-fault', lambda: ExcVal(X.FlipJumpRuntimeMemoryException, (), dict(memory_address=address))),
        ('library-io', lambda: ExcVal(X.IncompleteOutput)),
        ('library-eof', lambda: ExcVal(X.IOReadOnEOF)),
        ('keyboard-interrupt', lambda: ExcVal(KeyboardInterrupt)),
        ('foreign', lambda: ExcVal(Foreign)),
        ('foreign-base', lambda: ExcVal(ZeroDivisionError)),
    ]

    def engine_contract(which):
        def h(e, s, args, kwargs):
            s0 = s.fork()
            s0.trace.append(('engine', which))
            yield (OK, s0, Opaque('termination', dict(by=which)))
            for nm, mk in raised:
                s1 = s.fork()
                s1.trace.append(('engine', which))
                s1.trace.append(('raised', nm))
                yield (RAISE, s1, mk())

        return h

    for nm in ('_run_featured', '_run_native', '_run_fast'):
        eng.contracts[getattr(FR, nm)] = engine_contract(nm)
    eng.contracts[RD.Reader] = lambda e, s, a, k: iter([(OK, s, reader)])
    eng.contracts[RD.Reader.assert_runnable] = lambda e, s, a, k: iter([(OK, s, None)])
    eng.contracts[FR._is_native_engine_usable] = lambda e, s, a, k: iter([(OK, s, e.fresh_bool('native_usable'))])
    eng.contracts[CL.RunStatistics] = lambda e, s, a, k: iter([(OK, s, Opaque('stats'))])
    eng.contracts[DM.ReaderDeviceMemory] = lambda e, s, a, k: iter([(OK, s, Opaque('devmem'))])
    eng.contracts[importlib.import_module('flipjump.interpreter.io_devices.IODevice').IODevice.attach_memory] = lambda e, s, a, k: iter([(OK, s, None)])
    eng.contracts[FR.TerminationStatistics] = lambda e, s, a, k: iter([(OK, s, Opaque('termination', dict(cause=a[1], address=k.get('memory_error_address'))))])
    eng.contracts[CL.PrintTimer] = lambda e, s, a, k: iter([(OK, s, Opaque('timer'))])
    extra: List[Obl] = []
    n = 0
    for profile in (False, True):
        outs = eng.run_function(FR.run, st, [Opaque('path')], dict(io_device=dev, profile=profile, show_trace=eng.fresh_bool('show_trace'), breakpoint_handler=None))
        for i, (s, sig) in enumerate(outs):
            n += 1
            tag = f'{eng.name}:profile={profile}.path{i}'
            what = [t[1] for t in s.trace if t[0] == 'raised']
            extra.append(Obl(f'{tag}.cover', list(s.pc), None, 'cover'))
            if not what:
                extra.append(Obl(f'{tag}.normal_result_returned_unchanged', list(s.pc), z3.BoolVal(sig[0] == 'return' and isinstance(sig[1], Opaque) and 'by' in sig[1].payload)))
                continue
            k = what[0]
            if k == 'memory-fault':
                ok = sig[0] == 'return' and isinstance(sig[1], Opaque) and sig[1].payload.get('cause') == CL.TerminationCause.RuntimeMemoryError
                extra.append(Obl(f'{tag}.memory_fault_becomes_a_termination_with_its_address', list(s.pc), z3.And(z3.BoolVal(ok), (sig[1].payload['address'] == address) if ok else z3.BoolVal(False))))
            elif k in ('library-io', 'library-eof'):
                ok = sig[0] == 'raise' and sig[1].cls in (X.IncompleteOutput, X.IOReadOnEOF) and sig[1].cause is None
                extra.append(Obl(f'{tag}.library_exception_propagates_unchanged', list(s.pc), z3.BoolVal(ok)))
            elif k == 'keyboard-interrupt':
                ok = sig[0] == 'return' and isinstance(sig[1], Opaque) and sig[1].payload.get('cause') == CL.TerminationCause.KeyboardInterrupt
                extra.append(Obl(f'{tag}.interrupt_becomes_a_keyboard_interrupt_termination', list(s.pc), z3.BoolVal(ok)))
            else:
                ok = sig[0] == 'raise' and sig[1].cls is X.FlipJumpRuntimeException and sig[1].cause == 'set'
                extra.append(Obl(f'{tag}.foreign_exception_wrapped_with_cause', list(s.pc), z3.BoolVal(ok)))
    return finish_unit(eng, extra)


def jobs(tier: str) -> List[tuple]:
    th = tier == 'thorough'
    js: List[tuple] = [(unit_run_classification, ())]
    for w in (C01py.WIDTHS if th else (8,)):  # thorough: every width, both loops, with and without the last-ops list
        for which in ('fast', 'featured'):
            for lo in ((False, True) if th else (True,)):
                js.append((C01py.unit_run_loop, (which, w, lo)))
    for w in (C01c.WIDTHS if th else (16,)):
        js.append((C01c.unit_loop, ('run_flat_loop_impl', w, 0)))
        js.append((C01c.unit_loop, ('run_paged_loop_impl', w, 0)))
    js += ring_jobs()  # the last-executed-ops list of the native engine (also built on the exception path: last_run_last_ops)
    return js


def body(tier: str, seed: int) -> int:
    rep = Report(PROP, 'quick' if tier.startswith('replay') else tier, seed, 'proof', f'./check {PROP} --tier {tier}')
    results = run_and_discharge(rep, jobs(tier))
    exc = [r for r in results if any(t in r.name for t in ('device_failure', 'python_error_only', 'EOF', 'fjm_run.run'))]
    rep.extra['exceptional_exit_obligations'] = len(exc)
    python_functions(rep)
    FR = importlib.import_module('flipjump.interpreter.fjm_run')
    rep.add_function('flipjump.interpreter.fjm_run', 'run', Engine.func_lines(FR.run), 'profile in {False, True}; engines through contracts that may raise each exception class')
    add_native_functions(rep, ('run_flat_loop_impl', 'run_paged_loop_impl'), 'quick: w=16; thorough: all widths')
    ring_report(rep)
    native_assumptions(rep)
    rep.assume('[B only] fjm_run._run_native (finally block restoring op_counter from core.last_run_op_count) and Memory_run / build_run_result: exercised by the fault-injection runs, not under contract')
    rep.assume('not decided: an asynchronous KeyboardInterrupt delivered between two bytecodes of the python loops (no sequential program point)')
    rep.notes.append('exceptional exits of the one-op simulations + exception classification of fjm_run.run; fault injection as bounded companion')
    th = tier == 'thorough'
    isolated.run(rep, 'faults', 2500 if th else 250, seed)
    return rep.finish()


if __name__ == '__main__':
    main_wrapper(PROP, body)
