"""
C14 - every assembly failure is a specific library diagnostic.

[D] * every application of the operator table (Expr.eval_new, Expr.exact_eval, get_minimized_expr) is inside a
      handler converting every exception to FlipJumpExprException (guard obligations on the real AST);
    * assembler.assemble: library exceptions pass through unchanged; the output file is written only after every
      raising stage (parse, resolve, labels, first-op check) has succeeded (symbolic execution of the real body
      with stage contracts that may fail);
    * the writer rejects unrepresentable words / fields with its own exception before the file is opened
      (Writer.add_data / add_segment / write_to_file obligations shared with C06: no struct.error can escape).
[B] grammar-derived invalid programs of every error class at every evaluation stage + token/byte mutations of
    valid programs, each under a time limit: a FlipJumpException other than the generic funnel, and no loadable
    output file.  Termination for user-chosen constants is not decided (known finding F9).
"""
from __future__ import annotations

import importlib
import os
import random
import subprocess
import sys
from typing import Any, Dict, List

import z3

from props import C06, C12
from vc.common import Obl, Report, Violation, finish_unit, main_wrapper, run_and_discharge
from vc.pyvc.engine import OK, RAISE, Engine, State
from vc.pyvc.values import ExcVal, IntMath, Obj, Opaque

PROP = 'C14'
FUNNEL = 'Unknown exception during assembling'


def unit_assemble_mapping() -> Dict[str, Any]:
    A = importlib.import_module('flipjump.assembler.assembler')
    X = importlib.import_module('flipjump.utils.exceptions')
    CL = importlib.import_module('flipjump.utils.classes')
    W = importlib.import_module('flipjump.fjm.fjm_writer')
    eng = Engine(IntMath(), name='assembler.assemble')
    st = State()
    writer = st.alloc(Obj(W.Writer, {}))

    class Foreign(Exception):
        pass

    stages = ['parse_macro_tree', 'resolve_macros', 'labels_resolve', 'assert_first_op_assembled', 'write_to_file', 'save_debugging_labels']

    def stage(name, ret):
        def h(e, s, args, kwargs):
            s0 = s.fork()
            s0.trace.append(('ok', name))
            yield (OK, s0, ret)
            for kind, cls in (('library', X.FlipJumpPreprocessorException), ('foreign', Foreign)):
                s1 = s.fork()
                s1.trace.append(('failed', name, kind))
                yield (RAISE, s1, ExcVal(cls))

        return h

    eng.contracts[A.parse_macro_tree] = stage('parse_macro_tree', Opaque('macros'))
    eng.contracts[A.resolve_macros] = stage('resolve_macros', (Opaque('ops'), Opaque('labels')))
    eng.contracts[A.labels_resolve] = stage('labels_resolve', None)
    eng.contracts[A.assert_first_op_assembled] = stage('assert_first_op_assembled', None)
    eng.contracts[W.Writer.write_to_file] = stage('write_to_file', None)
    eng.contracts[A.save_debugging_labels] = stage('save_debugging_labels', None)
    eng.contracts[CL.PrintTimer] = lambda e, s, a, k: iter([(OK, s, Opaque('timer'))])
    outs = eng.run_function(A.assemble, st, [Opaque('files'), 64, writer], dict(print_time=False))
    extra: List[Obl] = []
    for i, (s, sig) in enumerate(outs):
        tag = f'{eng.name}:path{i}'
        done = [t[1] for t in s.trace if t[0] == 'ok']
        failed = [t for t in s.trace if t[0] == 'failed']
        extra.append(Obl(f'{tag}.cover', list(s.pc), None, 'cover'))
        wrote = 'write_to_file' in done or any(f[1] == 'write_to_file' for f in failed)
        if wrote:
            extra.append(Obl(f'{tag}.output_written_only_after_every_checking_stage_succeeded', list(s.pc), z3.BoolVal(done[:4] == stages[:4])))
        if not failed:
            extra.append(Obl(f'{tag}.success_runs_all_stages_in_order', list(s.pc), z3.BoolVal(sig[0] == 'return' and done == stages)))
        elif failed[0][2] == 'library':
            extra.append(Obl(f'{tag}.library_exception_passes_through_unchanged', list(s.pc), z3.BoolVal(sig[0] == 'raise' and sig[1].cls is X.FlipJumpPreprocessorException)))
        else:
            extra.append(Obl(f'{tag}.foreign_exception_never_escapes_raw', list(s.pc), z3.BoolVal(sig[0] == 'raise' and issubclass(sig[1].cls, X.FlipJumpException))))
    return finish_unit(eng, extra)


# ----------------------------------------------------------------------------- bounded

WORKER = r'''
import sys, json, random, signal, tempfile, importlib, io, contextlib, time
sys.path[:0] = ['/verif', __import__('os').environ.get('VERIF_REPO', '/repo')]
from pathlib import Path
flipjump = importlib.import_module('flipjump'); X = importlib.import_module('flipjump.utils.exceptions')
R = importlib.import_module('flipjump.fjm.fjm_reader'); C = importlib.import_module('flipjump.fjm.fjm_consts')
tier, seed = sys.argv[1], int(sys.argv[2])
rng = random.Random(seed + 11)
FUNNEL = 'Unknown exception during assembling'
class TO(Exception): pass
def alarm(*a): raise TO()
signal.signal(signal.SIGALRM, alarm)
viol = []; evals = 0; distinct = set()
ERRS = {
 'lexing': ['!;', ';`', 'a: ;\x01'], 'syntax': [';;;', 'def m {', '}', 'a b c : ;', 'rep(3) m', ';1+', 'wflip 1', 'ns x {'],
 'unknown-macro': ['foo', 'foo 1, 2', 'rep(2,i) nothing i'], 'arity': ['def m x {\n;x\n}\nm', 'def m x {\n;x\n}\nm 1,2'],
 'duplicate-macro': ['def m {\n;\n}\ndef m {\n;\n}'], 'duplicate-label': ['a:\n;\na:\n;', 'def m {\nq:\n;q\n}\nm\nm'],
 'unknown-label': [';nolabel', 'def m {\n;zzz\n}\nm'], 'alignment': ['segment 3\n;', 'segment w\n;', 'reserve 5\n;', ';\nsegment 2*w+1'],
 'overlap': [';\nsegment 0\n;', ';\n;\nsegment 2*w\n;'], 'range': ['(0-1);0', ';(0-1)', '(1<<w);0', 'wflip 0, (1<<w)', 'wflip (1<<w), 1', 'wflip 0, 0-1', 'segment 1<<w\n;', 'reserve (1<<w)*2*w'],
 'div0-const': [';1/0', ';1%0', 'x = 1/0', 'pad 1/0', 'segment 1%0'], 'div0-param': ['def m x {\n;1/x\n}\nm 0', 'def m x {\n;5%x\n}\nm 0', 'def m x {\nrep(1/x, i) m 1\n}\nm 0'],
 'div0-label': ['l:\n;1/(l-l)', 'l:\n;1%(l-l)', 'l:\nwflip 1/(l-l), 1'], 'shift-const': [';1<<(0-1)', ';1>>(0-1)'], 'shift-param': ['def m x {\n;1<<x\n}\nm 0-1'],
 'shift-label': ['l:\n;1<<(l-l-1)', 'l:\n;1>>(l-l-1)', 'l:\nwflip 1<<(l-l-1), 1'], 'pow-neg': [';2**(0-1)', 'l:\n;2**(l-l-1)'],
 'recursion': ['def m {\nm\n}\nm', 'def a {\nb\n}\ndef b {\na\n}\na', 'def m x {\nm x+1\n}\nm 0'], 'rep-negative': ['def m {\n;\n}\nrep(0-1, i) m', 'def m {\n;\n}\nl:\nrep(l-l-1, i) m'],
 'label-dependent-rep': ['def m {\n;\n}\nrep(z, i) m\nz:'], 'segment-in-macro': ['def m {\nsegment 0\n}\nm', 'def m {\nreserve w\n}\nm'], 'const-redeclare': ['x = 1\nx = 2\n;x'],
 'param-const-collision': ['w2 = 1\ndef m w2 {\n;w2\n}\nm 1'], 'no-first-op': ['segment 4*w\n;'], 'pad-bad': ['pad 0\n;', 'pad 0-1\n;', 'l:\npad l-l-1'], 'unused-label': ['def m @ q {\n;\n}\nm'],
 'huge-shift': [';1<<(1<<62)'], 'empty': ['', '\n\n', '// nothing'],
}
EXPECT = {}
for _c in ('lexing', 'syntax', 'duplicate-macro', 'segment-in-macro', 'const-redeclare', 'param-const-collision', 'unused-label'): EXPECT[_c] = 'FlipJumpParsingException'
for _c in ('unknown-macro', 'arity', 'recursion', 'label-dependent-rep', 'pad-bad'): EXPECT[_c] = 'FlipJumpPreprocessorException'
for _c in ('div0-const', 'div0-param', 'shift-const', 'shift-param', 'huge-shift'): EXPECT[_c] = 'FlipJumpExprException'
for _c in ('overlap', 'div0-label', 'shift-label', 'no-first-op'): EXPECT[_c] = 'FlipJumpAssemblerException'
def attempt(src, w, version, what, expect=None):
    global evals
    evals += 1
    distinct.add((src, w, version))
    with tempfile.TemporaryDirectory() as td:
        f = Path(td) / 'p.fj'; o = Path(td) / 'out.fjm'
        f.write_bytes(src.encode('utf-8', 'surrogateescape') if isinstance(src, str) else src)
        signal.alarm(20)
        try:
            with contextlib.redirect_stdout(io.StringIO()):
                flipjump.assemble([f], o, memory_width=w, fjm_version=C.FJMVersion(version), use_stl=False, print_time=False)
            signal.alarm(0)
            try:
                R.Reader(o)
            except Exception as e:
                return f'{what}: assemble succeeded but the output does not load ({type(e).__name__})'
            return None
        except TO:
            return f'{what}: no answer within 20 s'
        except X.FlipJumpException as e:
            signal.alarm(0)
            if FUNNEL in str(e):
                return f'{what}: generic funnel failure, cause {type(e.__cause__).__name__}: {str(e.__cause__)[:60]}'
            if expect is not None and type(e).__name__ != expect:
                return f'{what}: reported as {type(e).__name__} ({str(e)[:60]!r}), the diagnostic of this error class is a {expect} naming the construct'
            if o.exists():
                try:
                    R.Reader(o)
                    return f'{what}: failed ({type(e).__name__}) but left a loadable output file behind'
                except X.FlipJumpException:
                    return f'{what}: failed ({type(e).__name__}) and left a (non-loadable) output file behind' if False else None
            return None
        except BaseException as e:
            signal.alarm(0)
            return f'{what}: raw {type(e).__name__}: {str(e)[:60]}'
        finally:
            signal.alarm(0)

for cls, srcs in ERRS.items():
    for src in srcs:
        for w in ((16, 64) if tier == 'quick' else (8, 16, 32, 64)):
            for version in ((1, 3) if tier == 'quick' else (0, 1, 2, 3)):
                r = attempt(src, w, version, f'[{cls}] {src!r} w={w} v={version}', EXPECT.get(cls))
                if r: viol.append(dict(what=r, key=cls + ':' + r.split(': ', 1)[1].split(' ')[0], src=src, w=w, version=version))
valid = ['a:\n;a\nwflip a+w, 5, a\n', 'def m x, y @ l {\nl:\n;x\n;y\nwflip l, 3\n}\nm 2*w, 4*w\nns q {\ndef z {\n;.z0\n}\nz0:\n.z\n}\nrep(3, i) m i*2*w, 0\n', 'x = 3\n;x*w\npad 4\nreserve 2*w\n;\n"ab";\n']
toks = [';', ':', ',', '(', ')', '{', '}', '+', '-', '*', '/', '%', '<<', '>>', '&&', '||', '?', '#', '~', '$', '@', '<', '>', '=', '==', 'def', 'rep', 'ns', 'wflip', 'pad', 'segment', 'reserve', 'a', 'l', 'w', '0', '1', '0x', "'", '"', '\n', ' ', '.', '..x', '\\']
n_mut = 250 if tier == 'quick' else 5000
for k in range(n_mut):
    s = rng.choice(valid)
    for _ in range(rng.randrange(1, 4)):
        i = rng.randrange(len(s) + 1)
        r = rng.random()
        if r < 0.4: s = s[:i] + rng.choice(toks) + s[i:]
        elif r < 0.7 and len(s) > 2: s = s[:i] + s[i + rng.randrange(1, 4):]
        else: s = s[:i] + chr(rng.choice([0, 9, 13, 34, 39, 92, 127, 200, 0x2028])) + s[i:]
    if any(h in s for h in ('**', 'pad', 'rep', 'reserve', '<<')) and rng.random() < 0.5:
        continue  # keep constant-driven explosions out of the random part (F9)
    w = rng.choice([8, 16, 32, 64])
    r = attempt(s, w, rng.choice([0, 1, 2, 3]), f'[mutation] {s!r} w={w}')
    if r: viol.append(dict(what=r, key='mutation:' + r.split(': ', 1)[1].split(' ')[0], src=s, w=w))
    if len(viol) > 15: break
print('@@RESULT@@' + json.dumps(dict(evals=evals, distinct=len(distinct), violations=viol[:25])))
'''

F9_CASES = [('deep-nesting', 'l:\n;' + '+'.join(['l'] * 3000) + '\n'), ('pow-explosion', ';3**(1<<40)\n'), ('pad-explosion', 'pad 1<<70\n;\n'), ('rep-explosion', 'def m {\n;\n}\nrep(1<<40, i) m\n')]


def f9_probe(rep: Report) -> None:
    """termination / recursion depth for user-chosen constants: listed (known finding F9), each in its own process"""
    code = "import sys,tempfile,pathlib,io,contextlib;sys.path[:0]=[__import__('os').environ.get('VERIF_REPO','/repo')];import flipjump\nfrom flipjump.utils.exceptions import FlipJumpException\nsrc=sys.stdin.read()\nwith tempfile.TemporaryDirectory() as td:\n    f=pathlib.Path(td)/'p.fj';f.write_text(src)\n    try:\n        with contextlib.redirect_stdout(io.StringIO()):\n            flipjump.assemble([f],pathlib.Path(td)/'o.fjm',use_stl=False,print_time=False)\n        print('OK')\n    except FlipJumpException as e:\n        print('FUNNEL' if 'Unknown exception' in str(e) else 'SPECIFIC', type(e.__cause__).__name__)\n    except BaseException as e:\n        print('RAW', type(e).__name__)\n"
    for name, src in F9_CASES:
        try:
            p = subprocess.run([sys.executable, '-c', code], input=src, capture_output=True, text=True, timeout=12, env=dict(os.environ, PYTHONPATH=os.environ.get('VERIF_REPO', '/repo')))
            out = p.stdout.strip() or ('CRASH ' + p.stderr[-80:])
        except subprocess.TimeoutExpired:
            out = 'TIMEOUT'
        if out.startswith(('SPECIFIC', 'OK')):
            continue
        rep.violation(Violation('bounded:assembly_terminates_with_a_specific_diagnostic', f'{name}: {out}', dict(case=name, source=src[:200], outcome=out), True, key=f'F9:{name}'))
    rep.add_bounded('termination probes for user-chosen constants (own process, 12 s)', f'{len(F9_CASES)} sources', len(F9_CASES), len(F9_CASES))


def bounded(rep: Report, tier: str, seed: int) -> None:
    import json

    env = dict(os.environ, PYTHONPATH='/verif:' + os.environ.get('VERIF_REPO', '/repo'), PYTHONDONTWRITEBYTECODE='1')
    p = subprocess.run([sys.executable, '-c', WORKER, tier, str(seed)], capture_output=True, text=True, timeout=3000, env=env)
    line = [l for l in p.stdout.splitlines() if l.startswith('@@RESULT@@')]
    if not line:
        rep.undecide(f'obligation=bounded:invalid_programs reason=worker failed (exit {p.returncode}): {p.stderr[-300:]!r}')
        return
    out = json.loads(line[0][10:])
    rep.add_bounded('invalid programs on the real assembler', 'every error class (lexing, syntax, unknown/duplicate macro or label, arity, alignment, overlap, range, division by zero / negative shift / negative power at constant, parameter and label stage, recursion, rep counts, ...) x widths x versions, plus random token/byte mutations of valid programs; 20 s limit each', out['evals'], out['distinct'])
    for v in out['violations']:
        rep.violation(Violation('bounded:invalid_programs.specific_library_diagnostic', v['what'], dict(source=v.get('src'), w=v.get('w'), version=v.get('version')), True, key=v['key']))
    f9_probe(rep)


def body(tier: str, seed: int) -> int:
    rep = Report(PROP, 'quick' if tier.startswith('replay') else tier, seed, 'proof', f'./check {PROP} --tier {tier}')
    jobs: List[tuple] = [(unit_assemble_mapping, ()), (C12.unit_eval_paths_guarded, ())]
    jobs += [(C06.unit_add_data, (w, False)) for w in (8, 64)] + [(C06.unit_add_segment, (64, 1)), (C06.unit_add_segment, (16, 3)), (C06.unit_write_to_file, (64, 3)), (C06.unit_write_to_file, (8, 0))]
    run_and_discharge(rep, jobs)
    A = importlib.import_module('flipjump.assembler.assembler')
    E = importlib.import_module('flipjump.assembler.inner_classes.expr')
    W = importlib.import_module('flipjump.fjm.fjm_writer')
    rep.add_function('flipjump.assembler.assembler', 'assemble', Engine.func_lines(A.assemble), 'stages through contracts that may fail with a library or a foreign exception')
    for f in (E.Expr.eval_new, E.Expr.exact_eval, E.get_minimized_expr):
        rep.add_function('flipjump.assembler.inner_classes.expr', f.__qualname__, Engine.func_lines(f), 'guard obligation')
    for m in ('add_data', 'add_segment', 'write_to_file'):
        rep.add_function('flipjump.fjm.fjm_writer', f'Writer.{m}', Engine.func_lines(getattr(W.Writer, m)), 'sampled instantiations of the C06 units')
    rep.assume('[B only] parse_macro_tree, resolve_macros, labels_resolve raise only library exceptions: exercised by the invalid-program runs (an exception-escape proof over sly and the whole preprocessor is out of reach)')
    rep.assume('not decided: termination and recursion depth for user-chosen constants (known finding F9)')
    rep.trust('pyvc symbolic executor; z3')
    bounded(rep, tier, seed)
    return rep.finish()


if __name__ == '__main__':
    main_wrapper(PROP, body)
