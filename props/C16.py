"""
C16 - the debug label table is exact.
[D] PreprocessorData.insert_label: recorded at the requested / current address exactly once, duplicates rejected,
    no other label moves (labels as symbolic ids);  [F] freshness of generated names (shared with C03): two
    expansions or two source labels never share a name without insert_label's duplicate error.
[B] label tables of generated programs against the reference addresses (source labels, start labels vs expansion
    starts, save/load round trip, breakpoint resolution by exact label / substring vs a set-comprehension oracle).
"""
from __future__ import annotations

from bounded import asm
from props import C03, asm_units
from vc.common import Report, main_wrapper, run_and_discharge

PROP = 'C16'


def body(tier: str, seed: int) -> int:
    rep = Report(PROP, 'quick' if tier.startswith('replay') else tier, seed, 'exploration', f'./check {PROP} --tier {tier}')
    th = tier == 'thorough'
    run_and_discharge(rep, [(asm_units.unit_insert_label, ()), (C03.unit_freshness, ())])
    rep.add_function('flipjump.assembler.preprocessor', 'PreprocessorData.insert_label', '', 'default and explicit address (incl. address 0)')
    rep.assume('[A] json.dumps/loads and lzma round-trip a Dict[str,int] preserving order and arbitrary-precision ints (exercised on every generated table)')
    rep.assume('[B only] insert_macro_start_labels_if_their_address_not_used, get_breakpoints and its helpers, get_breakpoint_handler: string-keyed dictionaries, decided on generated tables only')
    rep.trust('the reference inliner spec/fjasm.py; pyvc; z3')
    asm.run_labels(rep, 12000 if th else 900, seed)
    return rep.finish()


if __name__ == '__main__':
    main_wrapper(PROP, body)
