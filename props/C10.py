"""
C10 - reading an .fjm is total, and damaged or torn files are rejected.

[D] Reader.__init__: exceptional postcondition raised <= {FlipJumpReadFjmException} with every sub-step allowed to
    raise struct.error or the read exception (the mapping + the order validate-before-decode are checked on the
    real body); _init_header_fields / _validate_header over ALL header values and ALL file lengths (short header
    -> struct.error -> rejected; acceptance implies magic, supported version and width, reserved == 0);
    _decompress_data maps every LZMAError; _init_memory (shared with C06: image or rejection, incl. data ranges
    outside the pool, odd data lengths, data longer than the segment); assert_runnable.
[B] every strict prefix and every single-field corruption of writer-produced files, random byte strings, under
    an address-space limit (an allocation driven by a header field alone shows as MemoryError).
"""
from __future__ import annotations

import importlib
import random
import struct
import subprocess
import sys
import tempfile
from pathlib import Path
from typing import Any, Dict, List

import z3

from contracts.py import fjm_reader as CR
from contracts.py import fjm_writer as CW
from props import C06
from vc.common import Obl, Report, Undecided, Violation, finish_unit, main_wrapper, run_and_discharge
from vc.pyvc.engine import OK, RAISE, Engine, State
from vc.pyvc.values import ExcVal, IntMath, Obj, Opaque, Ref, SList

PROP = 'C10'


def _mods():
    R = importlib.import_module('flipjump.fjm.fjm_reader')
    C = importlib.import_module('flipjump.fjm.fjm_consts')
    X = importlib.import_module('flipjump.utils.exceptions')
    return R, C, X


def _file_model(eng: Engine, st: State):
    """a binary file of symbolic length: read(n) returns min(n, remaining) bytes, read() the rest;
    struct.unpack raises struct.error iff the buffer length differs from calcsize ([A])."""
    import struct as _struct

    T = eng.T
    st.ghost['remaining'] = eng.fresh_int('file_length', st, 0, None)

    def h_read(e, s, recv, args, kwargs):
        rem = s.ghost['remaining']
        s2 = s.fork()
        if args:
            n = T.lift(args[0])
            got = z3.If(rem < n, rem, n)
        else:
            got = rem
        s2.ghost['remaining'] = rem - got
        s2.trace.append(('read', got))
        buf = e.fresh_list('buf', s2, kind='bytes')
        s2.assume(buf.length == got)
        yield (OK, s2, buf)

    def h_unpack(e, s, args, kwargs):
        fmt, buf = args
        if not isinstance(fmt, str):
            raise Undecided('unpack with a symbolic format')
        size = _struct.calcsize(fmt)
        b = s.deref(buf)
        for s2, ok in e.branch(s, b.length == size, f'unpack-{fmt}-length-ok'):
            if ok:
                vals = []
                for c in [ch for ch in fmt if ch in CR.FMT_BITS]:
                    vals.append(e.fresh_int('field', s2, 0, 1 << CR.FMT_BITS[c]))
                yield (OK, s2, tuple(vals))
            else:
                yield (RAISE, s2, ExcVal(_struct.error))

    eng.method_handlers[('Opaque:file', 'read')] = h_read
    eng.externals[_struct.unpack] = h_unpack


def unit_header() -> Dict[str, Any]:
    R, C, X = _mods()
    eng = Engine(IntMath(), name='Reader._init_header_fields+_validate_header')
    st = State()
    _file_model(eng, st)
    L0 = st.ghost['remaining']
    ref = st.alloc(Obj(R.Reader, {}))
    extra: List[Obl] = []
    outs = eng.run_function(R.Reader._init_header_fields, st, [ref, Opaque('file')])
    hs = C._header_base_size
    n_ok = 0
    for i, (s, sig) in enumerate(outs):
        tag = f'{eng.name}:fields.path{i}'
        extra.append(Obl(f'{tag}.cover', list(s.pc), None, 'cover'))
        if sig[0] == 'raise':
            ok_cls = sig[1].cls in (struct.error, X.FlipJumpReadFjmException)
            extra.append(Obl(f'{tag}.raises_only_struct_error_or_the_read_exception', list(s.pc), z3.BoolVal(ok_cls)))
            continue
        n_ok += 1
        o = s.heap[ref.id]
        extra.append(Obl(f'{tag}.accepted_only_with_a_complete_header', list(s.pc), L0 >= hs))
        ver = o.fields.get('version')
        extra.append(Obl(f'{tag}.version_is_a_supported_enum_member', list(s.pc), z3.BoolVal(ver in list(C.FJMVersion))))
        if ver is not None and ver != C.FJMVersion.BaseVersion:
            extra.append(Obl(f'{tag}.extension_present_for_versions_above_0', list(s.pc), L0 >= hs + C._header_extension_size))
        # continue with _validate_header from this state
        outs2 = eng.run_function(R.Reader._validate_header, s, [ref])
        for j, (s2, sig2) in enumerate(outs2):
            t2 = f'{eng.name}:validate.path{i}_{j}'
            extra.append(Obl(f'{t2}.cover', list(s2.pc), None, 'cover'))
            T = eng.T
            good = z3.And(T.lift(o.fields['magic']) == C.FJ_MAGIC, z3.Or(*[T.lift(o.fields['memory_width']) == x for x in sorted(C.SUPPORTED_MEMORY_WIDTHS)]), T.lift(o.fields['reserved']) == 0)
            if sig2[0] == 'raise':
                extra.append(Obl(f'{t2}.raises_only_the_read_exception', list(s2.pc), z3.BoolVal(sig2[1].cls is X.FlipJumpReadFjmException)))
                extra.append(Obl(f'{t2}.rejects_only_inconsistent_headers', list(s2.pc), z3.Not(good)))
            else:
                extra.append(Obl(f'{t2}.accepts_only_magic_supported_width_reserved_zero', list(s2.pc), good))
    if n_ok == 0:
        raise Undecided('_init_header_fields has no accepting path')
    return finish_unit(eng, extra)


def unit_init() -> Dict[str, Any]:
    """Reader.__init__: whatever the sub-steps raise (struct.error / the read exception), only the read
    exception escapes; the header is validated before segments and data are decoded."""
    R, C, X = _mods()
    eng = Engine(IntMath(), name='Reader.__init__')
    st = State()
    ref = st.alloc(Obj(R.Reader, {}))

    def step(name):
        def h(e, s, args, kwargs):
            s0 = s.fork()
            s0.trace.append(('step', name))
            yield (OK, s0, Opaque('list') if name in ('_init_segments', '_read_decompressed_data') else None)
            for cls in (struct.error, X.FlipJumpReadFjmException):
                s1 = s.fork()
                s1.trace.append(('step', name))
                s1.trace.append(('raised', cls.__name__))
                yield (RAISE, s1, ExcVal(cls))

        return h

    for nm in ('_init_header_fields', '_validate_header', '_init_segments', '_read_decompressed_data', '_init_memory'):
        eng.contracts[getattr(R.Reader, nm)] = step(nm)
    eng.externals[open] = lambda e, s, a, k: iter([(OK, s, Opaque('file'))])
    extra: List[Obl] = []
    outs = eng.run_function(R.Reader.__init__, st, [ref, Opaque('path')])
    for i, (s, sig) in enumerate(outs):
        tag = f'{eng.name}:path{i}'
        steps = [t[1] for t in s.trace if t[0] == 'step']
        extra.append(Obl(f'{tag}.cover', list(s.pc), None, 'cover'))
        if sig[0] == 'raise':
            extra.append(Obl(f'{tag}.only_the_read_exception_escapes', list(s.pc), z3.BoolVal(sig[1].cls is X.FlipJumpReadFjmException)))
        else:
            extra.append(Obl(f'{tag}.accepted_only_after_all_five_steps_in_order', list(s.pc), z3.BoolVal(steps == ['_init_header_fields', '_validate_header', '_init_segments', '_read_decompressed_data', '_init_memory'])))
        if '_init_segments' in steps or '_read_decompressed_data' in steps:
            extra.append(Obl(f'{tag}.header_validated_before_the_table_and_payload_are_decoded', list(s.pc), z3.BoolVal('_validate_header' in steps and steps.index('_validate_header') < min(steps.index(x) for x in steps if x in ('_init_segments', '_read_decompressed_data')))))
    return finish_unit(eng, extra)


def unit_decompress() -> Dict[str, Any]:
    R, C, X = _mods()
    import lzma

    eng = Engine(IntMath(), name='Reader._decompress_data')
    st = State()

    def h(e, s, args, kwargs):
        ok_args = kwargs.get('format') == C._LZMA_FORMAT and kwargs.get('filters') is C._LZMA_DECOMPRESSION_FILTERS
        s0 = s.fork()
        s0.trace.append(('decompress', ok_args))
        yield (OK, s0, Opaque('bytes'))
        s1 = s.fork()
        yield (RAISE, s1, ExcVal(lzma.LZMAError))

    eng.externals[lzma.decompress] = h
    extra: List[Obl] = []
    outs = eng.run_function(R.Reader._decompress_data, st, [Opaque('bytes')])
    for i, (s, sig) in enumerate(outs):
        if sig[0] == 'raise':
            extra.append(Obl(f'{eng.name}:path{i}.lzma_failure_becomes_the_read_exception', list(s.pc), z3.BoolVal(sig[1].cls is X.FlipJumpReadFjmException)))
        else:
            extra.append(Obl(f'{eng.name}:path{i}.raw_format_with_the_module_filters', list(s.pc), z3.BoolVal(any(t == ('decompress', True) for t in s.trace))))
    return finish_unit(eng, extra)


def unit_assert_runnable() -> Dict[str, Any]:
    R, C, X = _mods()
    eng = Engine(IntMath(), name='Reader.assert_runnable')
    extra: List[Obl] = []
    # the generator expression ranges over memory_segments (objects): checked on the three shapes that matter
    for shape, segs, want_ok in (('empty', [], False), ('first-op-present', [(0, 2)], True), ('starts-later', [(2, 4)], False), ('too-short', [(0, 1)], False), ('second-segment-has-it', [(8, 2), (0, 6)], True)):
        rd = object.__new__(R.Reader)
        rd.memory_segments = [R.MemorySegment(a, b) for a, b in segs]
        try:
            rd.assert_runnable()
            ok = True
            cls = None
        except Exception as e:
            ok = False
            cls = type(e)
        extra.append(Obl(f'{eng.name}:{shape}', [], z3.BoolVal(ok == want_ok and (ok or cls is X.FlipJumpReadFjmException))))
    return finish_unit(eng, extra)


# ----------------------------------------------------------------------------- bounded (own process, address-space limit)

WORKER = r'''
import sys, json, random, struct, resource, tempfile, time, importlib
sys.path[:0] = ['/verif', __import__('os').environ.get('VERIF_REPO', '/repo')]
resource.setrlimit(resource.RLIMIT_AS, (3 << 30, 3 << 30))
from pathlib import Path
W = importlib.import_module('flipjump.fjm.fjm_writer'); R = importlib.import_module('flipjump.fjm.fjm_reader')
C = importlib.import_module('flipjump.fjm.fjm_consts'); X = importlib.import_module('flipjump.utils.exceptions')
FR = importlib.import_module('flipjump.interpreter.fjm_run')
tier, seed = sys.argv[1], int(sys.argv[2])
rng = random.Random(seed + 5)
viol = []; evals = 0; distinct = set()

def image(rd):
    img = dict(rd.memory)
    for s, e in rd.zeros_boundaries:
        for a in range(s, min(e, s + 5000)):
            img.setdefault(a, 0)
    return (tuple((m.segment_start, m.segment_length) for m in rd.memory_segments), tuple(sorted(img.items())))

def load(path, what, orig=None):
    global evals
    evals += 1
    t = time.time()
    try:
        rd = R.Reader(path)
        got = image(rd)
        if orig is not None and got != orig:
            return f'{what}: loads as a DIFFERENT image'
        if time.time() - t > 20:
            return f'{what}: took {time.time()-t:.0f}s'
        return None
    except X.FlipJumpReadFjmException:
        return None if time.time() - t < 20 else f'{what}: took {time.time()-t:.0f}s'
    except BaseException as e:
        return f'{what}: {type(e).__name__}: {str(e)[:80]}'

with tempfile.TemporaryDirectory() as td:
    td = Path(td)
    shapes = []
    for w in (8, 16, 32, 64):
        for v in C.FJMVersion:
            for k in range(2 if tier == 'quick' else 6):
                segs = []
                base = 0
                for _ in range(rng.randrange(1, 4)):
                    n = 2 * rng.randrange(0, 4)
                    data = [rng.randrange(1 << w) for _ in range(n)]
                    length = n + rng.choice([0, 0, 2, 2000])
                    if length == 0:
                        length = 2
                    segs.append((base, length, data))
                    base += length + 2 * rng.randrange(0, 3)
                shapes.append((w, v, segs))
    for idx, (w, v, segs) in enumerate(shapes):
        p = td / f's{idx}.fjm'
        wr = W.Writer(p, w, v) if v.value != 3 else W.Writer(p, w, v, lzma_preset=rng.choice([0, 6]))
        for s, l, d in segs:
            ds = wr.add_data(list(d)); wr.add_segment(s, l, ds, len(d))
        wr.write_to_file()
        raw = p.read_bytes()
        orig = image(R.Reader(p))
        q = td / 'm.fjm'
        # every strict prefix
        cuts = range(len(raw)) if (tier != 'quick' or len(raw) < 160) else sorted(set(list(range(0, 70)) + rng.sample(range(len(raw)), 60)))
        for c in cuts:
            q.write_bytes(raw[:c])
            distinct.add(('prefix', idx, c))
            r = load(q, f'w={w} v={v.value} prefix {c}/{len(raw)}', orig)
            if r: viol.append(dict(what=r, key='prefix:' + r.split(':')[1].strip().split(' ')[0], file=raw[:c].hex()))
        # single-field corruption of the header and the table
        hdr = 20 + (12 if v.value else 0)
        fields = [(0, 2), (2, 2), (4, 8), (12, 8)] + ([(20, 8), (28, 4)] if v.value else []) + [(hdr + 32 * i + 8 * j, 8) for i in range(len(segs)) for j in range(4)]
        for off, size in fields:
            for val in (0, 1, 3, 0xFF, (1 << (8 * size)) - 1, (1 << (8 * size - 1)), 1 << 33 if size == 8 else 7, 1 << 57 if size == 8 else 9, rng.randrange(1 << (8 * size))):
                val &= (1 << (8 * size)) - 1
                mut = raw[:off] + val.to_bytes(size, 'little') + raw[off + size:]
                if mut == raw:
                    continue
                q.write_bytes(mut)
                distinct.add(('field', idx, off, val))
                r = load(q, f'w={w} v={v.value} field@{off}={val:#x}')
                if r: viol.append(dict(what=r, key='field:' + r.split(':')[1].strip().split(' ')[0], file=mut.hex()[:400]))
        # payload damage
        for _ in range(6):
            if len(raw) <= hdr + 32 * len(segs):
                break
            pos = rng.randrange(hdr + 32 * len(segs), len(raw))
            mut = bytearray(raw); mut[pos] ^= 1 << rng.randrange(8)
            q.write_bytes(bytes(mut))
            distinct.add(('payload', idx, pos))
            r = load(q, f'w={w} v={v.value} payload bit flip@{pos}')
            if r and 'DIFFERENT' not in r: viol.append(dict(what=r, key='payload', file=bytes(mut).hex()[:400]))
        if len(viol) > 10: break
    for _ in range(300 if tier == 'quick' else 4000):
        n = rng.choice([0, 1, 19, 20, 21, 32, 52, 64, 100, 200])
        blob = bytes(rng.randrange(256) for _ in range(n))
        if rng.random() < 0.6 and n >= 20:
            blob = struct.pack('<HHQQ', C.FJ_MAGIC, rng.choice([8, 16, 32, 64]), rng.choice([0, 1, 2, 3]), rng.choice([0, 1, 2, 1 << 40, (1 << 64) - 1])) + blob[20:]
        q = td / 'r.fjm'; q.write_bytes(blob)
        distinct.add(('random', blob))
        r = load(q, f'random {n} bytes')
        if r: viol.append(dict(what=r, key='random:' + r.split(':')[1].strip().split(' ')[0], file=blob.hex()))
        # run() must reject what Reader rejects, the same way
        try:
            FR.run(q)
        except X.FlipJumpException:
            pass
        except BaseException as e:
            viol.append(dict(what=f'fjm_run.run on random {n} bytes: {type(e).__name__}', key='run', file=blob.hex()))
print('@@RESULT@@' + json.dumps(dict(evals=evals, distinct=len(distinct), violations=viol[:20])))
'''


def bounded(rep: Report, tier: str, seed: int) -> None:
    import json
    import os

    env = dict(os.environ, PYTHONPATH='/verif:' + os.environ.get('VERIF_REPO', '/repo'), PYTHONDONTWRITEBYTECODE='1')
    p = subprocess.run([sys.executable, '-c', WORKER, tier, str(seed)], capture_output=True, text=True, timeout=3000, env=env)
    line = [l for l in p.stdout.splitlines() if l.startswith('@@RESULT@@')]
    if not line:
        rep.undecide(f'obligation=bounded:damaged_files reason=worker failed (exit {p.returncode}): {p.stderr[-300:]!r}')
        return
    out = json.loads(line[0][10:])
    rep.add_bounded('damaged and torn files on the real reader (address space limited to 3 GiB)', 'every strict prefix (quick: sampled for large files), single-field corruptions of header and table with boundary values, payload bit flips, random byte strings; 4 widths x 4 versions', out['evals'], out['distinct'])
    for v in out['violations']:
        rep.violation(Violation('bounded:damaged_files.rejected_or_same_image', v['what'], dict(file_hex=v['file']), True, key=v['key']))


def body(tier: str, seed: int) -> int:
    rep = Report(PROP, 'quick' if tier.startswith('replay') else tier, seed, 'proof', f'./check {PROP} --tier {tier}')
    R, C, X = _mods()
    jobs: List[tuple] = [(unit_header, ()), (unit_init, ()), (unit_decompress, ()), (unit_assert_runnable, ())]
    jobs += [(C06.unit_reader_init_memory, (w, vi)) for w in ((8, 64) if tier != 'thorough' else C06.WIDTHS) for vi in range(4)]
    run_and_discharge(rep, jobs)
    for m in ('__init__', '_init_header_fields', '_validate_header', '_decompress_data', '_init_memory', 'assert_runnable'):
        rep.add_function('flipjump.fjm.fjm_reader', f'Reader.{m}', Engine.func_lines(getattr(R.Reader, m)))
    rep.assume('[A] struct.unpack(fmt, b) raises struct.error iff len(b) != calcsize(fmt), otherwise returns values inside the ranges of the format codes; file.read(n) returns min(n, remaining) bytes')
    rep.assume('[A] lzma.decompress returns bytes or raises LZMAError; a strict prefix of a raw LZMA2 stream has no end marker and is rejected (exercised by the bounded prefixes)')
    rep.assume('[B only] Reader._init_segments and _read_decompressed_data (list comprehensions over unpack): their only raising primitive is unpack -> struct.error, mapped by __init__; the work bound (a table read stops at the first short read) and the torn-write lemma beyond the header are exercised on every prefix, not proved')
    rep.trust('pyvc symbolic executor; z3 / cvc5')
    bounded(rep, tier, seed)
    return rep.finish()


if __name__ == '__main__':
    main_wrapper(PROP, body)
