"""
C11 - the native engine is memory-safe for every image, input and knob.
Deductive: every subscript / dereference in the functions under contract carries a bounds obligation, every
shift / signed operation an undefined-behaviour obligation, every CPython call result a reference-balance
obligation; all discharged from Rep and the path conditions.  Bounded: an ASan+UBSan build of the CURRENT
_fjcore.c driven by generated images, fault injection and device-memory traffic in a child process.
"""
from __future__ import annotations

from typing import List

from bounded import isolated
from props import C01c
from props.native_common import ring_jobs, ring_report, HELPERS, VALIDITY, add_native_functions, helper_jobs, loader_jobs, native_assumptions, validity_jobs
from vc.common import Report, main_wrapper, run_and_discharge

PROP = 'C11'


def jobs(tier: str) -> List[tuple]:
    th = tier == 'thorough'
    js = helper_jobs(C01c.WIDTHS if th else (8, 64))
    js += validity_jobs()  # the segment-list loops: every segments[i] access inside the list (incl. the merge loop's stores)
    js += loader_jobs(C01c.WIDTHS if th else (64,))  # bulk load: page-word indices, reference balance on every path
    for w in (C01c.WIDTHS if th else (64,)):
        js.append((C01c.unit_loop, ('run_flat_loop_impl', w, 0)))
    js += ring_jobs()  # last_ops_ring_to_list: every ring subscript inside the ring; Memory_run: the ring has exactly last_ops_length elements and is freed once
    if th:
        for w in C01c.WIDTHS:
            js.append((C01c.unit_loop, ('run_paged_loop_impl', w, 0)))
            js.append((C01c.unit_loop, ('run_paged_loop_impl', w, 1)))
    return js


def body(tier: str, seed: int) -> int:
    rep = Report(PROP, 'quick' if tier.startswith('replay') else tier, seed, 'proof', f'./check {PROP} --tier {tier}')
    results = run_and_discharge(rep, jobs(tier))
    safety = [r for r in results if any(t in r.name for t in (':bounds.', ':ub.', ':nonnull.'))]
    rep.extra['memory_safety_obligations'] = len(safety)
    rep.extra['memory_safety_discharged'] = sum(1 for r in safety if r.status == 'proved')
    add_native_functions(rep, ('Memory_set_words',), 'bulk load before the storage decision (page-backed): loop invariant absM = entry memory + first i items masked; Rep; reference balance')
    add_native_functions(rep, VALIDITY + ('Memory_add_segment',), 'segment-list functions: index obligations on every segments[i] access, from the list invariant count <= capacity')
    add_native_functions(rep, ('run_flat_loop_impl', 'run_paged_loop_impl') + HELPERS, 'quick: helpers at w=8,64 + flat loop w=64; thorough: all widths, all loops')
    ring_report(rep)
    native_assumptions(rep)
    rep.assume('[A] malloc/calloc/realloc/free; [B only] mem_decide_storage, Memory_add_segment/set_words/set_word/get_word, Memory_init/dealloc: covered by the sanitizer runs, not under contract')
    rep.notes.append('bounds + undefined-behaviour + reference-balance obligations of the functions under contract; sanitizer build as bounded companion')
    th = tier == 'thorough'
    isolated.run(rep, 'directed', 0, seed, asan=True, label='asan-directed', only_crashes=True)
    isolated.run(rep, 'differential', 3000 if th else 250, seed, asan=True, label='asan-differential', only_crashes=True)
    isolated.run(rep, 'faults', 600 if th else 60, seed, asan=True, label='asan-faults', only_crashes=True)
    isolated.run(rep, 'devmem', 600 if th else 80, seed, asan=True, label='asan-devmem', only_crashes=True)
    return rep.finish()


if __name__ == '__main__':
    main_wrapper(PROP, body)
