"""
The last-ops ring of the native engine, content included (C07, C18).

  unit_ring_to_list()   last_ops_ring_to_list under contract: given the ring content invariant
                            Inv(ring, L, rw):  for all k, rw - min(rw, L) <= k < rw :  ring[k % L] == W[k]
                        (W[k] = ghost: the address of op number k), the returned list has exactly min(rw, L) entries and entry j
                        is W[rw - min(rw, L) + j] - the last executed ops, oldest first; loop invariant on the list built so far;
                        frame (ring, length, writes untouched); reference balance and error state on every exit; every ring
                        subscript in bounds.
  unit_ring_lemma()     the ghost lemma that carries Inv through a run: Inv holds vacuously for rw = 0 (calloc'ed ring), and the
                        per-op postcondition that unit_loop proves for the ring clone of the paged loop
                            ring' == store(ring, rw % L, ip)  and  rw' == rw + 1
                        preserves it (W' = W[rw := ip]).

All machine arithmetic is 64-bit and exact.  The obligations are generated as bit-vector formulas by the cvc executor from the
current _fjcore.c and then translated to integers by vc/bv2int (an exact homomorphism: every operation keeps its wrap-around
reduction), because a symbolic modulus defeats bit-blasting at 64 bits (measured: the index lemma alone is `unknown` after 60 s
at 16 bits; as integers it is decided in about a second).
"""
from __future__ import annotations

from typing import Any, Dict, List

import z3

from vc.bv2int import self_test, translate_obligation
from vc.common import Obl, Undecided, finish_unit
from vc.cvc.cfg import Linear, load_functions
from vc.cvc.exec import NULL, CExec, CState, Ptr, u64

FUNC = 'last_ops_ring_to_list'
BV = z3.BitVecSort(64)


def i32(v: int):
    return z3.BitVecVal(v & 0xFFFFFFFF, 32)


def _total(rw, L):
    return z3.If(z3.ULT(rw, L), rw, L)


def ring_inv(ring, W, L, rw):
    k = z3.BitVec('k_ring', 64)
    return z3.ForAll([k], z3.Implies(z3.And(z3.ULE(rw - _total(rw, L), k), z3.ULT(k, rw)), z3.Select(ring, z3.URem(k, L)) == z3.Select(W, k)))


class _Unit:
    def __init__(self, obligations: List[Obl]):
        self.obligations = obligations
        self.dropped: List[str] = []


def _to_int(obls: List[Obl]) -> List[Obl]:
    out = []
    for o in obls:
        hyps, goal, _ = translate_obligation(list(o.hyps), o.goal)
        meta = dict(o.meta)
        meta['encoding'] = 'bv2int (exact: wrap-around kept)'
        out.append(Obl(o.name, hyps, goal, o.kind, meta))
    return out


def _is_null(p: Any) -> bool:
    return p is NULL or (isinstance(p, Ptr) and p.kind == 'null')


def _loop_from(ex, ctx, ent, head, extra, at_return, listed, frame, refs, L, rw, total, ring_null):
    for v in ('i', 'total', 'start'):
        if v not in ctx.vars:
            raise Undecided(f'{FUNC}: local {v} not found at the loop head (contract is stale)')
    extra.append(Obl(f'{FUNC}:{ent}.loop.entry.invariant_established', list(ctx.pc), z3.And(
        ctx.vars['i'] == 0, ctx.ghost['list_len'] == 0, ctx.vars['total'] == total, z3.Not(ring_null), z3.Not(ctx.M['pyerr']), frame(ctx),
        z3.BoolVal(refs(ctx) == {'list': 1}))))
    # the index the loop will use, against the op number it stands for (pure arithmetic: the heart of the argument)
    i_any = z3.BitVec('i_any', 64)
    c_index = z3.URem(ctx.vars['start'] + i_any, L)
    extra.append(Obl(f'{FUNC}:{ent}.loop.entry.start_plus_i_is_the_slot_of_op_writes_minus_total_plus_i', list(ctx.pc) + [z3.ULT(i_any, total)],
                     c_index == z3.URem(rw - total + i_any, L)))
    # an arbitrary iteration
    sh = ctx.fork()
    sh.vars['i'] = i_any
    sh.ghost['list_len'] = z3.BitVec('list_len_any', 64)
    sh.ghost['list_items'] = z3.Array('list_items_any', BV, BV)
    if 'address' in sh.vars:
        del sh.vars['address']
    sh.assume(z3.ULE(i_any, total))
    sh.assume(z3.Implies(z3.ULT(i_any, total), c_index == z3.URem(rw - total + i_any, L)))  # the lemma proved just above, for this iteration
    sh.assume(sh.ghost['list_len'] == i_any)
    sh.assume(listed(sh, i_any))
    extra.append(Obl(f'{FUNC}:{ent}.loop.cover.invariant_satisfiable', list(sh.pc), None, 'cover'))
    n_back = 0
    for i, (s, where) in enumerate(ex.run(sh, head, stop={head})):
        if where[0] == 'return':
            at_return(s, where[1], f'{FUNC}:{ent}.from_an_iteration.path{i}')
            continue
        n_back += 1
        tag = f'{FUNC}:{ent}.loop.invariant_preserved.path{i}'
        extra.append(Obl(f'{tag}.cover', list(s.pc), None, 'cover'))
        extra.append(Obl(f'{tag}.index_advances_inside_the_range', list(s.pc), z3.And(s.vars['i'] == i_any + 1, z3.ULE(s.vars['i'], total), s.ghost['list_len'] == s.vars['i'])))
        extra.append(Obl(f'{tag}.appended_entry_is_the_next_op_and_earlier_entries_stay', list(s.pc), listed(s, s.vars['i'])))
        same = all(s.vars.get(v) is not None and z3.eq(z3.simplify(s.vars[v]), z3.simplify(sh.vars[v])) for v in ('total', 'start'))
        extra.append(Obl(f'{tag}.frame_no_error_one_list_reference', list(s.pc), z3.And(frame(s), z3.Not(s.M['pyerr']), z3.BoolVal(same), z3.BoolVal(refs(s) == {'list': 1, 'address': 0} or refs(s) == {'list': 1}))))
    if not n_back:
        raise Undecided(f'{FUNC}: no path returns to the loop head')
    return [c_index, z3.URem(rw - total + i_any, L), z3.ULE(i_any, total), ctx.vars['start']]


def unit_ring_to_list() -> Dict[str, Any]:
    fns = load_functions()
    if FUNC not in fns:
        raise Undecided(f'function {FUNC} not found in _fjcore.c')
    ex = CExec(Linear(fns[FUNC]), name=FUNC)
    heads = [lab for lab in ex.lin.labels if lab.endswith('.head')]
    if len(heads) != 1:
        raise Undecided(f'{FUNC}: expected exactly one loop, found {len(heads)}')
    head = heads[0]
    L, rw = z3.BitVec('ring_len', 64), z3.BitVec('ring_writes', 64)
    ring0, W = z3.Array('ring0', BV, BV), z3.Array('W_ops', BV, BV)
    ring_null = z3.Bool('ring_is_null')
    total = _total(rw, L)

    st = CState()
    st.M['ring'] = ring0
    st.M['pyerr'] = z3.BoolVal(False)
    st.vars['last_ops_ring'] = Ptr('u64', ('ring', u64(0)), ring_null)
    st.vars['last_ops_length'] = L
    st.vars['ring_writes'] = rw
    # precondition (what Memory_run establishes): a ring exists only for a positive length, has that many elements (the bounds
    # obligations use it as the allocation size) and its content is that of the last min(rw, L) ops
    st.assume(z3.Implies(z3.Not(ring_null), z3.And(L > 0, ring_inv(ring0, W, L, rw))))
    st.ghost['refs'] = {}

    def refs(s: CState) -> Dict[str, int]:
        return dict(s.ghost.get('refs', {}))

    def list_new(e, s0, args, node):
        fail = s0.fork()
        fail.M['pyerr'] = z3.BoolVal(True)
        yield (fail, NULL)
        ok = s0.fork()
        r = refs(ok)
        r['list'] = r.get('list', 0) + 1
        ok.ghost['refs'] = r
        ok.ghost['list_len'] = args[0]
        ok.ghost['list_items'] = z3.Array('list_items0', BV, BV)
        yield (ok, Ptr('pyobj', 'list'))

    def from_ull(e, s0, args, node):
        fail = s0.fork()
        fail.M['pyerr'] = z3.BoolVal(True)
        yield (fail, NULL)
        ok = s0.fork()
        r = refs(ok)
        r['address'] = r.get('address', 0) + 1
        ok.ghost['refs'] = r
        ok.ghost['address_value'] = args[0]
        yield (ok, Ptr('pyobj', 'address'))

    def append(e, s0, args, node):
        if not (isinstance(args[0], Ptr) and args[0].where == 'list' and isinstance(args[1], Ptr) and args[1].where == 'address'):
            raise Undecided(f'{FUNC}: PyList_Append is not called with (the new list, the new address object)')
        fail = s0.fork()
        fail.M['pyerr'] = z3.BoolVal(True)
        yield (fail, i32(-1))
        ok = s0.fork()  # the list takes its own reference; the caller's stays
        ok.ghost['list_items'] = z3.Store(ok.ghost['list_items'], ok.ghost['list_len'], ok.ghost['address_value'])
        ok.ghost['list_len'] = ok.ghost['list_len'] + 1
        yield (ok, i32(0))

    def make_decref(null_ok: bool):
        def decref(e, s0, args, node):
            p = args[0]
            s = s0.fork()
            if _is_null(p):
                if not null_ok:
                    ex.oblige(s, 'Py_DECREF_of_NULL', z3.BoolVal(False))
                yield (s, None)
                return
            if not isinstance(p, Ptr) or p.kind != 'pyobj':
                raise Undecided(f'{FUNC}: Py_DECREF of {p!r}')
            r = refs(s)
            r[p.where] = r.get(p.where, 0) - 1
            s.ghost['refs'] = r
            yield (s, None)

        return decref

    decref, xdecref = make_decref(False), make_decref(True)

    for nme, h in (('PyList_New', list_new), ('PyLong_FromUnsignedLongLong', from_ull), ('PyList_Append', append),
                   ('Py_DECREF', decref), ('_Py_DECREF', decref), ('Py_XDECREF', xdecref), ('_Py_XDECREF', xdecref)):
        ex.contracts[nme] = h

    extra: List[Obl] = [Obl(f'{FUNC}:cover.requires', list(st.pc), None, 'cover'),
                        Obl(f'{FUNC}:cover.requires_with_a_wrapped_ring', list(st.pc) + [z3.Not(ring_null), z3.ULT(L, rw), z3.URem(rw, L) != 0], None, 'cover')]
    j = z3.BitVec('j_list', 64)

    def listed(s: CState, upto) -> Any:
        """the list built so far holds the addresses of ops rw-total .. rw-total+upto-1, in that order"""
        return z3.ForAll([j], z3.Implies(z3.ULT(j, upto), z3.Select(s.ghost['list_items'], j) == z3.Select(W, rw - total + j)))

    def frame(s: CState) -> Any:
        return z3.And(s.M['ring'] == ring0, s.vars['last_ops_length'] == L, s.vars['ring_writes'] == rw)

    def at_return(s: CState, ret: Any, tag: str) -> None:
        extra.append(Obl(f'{tag}.cover', list(s.pc), None, 'cover'))
        extra.append(Obl(f'{tag}.ring_length_and_writes_untouched', list(s.pc), frame(s)))
        r = refs(s)
        if _is_null(ret):
            extra.append(Obl(f'{tag}.failure_sets_an_error_and_releases_every_reference', list(s.pc), z3.And(s.M['pyerr'], z3.BoolVal(all(v == 0 for v in r.values())))))
            return
        if not (isinstance(ret, Ptr) and ret.where == 'list'):
            raise Undecided(f'{FUNC}: returns {ret!r}')
        extra.append(Obl(f'{tag}.success_returns_the_only_reference_without_pending_error', list(s.pc), z3.And(z3.Not(s.M['pyerr']), z3.BoolVal(r.get('list', 0) == 1 and r.get('address', 0) == 0))))
        n_expected = z3.If(ring_null, u64(0), total)
        extra.append(Obl(f'{tag}.list_has_min_writes_length_entries', list(s.pc), s.ghost['list_len'] == n_expected))
        extra.append(Obl(f'{tag}.entries_are_the_last_executed_ops_oldest_first', list(s.pc), listed(s, n_expected)))

    ctxs = []
    for i, (s, where) in enumerate(ex.run(st, 0, stop={head})):
        if where[0] == 'return':
            at_return(s, where[1], f'{FUNC}:before_loop.path{i}')
        else:
            ctxs.append(s)
    if not ctxs:
        raise Undecided(f'{FUNC}: the loop is not reached')
    probes: List[Any] = []
    for ci, ctx in enumerate(ctxs):  # one entry context per path to the loop (the min() is a branch); each gets its own induction
        probes += _loop_from(ex, ctx, f'entry{ci}', head, extra, at_return, listed, frame, refs, L, rw, total, ring_null)
    extra.append(Obl(f'{FUNC}:canary', list(st.pc), None, 'canary'))
    n_self = self_test(probes)
    out = finish_unit(_Unit(_to_int(list(ex.obligations) + extra)), [])
    out['dropped'] = [f'bv2int self-test: {n_self} evaluations agreed']
    return out


def unit_ring_lemma() -> Dict[str, Any]:
    L, rw, ip = z3.BitVec('ring_len', 64), z3.BitVec('ring_writes', 64), z3.BitVec('ip', 64)
    ring0, W = z3.Array('ring0', BV, BV), z3.Array('W_ops', BV, BV)
    pre = [L > 0, rw != u64(-1)]  # fewer than 2^64 - 1 ops so far (the counter itself would wrap otherwise)
    ring1, W1 = z3.Store(ring0, z3.URem(rw, L), ip), z3.Store(W, rw, ip)
    obls = [
        Obl('ring_lemma:cover.requires', pre + [ring_inv(ring0, W, L, rw), z3.ULT(L, rw)], None, 'cover'),
        Obl('ring_lemma:invariant_holds_for_the_fresh_ring', [L > 0], ring_inv(ring0, W, L, u64(0))),
        Obl('ring_lemma:one_op_store_at_writes_mod_length_preserves_the_content_invariant', pre + [ring_inv(ring0, W, L, rw)], ring_inv(ring1, W1, L, rw + 1)),
        Obl('ring_lemma:the_store_is_inside_the_ring', pre, z3.ULT(z3.URem(rw, L), L)),
        Obl('ring_lemma:canary', pre + [ring_inv(ring0, W, L, rw)], None, 'canary'),
    ]
    n_self = self_test([z3.URem(rw, L), rw + 1, rw - _total(rw, L), L > 0])
    out = finish_unit(_Unit(_to_int(obls)), [])
    out['dropped'] = [f'bv2int self-test: {n_self} evaluations agreed']
    return out


# ----------------------------------------------------------------------------- the glue: Memory_run and build_run_result


def _glue_exec(fname: str):
    fns = load_functions()
    if fname not in fns:
        raise Undecided(f'function {fname} not found in _fjcore.c')
    return CExec(Linear(fns[fname]), name=fname)


def _set_out(s: CState, p: Any, val: Any, what: str) -> None:
    if not (isinstance(p, Ptr) and isinstance(p.where, tuple) and p.where[0] == 'local'):
        raise Undecided(f'{what}: out-parameter is not the address of a local ({p!r})')
    s.vars[p.where[1]] = val


def _noop(e, s0, args, node):
    yield (s0, None)


def _same_ring(p: Any) -> Any:
    """the pointer is the ring allocated by Memory_run (region 'ring', offset 0)"""
    if isinstance(p, Ptr) and p.kind == 'u64' and isinstance(p.where, tuple) and p.where[0] == 'ring':
        return p.where[1] == u64(0)
    return z3.BoolVal(False)


def unit_memory_run_glue() -> Dict[str, Any]:
    """Memory_run around the loops: the ring it allocates has exactly last_ops_length (> 0) elements and is the one handed
    to the loop; after the loop - on the normal path (build_run_result) and on the exception path (last_ops_ring_to_list ->
    last_run_last_ops) - the SAME ring, the SAME length and the loop's OWN ring_writes result are handed on, so the
    precondition of last_ops_ring_to_list (the ring content invariant the loop established) holds at each call; the op count
    and cause given to build_run_result are the loop's; the ring is released exactly once on every path after its allocation."""
    name = 'Memory_run'
    ex = _glue_exec(name)
    W = z3.Array('W_ops', BV, BV)
    st = CState()
    st.M['pyerr'] = z3.BoolVal(False)
    st.M['flat_nonnull'] = z3.Bool('flat_nonnull0')
    st.M['f:last_run_last_ops'] = Ptr('pyobj', 'old_last_ops', z3.Bool('old_last_ops_null'))
    st.M['f:spec_measured'] = z3.BitVec('spec_measured0', 32)
    st.M['ring'] = z3.Array('ring_unallocated', BV, BV)
    st.vars['self'], st.vars['args'], st.vars['kwds'] = Ptr('mem'), Ptr('pyobj', 'args'), Ptr('pyobj', 'kwds')
    st.ghost['ring_live'] = 0
    api_len, api_ip = z3.BitVec('api_last_ops_length', 64), z3.BitVec('api_start_ip', 64)

    def parse(e, s0, args, node):
        fail = s0.fork()
        fail.M['pyerr'] = z3.BoolVal(True)
        yield (fail, i32(0))
        ok = s0.fork()
        outs = args[4:]
        if len(outs) != 5:
            raise Undecided(f'{name}: PyArg_ParseTupleAndKeywords has {len(outs)} out-parameters, the contract expects 5')
        for p, nm_ in zip(outs[:3], ('read_bit', 'write_bit', 'eof_exception_type')):
            _set_out(ok, p, Ptr('pyobj', nm_), name)
        _set_out(ok, outs[3], api_len, name)  # optional arguments: the symbolic value includes the default 0
        _set_out(ok, outs[4], api_ip, name)
        yield (ok, i32(1))

    def decide(e, s0, args, node):
        fail = s0.fork()
        fail.M['pyerr'] = z3.BoolVal(True)
        yield (fail, i32(-1))
        ok = s0.fork()
        ok.M['flat_nonnull'] = z3.Bool('flat_nonnull_decided')
        yield (ok, i32(0))

    def getenv(e, s0, args, node):
        yield (s0, NULL)  # the variable is unset (the speculation-measurement run is outside this unit, see assumptions)

    def calloc(e, s0, args, node):
        yield (s0.fork(), NULL)
        ok = s0.fork()
        ok.ghost['calloc_count'], ok.ghost['calloc_size'] = args[0], args[1]
        ok.ghost['ring_live'] = ok.ghost.get('ring_live', 0) + 1
        ok.M['ring'] = z3.K(BV, u64(0))
        yield (ok, Ptr('u64', ('ring', u64(0)), z3.BoolVal(False)))

    def flat_loop(e, s0, args, node):
        s = s0.fork()
        _set_out(s, args[5], z3.BitVec('flat_loop_ops', 64), name)
        s.ghost['loop'] = dict(kind='flat', ops=s.vars[args[5].where[1]], cause=z3.BitVec('flat_loop_cause', 32))
        yield (s, s.ghost['loop']['cause'])

    def measured_loop(e, s0, args, node):
        raise Undecided(f'{name}: run_measured_loop reached although getenv returned NULL')

    def generic_loop(e, s0, args, node):
        s = s0.fork()
        ring_p, L_arg = args[7], args[8]
        has_ring = isinstance(ring_p, Ptr) and ring_p.kind != 'null' and not z3.is_true(z3.simplify(ring_p.null))
        if has_ring:
            ex.oblige(s, 'call_run_generic_loop.ring_is_the_fresh_allocation_of_exactly_length_elements', z3.And(
                _same_ring(ring_p), L_arg > 0, s.ghost.get('calloc_count', u64(0)) == L_arg, s.ghost.get('calloc_size', u64(0)) == u64(8)))
        else:
            ex.oblige(s, 'call_run_generic_loop.without_a_ring_no_last_ops_were_requested', L_arg <= 0)
        ops_r, rw_r = z3.BitVec('loop_ops_result', 64), z3.BitVec('loop_ring_writes_result', 64)
        _set_out(s, args[5], ops_r, name)
        _set_out(s, args[9], rw_r, name)
        if has_ring:  # postcondition of the loop: unit_loop's per-op store + ring_lemma, by induction over the ops
            s.M['ring'] = z3.Array('ring_after_loop', BV, BV)
            s.assume(ring_inv(s.M['ring'], W, L_arg, rw_r))
        s.ghost['loop'] = dict(kind='generic', ops=ops_r, rw=rw_r, L=L_arg, has_ring=has_ring, cause=z3.BitVec('loop_cause', 32))
        if not isinstance(args[4], z3.ExprRef) or not z3.eq(z3.simplify(args[4]), z3.simplify(api_ip)):
            ex.oblige(s, 'call_run_generic_loop.start_ip_is_the_requested_one', z3.BoolVal(False))
        yield (s, s.ghost['loop']['cause'])

    def ring_args_ok(s: CState, ring_p, L_arg, rw_arg, what: str) -> None:
        lp = s.ghost.get('loop')
        if lp is None:
            raise Undecided(f'{name}: {what} before any loop ran')
        if lp.get('has_ring'):
            ex.oblige(s, f'{what}.passes_the_ring_its_length_and_the_ring_writes_of_the_loop', z3.And(_same_ring(ring_p), L_arg == lp['L'], rw_arg == lp['rw']))
            ex.oblige(s, f'{what}.requires_ring_content_invariant', ring_inv(s.M['ring'], W, L_arg, rw_arg))
        else:
            null = z3.BoolVal(True) if _is_null(ring_p) else (ring_p.null if isinstance(ring_p, Ptr) else z3.BoolVal(False))
            ex.oblige(s, f'{what}.without_a_ring_passes_NULL', null)

    def to_list(e, s0, args, node):
        ring_args_ok(s0, args[0], args[1], args[2], 'call_last_ops_ring_to_list')
        fail = s0.fork()
        fail.M['pyerr'] = z3.BoolVal(True)
        yield (fail, NULL)
        yield (s0.fork(), Ptr('pyobj', 'last_ops_list'))

    def build(e, s0, args, node):
        ring_args_ok(s0, args[3], args[4], args[5], 'call_build_run_result')
        lp = s0.ghost['loop']
        ex.oblige(s0, 'call_build_run_result.reports_the_cause_and_op_count_of_the_loop', z3.And(args[1] == lp['cause'], args[2] == lp['ops']))
        s = s0.fork()
        if not _is_null(args[3]):
            s.ghost['ring_live'] = s.ghost.get('ring_live', 0) - 1  # build_run_result takes ownership of the ring (verified in its own unit)
        yield (s, Ptr('pyobj', 'result'))

    def free(e, s0, args, node):
        s = s0.fork()
        if not _is_null(args[0]):
            s.ghost['ring_live'] = s.ghost.get('ring_live', 0) - 1
        yield (s, None)

    def no_memory(e, s0, args, node):
        s = s0.fork()
        s.M['pyerr'] = z3.BoolVal(True)
        yield (s, NULL)

    for nme, h in (('PyArg_ParseTupleAndKeywords', parse), ('_PyArg_ParseTupleAndKeywords_SizeT', parse), ('mem_decide_storage', decide), ('getenv', getenv),
                   ('calloc', calloc), ('run_flat_loop', flat_loop), ('run_measured_loop', measured_loop), ('run_generic_loop', generic_loop),
                   ('last_ops_ring_to_list', to_list), ('build_run_result', build), ('free', free), ('PyErr_NoMemory', no_memory),
                   ('PyErr_Fetch', _noop), ('PyErr_Restore', _noop), ('PyErr_Clear', _noop), ('Py_DECREF', _noop), ('_Py_DECREF', _noop),
                   ('Py_XDECREF', _noop), ('_Py_XDECREF', _noop)):
        ex.contracts[nme] = h
    extra: List[Obl] = [Obl(f'{name}:cover.requires', list(st.pc), None, 'cover')]
    n_ring_paths = 0
    for i, (s, where) in enumerate(ex.run(st, 0, stop=set())):
        if where[0] != 'return':
            raise Undecided(f'{name}: path ended at label {where[1]}')
        tag = f'{name}:path{i}'
        extra.append(Obl(f'{tag}.cover', list(s.pc), None, 'cover'))
        extra.append(Obl(f'{tag}.ring_released_exactly_once', list(s.pc), z3.BoolVal(s.ghost.get('ring_live', 0) == 0)))
        lp = s.ghost.get('loop')
        if lp:  # once a loop ran, the list kept on the object is this run's (exception path with a ring) or none: never the previous run's
            kept0 = s.M['f:last_run_last_ops']
            extra.append(Obl(f'{tag}.no_stale_last_ops_list_survives_a_run', list(s.pc), (z3.BoolVal(True) if (isinstance(kept0, Ptr) and (kept0.where == 'last_ops_list' or _is_null(kept0))) else (kept0.null if isinstance(kept0, Ptr) else z3.BoolVal(False)))))
        if lp and lp.get('has_ring'):
            n_ring_paths += 1
            if _is_null(where[1]):  # exception path: the list of the ops executed so far is kept on the object (or NULL if it could not be built)
                kept = s.M['f:last_run_last_ops']
                extra.append(Obl(f'{tag}.exception_path_keeps_the_last_ops_list', list(s.pc), z3.BoolVal(isinstance(kept, Ptr) and (kept.where == 'last_ops_list' or _is_null(kept)))))
    if n_ring_paths < 2:
        raise Undecided(f'{name}: expected a normal and an exception path with a ring, found {n_ring_paths}')
    extra.append(Obl(f'{name}:canary', list(st.pc), None, 'canary'))
    out = finish_unit(_Unit(_to_int(list(ex.obligations) + extra)), [])
    out['dropped'] = ['getenv("FLIPJUMP_MEASURE_SPECULATION") modelled as unset: the run_measured_loop branch (no ring: NULL, 0, 0) is not explored', 'double arithmetic (timing only; opaque)']
    return out


def unit_build_run_result() -> Dict[str, Any]:
    """build_run_result: hands its ring, length and ring_writes UNCHANGED to last_ops_ring_to_list, frees the ring exactly once on
    every path, and puts that list (and the given cause / op count) into the result tuple."""
    name = 'build_run_result'
    ex = _glue_exec(name)
    st = CState()
    st.M['pyerr'] = z3.BoolVal(False)
    st.M['f:error_bit_address'] = z3.BitVec('error_bit_address', 64)
    st.M['ring'] = z3.Array('ring0', BV, BV)
    L, rw, ops, cause = z3.BitVec('ring_len', 64), z3.BitVec('ring_writes', 64), z3.BitVec('ops', 64), z3.BitVec('cause', 32)
    ring_null = z3.Bool('ring_is_null')
    st.vars['self'] = Ptr('mem')
    st.vars['cause'], st.vars['ops'], st.vars['last_ops_length'], st.vars['ring_writes'] = cause, ops, L, rw
    st.vars['last_ops_ring'] = Ptr('u64', ('ring', u64(0)), ring_null)
    st.vars['paused_seconds'] = ('double',)
    st.vars['_Py_NoneStruct'] = Ptr('pyobj', 'None')
    st.ghost['freed'] = 0

    def to_list(e, s0, args, node):
        p = args[0]
        ex.oblige(s0, 'call_last_ops_ring_to_list.passes_ring_length_and_writes_unchanged', z3.And(
            z3.BoolVal(isinstance(p, Ptr) and p.kind == 'u64' and p.where[0] == 'ring') if not _is_null(p) else ring_null,
            (p.where[1] == u64(0)) if (isinstance(p, Ptr) and p.kind == 'u64') else z3.BoolVal(True),
            (p.null == ring_null) if isinstance(p, Ptr) and p.kind == 'u64' else z3.BoolVal(True), args[1] == L, args[2] == rw))
        ex.oblige(s0, 'call_last_ops_ring_to_list.ring_not_yet_freed', z3.BoolVal(s0.ghost.get('freed', 0) == 0))
        fail = s0.fork()
        fail.M['pyerr'] = z3.BoolVal(True)
        yield (fail, NULL)
        yield (s0.fork(), Ptr('pyobj', 'last_ops_list'))

    def free(e, s0, args, node):
        s = s0.fork()
        s.ghost['freed'] = s.ghost.get('freed', 0) + 1
        yield (s, None)

    def from_ull(e, s0, args, node):
        fail = s0.fork()
        fail.M['pyerr'] = z3.BoolVal(True)
        yield (fail, NULL)
        ok = s0.fork()
        ok.ghost['error_address_value'] = args[0]
        yield (ok, Ptr('pyobj', 'error_address'))

    def build_value(e, s0, args, node):
        s = s0.fork()
        s.ghost['tuple'] = list(args[1:])
        yield (s, Ptr('pyobj', 'tuple'))

    for nme, h in (('last_ops_ring_to_list', to_list), ('free', free), ('PyLong_FromUnsignedLongLong', from_ull), ('Py_BuildValue', build_value),
                   ('_Py_BuildValue_SizeT', build_value), ('Py_INCREF', _noop), ('_Py_INCREF', _noop), ('Py_DECREF', _noop), ('_Py_DECREF', _noop)):
        ex.contracts[nme] = h
    extra: List[Obl] = [Obl(f'{name}:cover.requires', list(st.pc), None, 'cover')]
    n_ok = 0
    for i, (s, where) in enumerate(ex.run(st, 0, stop=set())):
        if where[0] != 'return':
            raise Undecided(f'{name}: path ended at label {where[1]}')
        tag = f'{name}:path{i}'
        extra.append(Obl(f'{tag}.cover', list(s.pc), None, 'cover'))
        extra.append(Obl(f'{tag}.ring_freed_exactly_once', list(s.pc), z3.BoolVal(s.ghost.get('freed', 0) == 1)))
        if _is_null(where[1]):
            extra.append(Obl(f'{tag}.failure_sets_an_error', list(s.pc), s.M['pyerr']))
            continue
        n_ok += 1
        t = s.ghost.get('tuple')
        if t is None or len(t) != 5:
            raise Undecided(f'{name}: the result is not a Py_BuildValue of five values')
        extra.append(Obl(f'{tag}.tuple_carries_cause_ops_and_the_list', list(s.pc), z3.And(
            t[0] == cause, t[1] == ops, z3.BoolVal(isinstance(t[3], Ptr) and t[3].where == 'last_ops_list'), z3.Not(s.M['pyerr']))))
    if not n_ok:
        raise Undecided(f'{name}: no successful path')
    extra.append(Obl(f'{name}:canary', list(st.pc), None, 'canary'))
    return finish_unit(_Unit(_to_int(list(ex.obligations) + extra)), [])


def unit_generic_loop_dispatch(w: int) -> Dict[str, Any]:
    """run_generic_loop (the dispatch between Memory_run and the loop clones): the loop clone is called with the caller's
    memory object, callbacks, start ip and out-parameters unchanged, with the object's own (width, ww), and with the ring: with a
    ring -> (that ring, its length, with_ring = 1); without -> (NULL, 0, with_ring = 0); the clone's cause is returned."""
    from props.C01c import NativeModel

    name = 'run_generic_loop'
    ex = _glue_exec(name)
    ex.name = f'{name}[w{w}]'
    nm = NativeModel(w)
    st = nm.st0.fork()
    ring_null, L, ip = z3.Bool('ring_is_null'), z3.BitVec('ring_len', 64), z3.BitVec('start_ip', 64)
    st.vars['self'] = Ptr('mem')
    for v in ('read_bit', 'write_bit', 'eof_exception_type'):
        st.vars[v] = Ptr('pyobj', v)
    st.vars['start_ip'] = ip
    st.vars['ops_out'] = Ptr('u64', ('local', '@ops'))
    st.vars['paused_seconds_out'] = Ptr('localptr', ('local', '@paused'))
    st.vars['last_ops_ring'] = Ptr('u64', ('ring', u64(0)), ring_null)
    st.vars['last_ops_length'] = L
    st.vars['ring_writes_out'] = Ptr('u64', ('local', '@rw'))
    cause = z3.BitVec('clone_cause', 32)
    calls: List[Any] = []

    def is_ptr(p: Any, kind: str, where: Any) -> bool:
        return isinstance(p, Ptr) and p.kind == kind and p.where == where

    def clone(e, s0, args, node):
        if len(args) != 13:
            raise Undecided(f'{name}: run_paged_loop_impl is called with {len(args)} arguments, the contract expects 13')
        passthrough = (is_ptr(args[0], 'mem', None) and all(is_ptr(a, 'pyobj', v) for a, v in zip(args[1:4], ('read_bit', 'write_bit', 'eof_exception_type')))
                       and is_ptr(args[5], 'u64', ('local', '@ops')) and is_ptr(args[6], 'localptr', ('local', '@paused')) and is_ptr(args[9], 'u64', ('local', '@rw')))
        ex.oblige(s0, 'call_loop_clone.object_callbacks_start_ip_and_out_parameters_unchanged', z3.And(z3.BoolVal(passthrough), args[4] == ip))
        ex.oblige(s0, 'call_loop_clone.width_and_ww_are_the_objects', z3.And(args[10] == z3.ZeroExt(32, s0.M['f:w']) if s0.M['f:w'].size() == 32 else args[10] == s0.M['f:w'],
                                                                                args[11] == z3.ZeroExt(32, s0.M['f:ww']) if s0.M['f:ww'].size() == 32 else args[11] == s0.M['f:ww']))
        rp = args[7]
        with_ring = args[12]
        if _is_null(rp):
            ring_ok = z3.And(ring_null, args[8] == 0, with_ring == 0)
        else:
            ring_ok = z3.And(z3.Not(ring_null), _same_ring(rp), args[8] == L, with_ring == 1)
        ex.oblige(s0, 'call_loop_clone.ring_length_and_ring_flag_agree_with_the_callers_ring', ring_ok)
        calls.append(1)
        yield (s0, cause)

    ex.contracts['run_paged_loop_impl'] = clone
    extra: List[Obl] = [Obl(f'{ex.name}:cover.requires', list(st.pc), None, 'cover')]
    n = 0
    for i, (s, where) in enumerate(ex.run(st, 0, stop=set())):
        if where[0] != 'return':
            raise Undecided(f'{name}: path ended at label {where[1]}')
        n += 1
        tag = f'{ex.name}:path{i}'
        extra.append(Obl(f'{tag}.cover', list(s.pc), None, 'cover'))
        extra.append(Obl(f'{tag}.returns_the_cause_of_the_clone', list(s.pc), where[1] == cause))
    if n < 2 or len(calls) < 2:
        raise Undecided(f'{name}: expected a path with and one without a ring')
    extra.append(Obl(f'{ex.name}:canary', list(st.pc), None, 'canary'))
    return finish_unit(_Unit(list(ex.obligations) + extra), [])


def unit_get_last_ops() -> Dict[str, Any]:
    """Memory_get_last_ops (the `last_run_last_ops` attribute _run_native reads on its exception path): returns the list kept by
    Memory_run with a new reference, or a new empty list when none is kept; the kept list itself stays."""
    name = 'Memory_get_last_ops'
    ex = _glue_exec(name)
    outs_all = []
    for kept_null in (False, True):
        st = CState()
        st.M['pyerr'] = z3.BoolVal(False)
        st.M['f:last_run_last_ops'] = NULL if kept_null else Ptr('pyobj', 'kept_list', z3.BoolVal(False))
        st.vars['self'], st.vars['closure'] = Ptr('mem'), Ptr('opaque', 'closure')
        st.ghost['incref'] = 0

        def list_new(e, s0, args, node):
            fail = s0.fork()
            fail.M['pyerr'] = z3.BoolVal(True)
            yield (fail, NULL)
            ok = s0.fork()
            ok.ghost['new_list_len'] = args[0]
            yield (ok, Ptr('pyobj', 'new_empty_list'))

        def incref(e, s0, args, node):
            s = s0.fork()
            if not (isinstance(args[0], Ptr) and args[0].where == 'kept_list'):
                raise Undecided(f'{name}: Py_INCREF of {args[0]!r}')
            s.ghost['incref'] = s.ghost.get('incref', 0) + 1
            yield (s, None)

        ex.contracts['PyList_New'] = list_new
        ex.contracts['Py_INCREF'] = ex.contracts['_Py_INCREF'] = ex.contracts['Py_IncRef'] = incref
        for i, (s, where) in enumerate(ex.run(st, 0, stop=set())):
            outs_all.append((kept_null, i, s, where))
    extra: List[Obl] = []
    for kept_null, i, s, where in outs_all:
        if where[0] != 'return':
            raise Undecided(f'{name}: path ended at label {where[1]}')
        tag = f"{name}:{'nothing_kept' if kept_null else 'list_kept'}.path{i}"
        ret = where[1]
        extra.append(Obl(f'{tag}.cover', list(s.pc), None, 'cover'))
        keeps = s.M['f:last_run_last_ops']
        same_field = (_is_null(keeps) if kept_null else (isinstance(keeps, Ptr) and keeps.where == 'kept_list'))
        extra.append(Obl(f'{tag}.kept_list_stays_on_the_object', list(s.pc), z3.BoolVal(bool(same_field))))
        if kept_null:
            if _is_null(ret):
                extra.append(Obl(f'{tag}.failure_sets_an_error', list(s.pc), s.M['pyerr']))
            else:
                extra.append(Obl(f'{tag}.returns_a_new_empty_list', list(s.pc), z3.And(z3.BoolVal(isinstance(ret, Ptr) and ret.where == 'new_empty_list'), s.ghost['new_list_len'] == 0, z3.Not(s.M['pyerr']))))
        else:
            extra.append(Obl(f'{tag}.returns_the_kept_list_with_one_new_reference', list(s.pc), z3.And(z3.BoolVal(isinstance(ret, Ptr) and ret.where == 'kept_list' and s.ghost.get('incref', 0) == 1), z3.Not(s.M['pyerr']))))
    if len(outs_all) < 3:
        raise Undecided(f'{name}: expected at least three paths')
    return finish_unit(_Unit(list(ex.obligations) + extra), [])
