"""
C15 - debugging never changes the program and stops exactly where asked.

[D] * BreakpointHandler.should_break: pause  <=>  ip is a breakpoint  or  the op counter equals next_break;
    * apply_debug_action: step -> next_break = n + 1; skip N -> n + N; continue -> none; continue all -> none and
      the handler is dropped; quit -> KeyboardInterrupt; nothing else raised;
    * handle_breakpoint returns the handler / None or raises KeyboardInterrupt only (query contract);
    * _run_featured WITH a handler: the one-op simulation of C01 still holds when the pause test and the pause
      itself (contract: frame excludes memory, statistics and the device) run before the fetch;
    * non-interference frame, syntactically: nothing reachable from handle_breakpoint writes to the reader,
      the statistics or the device (no stores through `mem` / `statistics`, no write_bit / _set_memory_word).
[B] scripted sessions: random programs x breakpoint sets x command scripts (incl. reads of every format and
    unknown commands) compared with the undebugged run and with the pause trace predicted by the spec.
"""
from __future__ import annotations

import ast
import contextlib
import importlib
import inspect
import io
import random
import re
import tempfile
import textwrap
from pathlib import Path
from typing import Any, Dict, List, Optional, Tuple

import z3

from bounded import engines as E
from props import C01py
from vc.common import Obl, Report, Undecided, Violation, finish_unit, main_wrapper, run_and_discharge
from vc.pyvc.engine import OK, RAISE, Engine, LoopSpec, State
from vc.pyvc.values import ExcVal, IntBV, IntMath, Obj, Opaque, Ref, SDict

PROP = 'C15'


def _mods():
    B = importlib.import_module('flipjump.interpreter.debugging.breakpoints')
    FR = importlib.import_module('flipjump.interpreter.fjm_run')
    return B, FR


def unit_should_break_and_actions() -> Dict[str, Any]:
    B, FR = _mods()
    eng = Engine(IntMath(), name='BreakpointHandler')
    T = eng.T
    extra: List[Obl] = []
    # should_break
    for nb_kind in ('none', 'int'):
        st = State()
        bps = SDict(z3.Array('bp_dom', z3.IntSort(), z3.BoolSort()), z3.Array('bp_val', z3.IntSort(), z3.IntSort()))
        bref = st.alloc(bps)
        nb = None if nb_kind == 'none' else eng.fresh_int('next_break', st)
        ref = st.alloc(Obj(B.BreakpointHandler, dict(breakpoints=bref, next_break=nb)))
        ip, n = eng.fresh_int('ip', st), eng.fresh_int('op_counter', st)
        outs = eng.run_function(B.BreakpointHandler.should_break, st, [ref, ip, n])
        want = z3.Select(bps.dom, ip) if nb is None else z3.Or(nb == n, z3.Select(bps.dom, ip))
        for i, (s, sig) in enumerate(outs):
            tag = f'{eng.name}.should_break[next_break={nb_kind}]:path{i}'
            extra.append(Obl(f'{tag}.never_raises', list(s.pc), z3.BoolVal(sig[0] == 'return')))
            if sig[0] == 'return':
                r = sig[1]
                r = z3.BoolVal(r) if isinstance(r, bool) else r
                extra.append(Obl(f'{tag}.pause_iff_breakpoint_or_counter_reached', list(s.pc), r == want))
            extra.append(Obl(f'{tag}.state_unchanged', list(s.pc), z3.BoolVal(s.heap[ref.id] is st.heap[ref.id] and s.heap[bref.id] is bps)))
    # apply_debug_action
    for cmd in ('step', 'skip', 'continue', 'continue_all', 'exit', 'something-else'):
        st = State()
        ref = st.alloc(Obj(B.BreakpointHandler, dict(next_break=eng.fresh_int('old_next_break', st))))
        n, arg = eng.fresh_int('op_counter', st), eng.fresh_int('argument', st)
        outs = eng.run_function(B.BreakpointHandler.apply_debug_action, st, [ref, (cmd, arg), n])
        for i, (s, sig) in enumerate(outs):
            tag = f'{eng.name}.apply_debug_action[{cmd}]:path{i}'
            nb2 = s.heap[ref.id].fields['next_break']
            if cmd == 'step':
                ok = z3.And(z3.BoolVal(sig[0] == 'return'), T.lift(nb2) == n + 1)
            elif cmd == 'skip':
                ok = z3.And(z3.BoolVal(sig[0] == 'return'), T.lift(nb2) == n + arg)
            elif cmd == 'continue':
                ok = z3.BoolVal(sig[0] == 'return' and nb2 is None)
            elif cmd == 'continue_all':
                ok = z3.BoolVal(sig[0] == 'raise' and sig[1].cls is B.BreakpointHandlerUnnecessary and nb2 is None)
            elif cmd == 'exit':
                ok = z3.BoolVal(sig[0] == 'raise' and sig[1].cls is KeyboardInterrupt)
            else:
                ok = z3.BoolVal(sig[0] == 'return')
            extra.append(Obl(f'{tag}.next_pause_as_documented', list(s.pc), ok))
    # handle_breakpoint
    for cmd in ('step', 'skip', 'continue', 'continue_all', 'exit'):
        st = State()
        CL = importlib.import_module('flipjump.utils.classes')
        pause = st.alloc(Obj(CL.RunStatistics.PauseTimer, dict(paused_time=Opaque('float'))))
        stats = st.alloc(Obj(CL.RunStatistics, dict(op_counter=eng.fresh_int('n', st), pause_timer=pause)))
        ref = st.alloc(Obj(B.BreakpointHandler, dict(next_break=None)))
        eng.inline.add(B.BreakpointHandler.apply_debug_action)
        eng.contracts[B.BreakpointHandler.query_user_for_debug_action] = (lambda c: (lambda e, s, a, k: iter([(OK, s, (c, e.fresh_int('count', s, 1, None)))])))(cmd)
        outs = eng.run_function(B.handle_breakpoint, st, [ref, eng.fresh_int('ip', st), Opaque('mem'), stats])
        for i, (s, sig) in enumerate(outs):
            tag = f'{eng.name}.handle_breakpoint[{cmd}]:path{i}'
            if cmd == 'exit':
                ok = sig[0] == 'raise' and sig[1].cls is KeyboardInterrupt
            elif cmd == 'continue_all':
                ok = sig[0] == 'return' and sig[1] is None
            else:
                ok = sig[0] == 'return' and sig[1] == ref
            extra.append(Obl(f'{tag}.returns_handler_or_none_or_interrupts', list(s.pc), z3.BoolVal(ok)))
            extra.append(Obl(f'{tag}.statistics_untouched', list(s.pc), z3.BoolVal(s.heap[stats.id] is st.heap[stats.id])))
    return finish_unit(eng, extra)


def unit_breakpoint_table() -> Dict[str, Any]:
    """get_breakpoints: the breakpoint table's key set is EXACTLY the given addresses, the addresses of the given
    labels that exist, and the addresses of the labels containing a given substring - for arbitrary (symbolic)
    addresses, so address 0 and colliding addresses are included; every label stored as a value labels its key.
    Label NAMES are concrete per instantiation (string tests are evaluated by CPython), interned as integers."""
    B, _ = _mods()

    class Interning(IntMath):
        def __init__(self):
            super().__init__()
            self.ids: Dict[str, int] = {}

        def lift(self, x):
            if x is None:
                return z3.IntVal(-1)
            if isinstance(x, str):
                return z3.IntVal(1000 + self.ids.setdefault(x, len(self.ids)))
            return super().lift(x)

    extra: List[Obl] = []
    eng = Engine(Interning(), name='get_breakpoints')
    eng.inline |= {B.update_breakpoints_from_addresses_set, B.update_breakpoints_from_breakpoint_contains_set, B.update_breakpoints_from_breakpoint_set}
    names = ['a', 'ab', 'b', 'xa', 'start']
    label_sets = [None, [], ['a'], ['b', 'missing'], ['start', 'ab', 'a'], ['nothere']]
    contains_sets = [None, [], ['a'], ['x', 'st'], ['zzz'], ['']]
    addr_sets = [None, [], ['p'], ['p', 'q']]
    k = z3.Int('k')
    for li, labels in enumerate(label_sets):
        for ci, contains in enumerate(contains_sets):
            for ai, addrs in enumerate(addr_sets):
                T = eng.T
                A = {nm: z3.Int(f'addr_{nm}') for nm in names}
                pq = {'p': z3.Int('p'), 'q': z3.Int('q')}
                st = State()
                outs = eng.run_function(B.get_breakpoints, st, [None if addrs is None else [pq[x] for x in addrs], labels, contains, dict(A)])
                tag = f'get_breakpoints[labels{li},contains{ci},addresses{ai}]'
                want_keys = [pq[x] for x in (addrs or [])] + [A[l] for l in (labels or []) if l in A] + [A[l] for l in names if any(c in l for c in (contains or []))]
                for i, (s, sig) in enumerate(outs):
                    if not (isinstance(sig, tuple) and sig[0] == 'return' and isinstance(sig[1], Ref)):
                        extra.append(Obl(f'{tag}:path{i}.returns_a_table', list(s.pc), z3.BoolVal(False)))
                        continue
                    d = s.heap[sig[1].id]
                    extra.append(Obl(f'{tag}:path{i}.keys_are_exactly_the_requested_addresses', list(s.pc), z3.ForAll([k], z3.Select(d.dom, k) == z3.Or([k == a for a in want_keys] + [z3.BoolVal(False)]))))
                    lab_of = lambda v: z3.Or([z3.And(v == 1000 + T.ids.setdefault(nm, len(T.ids)), A[nm] == k) for nm in names])
                    extra.append(Obl(f'{tag}:path{i}.a_stored_label_labels_its_address', list(s.pc), z3.ForAll([k], z3.Implies(z3.Select(d.dom, k), z3.Or(z3.Select(d.val, k) == -1, lab_of(z3.Select(d.val, k)))))))
                    extra.append(Obl(f'{tag}:path{i}.cover', list(s.pc), z3.BoolVal(True), kind='cover'))
    return finish_unit(eng, extra)


def unit_frame() -> Dict[str, Any]:
    """nothing reachable from handle_breakpoint stores through mem / statistics / the device or calls a mutator"""
    B, FR = _mods()
    UQ = importlib.import_module('flipjump.interpreter.debugging.user_queries')
    eng = Engine(IntMath(), name='debugger.frame')
    extra: List[Obl] = []
    fns = [B.handle_breakpoint, B.BreakpointHandler.apply_debug_action, B.BreakpointHandler.query_user_for_debug_action, B.BreakpointHandler.get_breakpoint_message_body, B.BreakpointHandler.get_address_str, B.BreakpointHandler.handle_read_memory, B.show_memory_address, B.calculate_variable_value, B.handle_read_f_j, B.get_nice_label_repr, UQ.show_message, UQ.ask_for_command, UQ._print_message]
    mutators = {'write_bit', '_set_memory_word', 'write_word', 'write_data_byte', 'register_op', 'register_op_address', 'append', 'extend', 'clear', 'pop', 'update', 'setdefault', '__setitem__'}
    allowed_calls_on = {'tokens', 'parts'}
    known = {f.__name__ for f in fns}
    for f in fns:
        tree = ast.parse(textwrap.dedent(inspect.getsource(f)))
        bad = []
        for n in ast.walk(tree):
            if isinstance(n, (ast.Attribute, ast.Subscript)) and isinstance(n.ctx, (ast.Store, ast.Del)):
                root = n
                while isinstance(root, (ast.Attribute, ast.Subscript)):
                    root = root.value
                if isinstance(root, ast.Name) and root.id in ('mem', 'statistics', 'io_device'):
                    bad.append(f'store through {root.id} at line {n.lineno}')
            if isinstance(n, ast.Call) and isinstance(n.func, ast.Attribute) and n.func.attr in mutators:
                root = n.func.value
                while isinstance(root, (ast.Attribute, ast.Subscript)):
                    root = root.value
                if not (isinstance(root, ast.Name) and root.id in allowed_calls_on):
                    bad.append(f'call of {n.func.attr} at line {n.lineno}')
            if isinstance(n, ast.Call) and isinstance(n.func, ast.Attribute) and isinstance(n.func.value, ast.Name) and n.func.value.id == 'mem' and n.func.attr not in ('get_word', 'read_bit', 'get_memory'):
                bad.append(f'mem.{n.func.attr} at line {n.lineno}')
        extra.append(Obl(f'{eng.name}:{f.__qualname__}.reads_only', [], z3.BoolVal(not bad), meta=dict(found=str(bad))))
    # the call graph is closed: every repository function called from these is in the list (or a pure helper)
    called = set()
    for f in fns:
        for n in ast.walk(ast.parse(textwrap.dedent(inspect.getsource(f)))):
            if isinstance(n, ast.Call):
                nm = n.func.id if isinstance(n.func, ast.Name) else (n.func.attr if isinstance(n.func, ast.Attribute) else None)
                if nm and (hasattr(B, nm) or hasattr(B.BreakpointHandler, nm) or hasattr(UQ, nm)) and nm not in ('re', 'print') and not isinstance(getattr(B, nm, None), type):
                    called.add(nm)
    outside = {c for c in called if c not in known and c not in ('FlipJumpException', 'int', 'hex', 'max', 'Optional', 'Tuple')}
    extra.append(Obl(f'{eng.name}:call_graph_closed', [], z3.BoolVal(not outside), meta=dict(outside=str(sorted(outside)))))
    return finish_unit(eng, extra)


def unit_featured_with_handler(w: int) -> Dict[str, Any]:
    """the one-op simulation of _run_featured with a breakpoint handler in place: the pause test and the pause run
    before the fetch and (by their contracts) touch nothing the op depends on"""
    B, FR = _mods()
    H = C01py.LoopHarness('featured', w, True)
    eng, st = H.eng, H.st0
    eng.name = f'fjm_run.featured+debugger[w{w}]'
    handler = st.alloc(Obj(B.BreakpointHandler, dict(next_break=None)))

    def should_break(e, s, args, kwargs):
        s2 = s.fork()
        s2.trace.append(('should_break', args[1], args[2]))
        yield (OK, s2, e.fresh_bool('pause'))

    def handle(e, s, args, kwargs):
        s0 = s.fork()
        s0.trace.append(('pause', args[1]))
        yield (OK, s0, args[0])
        s1 = s.fork()
        s1.trace.append(('pause', args[1]))
        yield (OK, s1, None)
        s2 = s.fork()
        s2.trace.append(('pause', args[1]))
        s2.trace.append(('quit',))
        yield (RAISE, s2, ExcVal(KeyboardInterrupt))

    eng.contracts[B.BreakpointHandler.should_break] = should_break
    eng.contracts[FR.handle_breakpoint] = handle
    fn = FR._run_featured
    base_havoc = H.havoc

    def havoc(s: State, e: Engine):
        base_havoc(s, e)
        s.locals['breakpoint_handler'] = handler  # (a dropped handler is the C01 instantiation)

    eng.loop_specs[(fn.__qualname__, 0)] = LoopSpec(invariant=H.invariant, havoc=havoc)
    orig_events = H.events_match

    outs = eng.run_function(fn, st, [H.rm.ref, H.io_ref, H.stats_ref, handler, eng.fresh_bool('show_trace')])
    # the debugger events are checked separately; remove them from the IO trace seen by the C01 conditions
    extra: List[Obl] = []
    keep = []
    for s, sig in outs:
        dbg = [t for t in s.trace if t[0] in ('should_break', 'pause', 'quit')]
        s.trace = [t for t in s.trace if t[0] not in ('should_break', 'pause', 'quit')]
        if any(':iter' in p for p in s.path):
            tag = f'{eng.name}:dbg{len(keep)}'
            sb = [t for t in dbg if t[0] == 'should_break']
            extra.append(Obl(f'{tag}.pause_test_once_before_the_fetch_with_current_ip_and_op_count', list(s.pc), z3.And(z3.BoolVal(len(sb) == 1), (eng.T.lift(sb[0][1]) == H.head['ip']) if sb else z3.BoolVal(False), (eng.T.lift(sb[0][2]) == H.head['n']) if sb else z3.BoolVal(False))))
            if any(t[0] == 'quit' for t in dbg):
                ok = sig[0] == 'raise' and sig[1].cls is KeyboardInterrupt
                extra.append(Obl(f'{tag}.quit_propagates_as_keyboard_interrupt_before_the_op', list(s.pc), z3.BoolVal(ok and not s.trace)))
                continue
        keep.append((s, sig))
    extra += H.exit_obligations([(s, sig) for s, sig in keep if not (sig[0] == 'raise' and sig[1].cls is KeyboardInterrupt)])
    return finish_unit(eng, extra)


# ----------------------------------------------------------------------------- bounded sessions


def predict(img: E.Image, inp: bytes, bps: set, script: List[str], max_ops: int = 400):
    """spec run with the debugger's documented behaviour: list of pauses (ip, ops) and the final result"""
    m = img.machine()
    bits = [bool((inp[i // 8] >> (i % 8)) & 1) for i in range(8 * len(inp))]
    pos = [0]
    events: List[tuple] = []

    def rd():
        if pos[0] >= len(bits):
            events.append(('in', 'EOF'))
            return None
        pos[0] += 1
        events.append(('in', bits[pos[0] - 1]))
        return bits[pos[0] - 1]

    pauses = []
    next_break: Optional[int] = None
    active = True
    cmds = list(script)
    for _ in range(max_ops):
        if active and (m.ip in bps or next_break == m.n):
            pauses.append((m.ip, m.n))
            while True:
                if not cmds:
                    return dict(pauses=pauses, result=('keyboard-interrupt', m.n, None), events=events)  # EOF on the prompt
                line = cmds.pop(0).strip()
                if not line:
                    continue
                tok = line.split()
                c, a = tok[0].lower(), (tok[1] if len(tok) > 1 else None)
                if c in ('s', 'step') and a is None:
                    next_break = m.n + 1
                    break
                if c in ('s', 'skip') and a is not None:
                    try:
                        k = int(a, 0)
                    except ValueError:
                        continue
                    if k <= 0:
                        continue
                    next_break = m.n + k
                    break
                if c in ('c', 'cont', 'continue') and a is None:
                    next_break = None
                    break
                if c in ('c*', 'ca') or line.lower() == 'continue all':
                    next_break, active = None, False
                    break
                if c in ('q', 'quit', 'exit'):
                    return dict(pauses=pauses, result=('keyboard-interrupt', m.n, None), events=events)
        r = m.step(rd, lambda b: events.append(('out', bool(b))))
        if r is not None:
            return dict(pauses=pauses, result=(E.CAUSE_STR[r[0]], r[1], r[2]), events=events)
    return None


def bounded(rep: Report, tier: str, seed: int) -> None:
    B, FR = _mods()
    rng = random.Random(seed + 21)
    n = 150 if tier != 'thorough' else 3000
    evals, distinct = 0, set()
    cmds_pool = ['s', 'step', 's 2', 'skip 3', 'skip 0x2', 'skip 0', 'skip x', 'c', 'cont', 'continue', 'c*', 'ca', 'continue all', 'q', 'h', 'help', '?', 'bogus', 'r 0', 'read 0x40', 'r :f:1:0', 'r :j:0:0', 'r :b4:0', 'r :h2:64', 'r :B1:1:0', 'r nolabel', 'r 3', 'r', '', 'S', 'r 99999999999999999999']
    with tempfile.TemporaryDirectory() as td:
        for it in range(n):
            img = E.gen_image(rng, layout=rng.choice(['dense', 'two', 'gap']))
            w = img.w
            inp = bytes(rng.randrange(256) for _ in range(rng.choice([0, 1])))
            words = [s + i for s, l, _ in img.segments for i in range(l)]
            bps = set(rng.sample([a * w for a in words if a % 2 == 0], k=min(len(words) // 2, rng.randrange(0, 4))))
            if rng.random() < 0.5:
                bps.add(0)
            if rng.random() < 0.2:
                bps.add(rng.choice(words) * w + rng.randrange(1, w))
            script = [rng.choice(cmds_pool) for _ in range(rng.randrange(0, 9))]
            want = predict(img, inp, bps, script)
            base = E.spec_observation(img, inp, 400)
            if want is None or base is None:
                continue
            path = Path(td) / f'd{it}.fjm'
            img.write(path, 1)
            pauses: List[Tuple[int, int]] = []
            feed = list(script)

            def ask(prompt, feed=feed):
                return feed.pop(0).strip() if feed else None

            def show(body_message, title_message, pauses=pauses):
                if title_message in ('Breakpoint', 'Debug Step'):
                    mm = re.match(r'Address (0x[0-9a-f]+).*?\n\n(\d+) ops executed', body_message, re.S)
                    pauses.append((int(mm.group(1), 16), int(mm.group(2))) if mm else ('?', body_message[:40]))

            old = (B.ask_for_command, B.show_message)
            B.ask_for_command, B.show_message = ask, show
            dev = E.make_device(inp)
            try:
                handler = B.BreakpointHandler({a: None for a in bps}, {}, {})
                with contextlib.redirect_stdout(io.StringIO()):
                    st = FR.run(path, breakpoint_handler=handler, io_device=dev)
                got = (str(st.termination_cause), st.op_counter, st.memory_error_address)
            except BaseException as e:
                got = ('EXC:' + type(e).__name__, None, None)
            finally:
                B.ask_for_command, B.show_message = old
            path.unlink(missing_ok=True)
            evals += 1
            distinct.add((repr(img.describe()), inp, tuple(sorted(bps)), tuple(script)))
            why = None
            if pauses != want['pauses']:
                why = f'pauses (address, ops) {pauses[:6]}, expected {want["pauses"][:6]}'
            elif got != want['result']:
                why = f'result {got}, expected {want["result"]}'
            elif [e for e in dev.events] != want['events']:
                why = f'device calls {dev.events[:6]}, expected {want["events"][:6]}'
            if why:
                rep.violation(Violation('bounded:debug_sessions.same_run_and_exact_pauses', f'w={w} breakpoints={sorted(bps)} script={script}: {why}', dict(image=img.describe(), input=inp.hex(), breakpoints=sorted(bps), script=script), True, key=why.split(' ')[0]))
                if len(rep.violations) > 5:
                    break
        # variable decoding against an independent formula
        R = importlib.import_module('flipjump.fjm.fjm_reader')
        for _ in range(200 if tier != 'thorough' else 3000):
            w = rng.choice([16, 32, 64])
            rd = object.__new__(R.Reader)
            rd.memory_width, rd.garbage_handling, rd.zeros_boundaries = w, R.GarbageHandling.Stop, []
            rd.memory = {a: rng.randrange(1 << w) for a in range(64)}
            kind, nbits = rng.choice([('b', 1), ('h', 4), ('B', 8)])
            length, index, base = rng.randrange(1, 5), rng.randrange(0, 3), 2 * rng.randrange(0, 4)
            value, first, last = B.calculate_variable_value((kind, length, index), base * w, rd)
            want_v = 0
            for i in range(length):
                word = rd.memory[base + 2 * length * index + 2 * i + 1]
                want_v |= ((word >> w.bit_length()) & ((1 << nbits) - 1)) << (i * nbits)
            evals += 1
            if value != want_v or first != (base + 2 * length * index) * w or last != first + 2 * w * length:
                rep.violation(Violation('bounded:variable_decoding', f'calculate_variable_value(({kind},{length},{index}), {base * w}) = {value}, documented layout gives {want_v}', dict(w=w, kind=kind, length=length, index=index), True, key='variable'))
                break
    rep.add_bounded('scripted debugger sessions on the real featured loop', f'{n} random programs x breakpoint sets x command scripts of length <= 8 (every command spelling, reads of every format, unknown commands), compared with the undebugged spec run and the predicted pause trace; variable decoding on random memory', evals, len(distinct) + 1)


def body(tier: str, seed: int) -> int:
    rep = Report(PROP, 'quick' if tier.startswith('replay') else tier, seed, 'proof', f'./check {PROP} --tier {tier}')
    B, FR = _mods()
    jobs: List[tuple] = [(unit_should_break_and_actions, ()), (unit_frame, ()), (unit_breakpoint_table, ())]
    jobs += [(unit_featured_with_handler, (w,)) for w in ((8,) if tier != 'thorough' else C01py.WIDTHS)]
    run_and_discharge(rep, jobs)
    for f in (B.BreakpointHandler.should_break, B.BreakpointHandler.apply_debug_action, B.handle_breakpoint, FR._run_featured, B.get_breakpoints, B.update_breakpoints_from_addresses_set, B.update_breakpoints_from_breakpoint_contains_set, B.update_breakpoints_from_breakpoint_set):
        rep.add_function(f.__module__, f.__qualname__, Engine.func_lines(f))
    rep.add_function('flipjump.interpreter.debugging.breakpoints', 'query_user_for_debug_action, get_breakpoint_message_body, handle_read_memory, show_memory_address, calculate_variable_value, handle_read_f_j', '', 'frame (read-only) obligations on their AST; behaviour bounded')
    rep.assume('[A] query_user_for_debug_action returns one of (step|skip N>0|continue|continue_all|exit): its command parsing (string handling) is exercised by the scripted sessions, not proved')
    rep.assume('Reader.get_word leaves absmem unchanged (proved under C01)')
    rep.trust('pyvc symbolic executor; z3')
    bounded(rep, tier, seed)
    return rep.finish()


if __name__ == '__main__':
    main_wrapper(PROP, body)
