"""
C13 - assembly output is a pure function of its inputs.

A frame property over call histories, decided through effect/ownership obligations on the real code:
[D-static] every module-level global of fj_parser written during a parse is (re)initialised unconditionally at the
    start of parse_macro_tree / per file, before any read; sys.setrecursionlimit is set unconditionally per assemble;
[F] the stl cache key contains the width, the warning mode and (short name, resolved path, mtime_ns, size) per file;
    restoring from the cache hands the parse its OWN dictionaries and its own main-macro op list (identity checks
    on the real functions with sentinel objects);  ops/exprs are shared only behind eval_new's clone-or-share
    (no attribute stores on cached ops in the expansion code: syntactic obligation).
[B] histories: random sequences of assemble calls in one process (programs, widths, warning modes, failing inputs,
    recursion depths) followed by a probe, compared byte for byte (.fjm and .fjd) with a fresh process and another
    directory.
"""
from __future__ import annotations

import ast
import importlib
import inspect
import json
import os
import random
import subprocess
import sys
import tempfile
import textwrap
from pathlib import Path
from typing import Any, Dict, List

import z3

from vc.common import Obl, Report, Violation, finish_unit, main_wrapper, run_and_discharge
from vc.pyvc.engine import Engine
from vc.pyvc.values import IntMath

PROP = 'C13'


def unit_global_state() -> Dict[str, Any]:
    P = importlib.import_module('flipjump.assembler.fj_parser')
    PP = importlib.import_module('flipjump.assembler.preprocessor')
    eng = Engine(IntMath(), name='assemble.global_state')
    extra: List[Obl] = []
    tree = ast.parse(inspect.getsource(P))
    written: Dict[str, List[str]] = {}
    for fn in [n for n in ast.walk(tree) if isinstance(n, ast.FunctionDef)]:
        globs = {g for n in ast.walk(fn) if isinstance(n, ast.Global) for g in n.names}
        for n in ast.walk(fn):
            if isinstance(n, (ast.Assign, ast.AugAssign, ast.AnnAssign, ast.For)):
                tgts = n.targets if isinstance(n, ast.Assign) else [n.target]
                for t in tgts:
                    for nm in ast.walk(t):
                        if isinstance(nm, ast.Name) and nm.id in globs:
                            written.setdefault(nm.id, []).append(fn.name)
    # mutated through methods (append/pop) on module-level lists
    for fn in [n for n in ast.walk(tree) if isinstance(n, ast.FunctionDef)]:
        for n in ast.walk(fn):
            if isinstance(n, ast.Call) and isinstance(n.func, ast.Attribute) and isinstance(n.func.value, ast.Name) and n.func.value.id in ('curr_namespace',) and n.func.attr in ('append', 'pop', 'clear', 'extend'):
                written.setdefault(n.func.value.id, []).append(fn.name + '(mutates)')

    def unconditional_assign(fn_name: str, var: str) -> bool:
        fn = next(n for n in ast.walk(tree) if isinstance(n, ast.FunctionDef) and n.name == fn_name)
        for stmt in fn.body:  # top-level statements of the function only: unconditional
            if isinstance(stmt, ast.Assign) and any(isinstance(x, ast.Name) and x.id == var for t in stmt.targets for x in ast.walk(t)):
                return True
            if isinstance(stmt, ast.For) and any(isinstance(x, ast.Name) and x.id == var for x in ast.walk(stmt.target)):
                return True
        return False

    init_sites = {'error_occurred': 'parse_macro_tree', 'all_errors': 'parse_macro_tree', 'curr_text': 'lex_parse_curr_file', 'curr_namespace': 'lex_parse_curr_file', 'curr_file': '_parse_files_into_parser', 'curr_file_short_name': '_parse_files_into_parser'}
    extra.append(Obl(f'{eng.name}:the_written_globals_are_the_known_ones', [], z3.BoolVal(set(written) - {'_stl_prefix_cache'} <= set(init_sites)), meta=dict(written={k: sorted(set(v)) for k, v in written.items()})))
    for var, site in init_sites.items():
        extra.append(Obl(f'{eng.name}:{var}_is_reinitialised_unconditionally_in_{site}', [], z3.BoolVal(unconditional_assign(site, var))))
    # the per-file reset comes before the file is lexed/parsed
    lp = next(n for n in ast.walk(tree) if isinstance(n, ast.FunctionDef) and n.name == 'lex_parse_curr_file')
    order = [ast.unparse(s)[:40] for s in lp.body]
    idx_reset = next((i for i, s in enumerate(lp.body) if isinstance(s, ast.Assign) and any(isinstance(x, ast.Name) and x.id == 'curr_namespace' for t in s.targets for x in ast.walk(t))), None)
    idx_use = next((i for i, s in enumerate(lp.body) if 'tokenize' in ast.unparse(s) or 'parse(' in ast.unparse(s)), None)
    extra.append(Obl(f'{eng.name}:namespace_stack_reset_before_each_file_is_parsed', [], z3.BoolVal(idx_reset is not None and idx_use is not None and idx_reset < idx_use), meta=dict(body=order)))
    # recursion limit: set unconditionally in PreprocessorData.__init__
    init = ast.parse(textwrap.dedent(inspect.getsource(PP.PreprocessorData.__init__))).body[0]
    uncond = any(isinstance(s, ast.Expr) and isinstance(s.value, ast.Call) and 'setrecursionlimit' in ast.unparse(s.value.func) for s in init.body)
    extra.append(Obl(f'{eng.name}:recursion_limit_set_unconditionally_per_assemble', [], z3.BoolVal(uncond)))
    # no ambient reads in the pipeline modules
    bad = []
    for mod in ('flipjump.assembler.fj_parser', 'flipjump.assembler.preprocessor', 'flipjump.assembler.assembler', 'flipjump.assembler.inner_classes.ops', 'flipjump.assembler.inner_classes.expr', 'flipjump.fjm.fjm_writer'):
        t = ast.parse(inspect.getsource(importlib.import_module(mod)))
        in_hash = {id(c) for f in ast.walk(t) if isinstance(f, ast.FunctionDef) and f.name == '__hash__' for c in ast.walk(f)}
        for n in ast.walk(t):
            if isinstance(n, ast.Call) and id(n) not in in_hash:  # (hash() inside __hash__ only keys dictionaries, which iterate in insertion order)
                txt = ast.unparse(n.func)
                if any(txt.endswith(x) for x in ('time', 'getenv', 'random', 'randrange', 'urandom', 'uuid4', 'now', 'getpid')) or txt in ('id', 'hash'):
                    bad.append(f'{mod}:{n.lineno}:{txt}')
    extra.append(Obl(f'{eng.name}:no_ambient_reads_in_the_pipeline', [], z3.BoolVal(not bad), meta=dict(found=str(bad))))
    return finish_unit(eng, extra)


def unit_cache() -> Dict[str, Any]:
    P = importlib.import_module('flipjump.assembler.fj_parser')
    O = importlib.import_module('flipjump.assembler.inner_classes.ops')
    eng = Engine(IntMath(), name='stl_cache')
    extra: List[Obl] = []
    with tempfile.TemporaryDirectory() as td:
        f1, f2 = Path(td) / 'a.fj', Path(td) / 'b.fj'
        f1.write_text(';\n')
        f2.write_text(';;\n')
        files = [('s1', f1), ('s2', f2)]
        k = P._stl_cache_key(files, 2, 32, True)
        st1, st2 = f1.stat(), f2.stat()
        want = (32, True, (('s1', str(f1.resolve()), st1.st_mtime_ns, st1.st_size), ('s2', str(f2.resolve()), st2.st_mtime_ns, st2.st_size)))
        extra.append(Obl(f'{eng.name}:key_is_width_warning_mode_and_name_path_mtime_size_per_file', [], z3.BoolVal(k == want), meta=dict(key=str(k)[:300])))
        diffs = [P._stl_cache_key(files, 2, 64, True) != k, P._stl_cache_key(files, 2, 32, False) != k, P._stl_cache_key([('x1', f1), ('s2', f2)], 2, 32, True) != k, P._stl_cache_key(files, 1, 32, True) != k]
        f2.write_text(';;;\n')
        diffs.append(P._stl_cache_key(files, 2, 32, True) != k)
        extra.append(Obl(f'{eng.name}:key_changes_with_width_mode_name_prefix_and_content', [], z3.BoolVal(all(diffs)), meta=dict(diffs=diffs)))
        extra.append(Obl(f'{eng.name}:missing_file_gives_no_key', [], z3.BoolVal(P._stl_cache_key([('s1', Path(td) / 'nope.fj')], 1, 32, True) is None)))
    # restore hands out fresh containers
    pos = O.CodePosition('f', 's1', 1)
    main = O.Macro([], [], [O.Label('l', pos)], '', pos)
    m2 = O.Macro(['x'], [], [], '', pos)
    cached = ({'w': object()}, {O.INITIAL_MACRO_NAME: main, O.MacroName('m', 1): m2}, [O.Label('l', pos)])
    parser = object.__new__(P.FJParser)
    P._restore_parser_from_cache(parser, cached)
    fresh = parser.consts is not cached[0] and parser.macros is not cached[1] and parser.macros[O.INITIAL_MACRO_NAME] is not main and parser.macros[O.INITIAL_MACRO_NAME].ops is not cached[2] and parser.macros[O.INITIAL_MACRO_NAME].ops is not main.ops
    same_content = parser.consts == cached[0] and parser.macros[O.MacroName('m', 1)] is m2 and parser.macros[O.INITIAL_MACRO_NAME].ops == cached[2]
    extra.append(Obl(f'{eng.name}:restore_gives_the_parse_its_own_dictionaries_and_main_op_list', [], z3.BoolVal(fresh and same_content)))
    parser.macros[O.INITIAL_MACRO_NAME].ops.append('new-op')
    parser.consts['c'] = 1
    extra.append(Obl(f'{eng.name}:mutating_the_restored_state_leaves_the_cache_untouched', [], z3.BoolVal(len(cached[2]) == 1 and 'c' not in cached[0] and len(main.ops) == 1)))
    # snapshot copies too
    p2 = object.__new__(P.FJParser)
    p2.consts, p2.macros = {'w': 1}, {O.INITIAL_MACRO_NAME: main}
    key = ('test-key',)
    P._snapshot_parser_to_cache(p2, key)  # type: ignore[arg-type]
    snap = P._stl_prefix_cache.pop(key)  # type: ignore[arg-type]
    extra.append(Obl(f'{eng.name}:snapshot_copies_the_dictionaries_and_the_main_op_list', [], z3.BoolVal(snap[0] is not p2.consts and snap[1] is not p2.macros and snap[2] is not main.ops and snap[2] == main.ops)))
    # expansion code never stores into ops / exprs it did not create: attribute stores in ops.py / expr.py methods
    bad = []
    for mod, allowed in (('flipjump.assembler.inner_classes.ops', {('RepCall', 'calculate_times'), ('RepCall', '__init__'), ('RepCall', 'eval_new'), ('RepCall', 'rename_iterator')}), ('flipjump.assembler.inner_classes.expr', set())):
        t = ast.parse(inspect.getsource(importlib.import_module(mod)))
        for cls in [n for n in t.body if isinstance(n, ast.ClassDef)]:
            for fn in [n for n in cls.body if isinstance(n, ast.FunctionDef)]:
                for n in ast.walk(fn):
                    if isinstance(n, ast.Attribute) and isinstance(n.ctx, ast.Store) and fn.name != '__init__' and (cls.name, fn.name) not in allowed:
                        bad.append(f'{cls.name}.{fn.name}:{n.attr}')
    extra.append(Obl(f'{eng.name}:ops_and_exprs_are_never_mutated_outside_constructors_and_the_fresh_rep_copy', [], z3.BoolVal(not bad), meta=dict(found=str(bad))))
    return finish_unit(eng, extra)


# ----------------------------------------------------------------------------- bounded histories

HIST = r'''
import sys, json, random, tempfile, hashlib, io, contextlib, importlib
sys.path[:0] = ['/verif', __import__('os').environ.get('VERIF_REPO', '/repo')]
from pathlib import Path
flipjump = importlib.import_module('flipjump')
C = importlib.import_module('flipjump.fjm.fjm_consts')
mode, seed, out_dir = sys.argv[1], int(sys.argv[2]), Path(sys.argv[3])
spec = json.loads(sys.stdin.read())
def assemble(src_texts, w, werror, depth, use_stl, tag, d):
    files = []
    for i, t in enumerate(src_texts):
        f = d / f'{tag}_{i}.fj'; f.write_text(t); files.append(f)
    o, g = d / f'{tag}.fjm', d / f'{tag}.fjd'
    try:
        with contextlib.redirect_stdout(io.StringIO()):
            flipjump.assemble(files, o, memory_width=w, use_stl=use_stl, warning_as_errors=werror, debugging_file_path=g, print_time=False, max_recursion_depth=depth)
        return hashlib.sha256(o.read_bytes()).hexdigest(), hashlib.sha256(g.read_bytes()).hexdigest()
    except BaseException as e:
        return 'EXC:' + type(e).__name__, ''
with tempfile.TemporaryDirectory(dir=str(out_dir)) as td:
    d = Path(td)
    if mode == 'history':
        for k, h in enumerate(spec['history']):
            assemble(h['src'], h['w'], h['werror'], h['depth'], h['stl'], f'h{k}', d)
    pr = spec['probe']
    print('@@RESULT@@' + json.dumps(assemble(pr['src'], pr['w'], pr['werror'], pr['depth'], pr['stl'], 'probe', d)))
'''

SOURCES = [
    (['stl.startup\nstl.output "A"\nstl.loop\n'], True),
    (['stl.startup_and_init_all\nhex.add 2, x, y\nstl.loop\nx: hex.vec 2, 5\ny: hex.vec 2, 7\n'], True),
    (['a:\n;a\nwflip a, 5\n'], False),
    (['def m x @ l {\nl:\n;x\n}\nm 2*w\nrep(3, i) m i*2*w\n'], False),
    (['ns n1 {\ndef m {\n;.q\nq:\n}\n}\nn1.m\n'], False),
    (['def m x {\n;x\n}\n', 'm 4*w\nm 6*w\n'], False),
    (['l:\n;' + ' + '.join(['l'] * 600) + ' - ' + ' - '.join(['l'] * 599) + '\n'], False),
]
FAILING = [
    (['ns screen {\ndef p {\n;\n}\n;;;\n}\n'], False),  # syntax error inside an open namespace
    (['def m {\nm\n}\nm\n'], False),
    ([';1/0\n'], False),
    (['stl.startup\nhex.nosuchmacro 1\n'], True),
    (['a:\na:\n'], False),
]


def bounded(rep: Report, tier: str, seed: int) -> None:
    rng = random.Random(seed + 77)
    n = 10 if tier != 'thorough' else 120
    evals, distinct = 0, set()
    env = dict(os.environ, PYTHONPATH='/verif:' + os.environ.get('VERIF_REPO', '/repo'), PYTHONDONTWRITEBYTECODE='1')
    with tempfile.TemporaryDirectory() as d1, tempfile.TemporaryDirectory() as d2:
        for it in range(n):
            hist = []
            for _ in range(rng.randrange(1, 6)):
                src, stl = rng.choice(SOURCES + FAILING + FAILING)
                hist.append(dict(src=src, w=rng.choice([16, 32, 64]) if stl else rng.choice([8, 16, 32, 64]), werror=rng.random() < 0.5, depth=rng.choice([900, 900, 50, 4000]), stl=stl))
            psrc, pstl = rng.choice(SOURCES)
            probe = dict(src=psrc, w=rng.choice([16, 32, 64]), werror=rng.random() < 0.5, depth=rng.choice([900, 900, 300]), stl=pstl)
            spec = json.dumps(dict(history=hist, probe=probe))
            res = {}
            for mode, d in (('history', d1), ('fresh', d2)):
                p = subprocess.run([sys.executable, '-c', HIST, mode, str(seed), d], input=spec, capture_output=True, text=True, timeout=600, env=env)
                line = [l for l in p.stdout.splitlines() if l.startswith('@@RESULT@@')]
                res[mode] = json.loads(line[0][10:]) if line else ['CRASH', p.stderr[-200:]]
            evals += 1
            distinct.add(spec)
            if res['history'] != res['fresh']:
                what = '.fjm bytes' if res['history'][0] != res['fresh'][0] else 'debug-label bytes'
                rep.violation(Violation('bounded:histories.probe_equals_fresh_process', f'after a history of {len(hist)} assemble calls the probe gives different {what}: {res["history"][0][:24]} vs fresh {res["fresh"][0][:24]}', dict(history=hist, probe=probe), True, key=what))
                if len(rep.violations) > 3:
                    break
    rep.add_bounded('assemble histories in one process vs the probe in a fresh process and another directory', f'{n} random histories of 1-5 calls (programs with/without stl, widths, warning modes, recursion depths 50/900/4000, failing inputs of several classes) + a probe; .fjm and .fjd compared byte for byte', evals, len(distinct))


def body(tier: str, seed: int) -> int:
    rep = Report(PROP, 'quick' if tier.startswith('replay') else tier, seed, 'other', f'./check {PROP} --tier {tier}')
    run_and_discharge(rep, [(unit_global_state, ()), (unit_cache, ())])
    rep.add_function('flipjump.assembler.fj_parser', 'parse_macro_tree, _parse_files_into_parser, lex_parse_curr_file, _stl_cache_key, _restore_parser_from_cache, _snapshot_parser_to_cache', '', 'effect / ownership obligations on the real AST and with sentinel objects')
    rep.add_function('flipjump.assembler.preprocessor', 'PreprocessorData.__init__ (recursion limit)', '')
    rep.assume('[A] (mtime_ns, size) of a file determine its text; dictionaries iterate in insertion order')
    rep.assume('[B only] that nothing else in the pipeline depends on earlier calls is decided on generated histories')
    rep.extra['explanation'] = 'effect/ownership obligations (global re-initialisation, cache key, copy-on-restore, no mutation of shared ops) checked on the real source; bounded histories compare a probe against a fresh process'
    bounded(rep, tier, seed)
    return rep.finish()


if __name__ == '__main__':
    main_wrapper(PROP, body)
