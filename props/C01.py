"""
C01 - every engine executes the FlipJump machine semantics exactly.
(python engines: props/C01py.py; native engine: props/C01c.py once built)
"""
from __future__ import annotations

import importlib
from typing import Any, List

from props import C01py
from vc.common import Report, main_wrapper, run_and_discharge
from vc.pyvc.engine import Engine

PROP = 'C01'


def python_jobs(tier: str) -> List[tuple]:
    jobs: List[tuple] = []
    for w in C01py.WIDTHS:
        for m in ('_bit_address_decompose', '_get_memory_word', '_set_memory_word', 'read_bit', 'write_bit', 'get_word'):
            jobs.append((C01py.unit_reader_method, (m, w)))
    for w in (C01py.WIDTHS if tier == 'thorough' else (16,)):
        for which in ('fast', 'featured'):
            for lo in (False, True):
                jobs.append((C01py.unit_run_loop, (which, w, lo)))
    return jobs


def body(tier: str, seed: int) -> int:
    rep = Report(PROP, 'quick' if tier.startswith('replay') else tier, seed, 'proof', f'./check {PROP} --tier {tier}')
    run_and_discharge(rep, python_jobs(tier))
    R = importlib.import_module('flipjump.fjm.fjm_reader')
    FR = importlib.import_module('flipjump.interpreter.fjm_run')
    for m in ('_bit_address_decompose', '_get_memory_word', '_set_memory_word', 'read_bit', 'write_bit', 'get_word'):
        rep.add_function('flipjump.fjm.fjm_reader', f'Reader.{m}', Engine.func_lines(getattr(R.Reader, m)), 'w in {8,16,32,64}')
    for f in ('_run_fast', '_run_featured', '_handle_input', '_handle_output'):
        rep.add_function('flipjump.interpreter.fjm_run', f, Engine.func_lines(getattr(FR, f)), 'w in {8,16,32,64} x last-ops list {None, deque}; helpers verified inline at their call sites')
    rep.assume('[A] IODevice.read_bit returns a bool or raises; IODevice.write_bit returns or raises (every call may fail: C18)')
    rep.assume('[A] deque(maxlen=k).append keeps the last k appended items (the model keeps the whole history)')
    rep.assume('python ints as 160-bit vectors; every term carries a size bound that excludes wrap-around (checked while generating VCs)')
    rep.assume('model normalisation: the value array of the symbolic memory dict is 0 at absent keys (unobservable by the code)')
    rep.trust('pyvc symbolic executor (home-made)')
    rep.trust('z3 (incl. bit-blast tactic), cvc5')
    rep.notes.append('one-op simulation of each python loop against spec.machine.SymStep from any state satisfying the loop invariant')
    return rep.finish()


if __name__ == '__main__':
    main_wrapper(PROP, body)
