"""
C01 - every engine executes the FlipJump machine semantics exactly.
Deductive: one-op simulation of the two python loops (props/C01py.py) and of the native flat / paged loops
cut at the code's join labels (props/C01c.py), helper functions against their contracts.
Bounded (never counted as proved): directed + generated images on every engine vs the executable spec.
"""
from __future__ import annotations

from typing import List

from bounded import isolated
from props import C01c, C01py
from props.native_common import HELPERS, add_native_functions, helper_jobs, native_assumptions, python_functions
from vc.common import Report, main_wrapper, run_and_discharge

PROP = 'C01'


def jobs(tier: str) -> List[tuple]:
    th = tier == 'thorough'
    js: List[tuple] = []
    for w in C01py.WIDTHS:
        for m in ('_bit_address_decompose', '_get_memory_word', '_set_memory_word', 'read_bit', 'write_bit', 'get_word'):
            js.append((C01py.unit_reader_method, (m, w)))
    if th:
        for w in C01py.WIDTHS:  # every width; the fast loop without and the featured loop with the last-ops list (the other two combinations: C18)
            js += [(C01py.unit_run_loop, ('fast', w, False)), (C01py.unit_run_loop, ('featured', w, True))]
    else:
        js += [(C01py.unit_run_loop, ('fast', 16, False)), (C01py.unit_run_loop, ('featured', 16, True))]
    for w in (C01c.WIDTHS if th else (32,)):
        js.append((C01c.unit_loop, ('run_flat_loop_impl', w, 0)))
        js.append((C01c.unit_loop, ('run_paged_loop_impl', w, 0)))
    js += helper_jobs(C01c.WIDTHS) if th else [(C01c.unit_helper, (h, 32)) for h in ('mem_read_word', 'mem_flip_bit', 'mem_write_bit', 'mem_get_word_unaligned')]
    return js


def body(tier: str, seed: int) -> int:
    rep = Report(PROP, 'quick' if tier.startswith('replay') else tier, seed, 'proof', f'./check {PROP} --tier {tier}')
    run_and_discharge(rep, jobs(tier))
    python_functions(rep)
    add_native_functions(rep, ('run_flat_loop_impl', 'run_paged_loop_impl') + HELPERS, 'literal (width, ww) instantiations 8/16/32/64 (quick: 32); paged loop with_ring=0 (the ring clone is under C07)')
    native_assumptions(rep)
    rep.notes.append('one-op simulation of every loop against spec.machine.SymStep; native loops cut at flip_word_ready / after_input / after_flip / jump_word_ready; run_measured_loop is covered by the bounded differential runs only')
    th = tier == 'thorough'
    isolated.run(rep, 'directed', 0, seed)
    isolated.run(rep, 'differential', 5000 if th else 400, seed)
    return rep.finish()


if __name__ == '__main__':
    main_wrapper(PROP, body)
