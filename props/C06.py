"""
C06 - writing then reading an .fjm preserves the memory image in every version.

Deductive: Writer methods against Inv_W with ghost pool `abs` (contracts/py/fjm_writer.py),
Reader._init_memory against image(), round-trip and version-independence lemmas, the
preconditions of the ASSUMED struct / lzma contracts as obligations at their call sites.
Bounded: random writer call sequences on the real writer/reader (exercises the assumed contracts).
"""
from __future__ import annotations

import importlib
import lzma
import random
import tempfile
from pathlib import Path
from typing import Any, Dict, List

import z3

from contracts.py import fjm_writer as CW
from contracts.py import fjm_reader as CR
from vc.common import Obl, Report, Undecided, Violation, discharge, finish_unit, main_wrapper, run_and_discharge, serialize
from vc.pyvc.engine import OK, RAISE, Engine, LoopSpec, State
from vc.pyvc.values import ExcVal, IntMath, Obj, Opaque, Ref, SList

PROP = 'C06'
WIDTHS = (8, 16, 32, 64)


def _finish(eng: Engine, extra: List[Obl]) -> Dict[str, Any]:
    return finish_unit(eng, extra)


def _versions():
    W, C, X = CW.mods()
    return list(C.FJMVersion)


def _unchanged(wm: CW.WriterModel, s: State) -> Any:
    segs, data = wm.current(s)
    return z3.BoolVal(segs is wm.segs and data is wm.data)


# ----------------------------------------------------------------------------- writer units


def unit_is_collision() -> List[Dict[str, Any]]:
    W, C, X = CW.mods()
    eng = Engine(IntMath(), name='Writer._is_collision')
    st = State()
    a = [eng.fresh_int(n, st) for n in ('start1', 'end1', 'start2', 'end2')]
    st.assume(a[0] <= a[1])
    st.assume(a[2] <= a[3])
    extra = [Obl(f'{eng.name}:cover.requires', list(st.pc), None, 'cover')]
    outs = eng.run_function(W.Writer._is_collision, st, a)
    for i, (s, sig) in enumerate(outs):
        tag = f'{eng.name}:path{i}'
        extra.append(Obl(f'{tag}.cover', list(s.pc), None, 'cover'))
        extra.append(Obl(f'{tag}.never_raises', list(s.pc), z3.BoolVal(sig[0] == 'return')))
        if sig[0] == 'return':
            r = sig[1] if isinstance(sig[1], z3.BoolRef) else z3.BoolVal(bool(sig[1]))
            extra.append(Obl(f'{tag}.result_iff_closed_intervals_intersect', list(s.pc), r == CW.is_collision_spec(*a), meta=dict(replay='is_collision'), witness_consts=dict(args=[str(x) for x in a])))
    extra.append(Obl(f'{eng.name}:canary', list(st.pc), None, 'canary'))
    return _finish(eng, extra)


def _loop_inv_validate(which: str, wm: CW.WriterModel):
    def inv(st: State, k):
        segs = wm.segs
        j = z3.Int('j_li')
        ss, sl, ds, dl = CW.seg(segs, j)
        if which == 'addr':
            ns, nl = st.locals['new_segment_start'], st.locals['new_segment_length']
            body = CW.disjoint(ss, ss + sl, ns, ns + nl)
            fixed = [st.locals['new_segment_end'] == ns + nl - 1]
        else:
            ns, nl = st.locals['new_data_start'], st.locals['new_data_length']
            body = z3.Or(dl == 0, CW.disjoint(ds, ds + dl, ns, ns + nl))
            fixed = [st.locals['new_data_end'] == ns + nl - 1]
        return [z3.ForAll([j], z3.Implies(z3.And(0 <= j, j < k), body))] + fixed

    return inv


def unit_validate(which: str) -> List[Dict[str, Any]]:
    W, C, X = CW.mods()
    fn = W.Writer._validate_segment_addresses_not_overlapping if which == 'addr' else W.Writer._validate_segment_data_not_overlapping
    eng = Engine(IntMath(), name=f'Writer.{fn.__name__}')
    st = State()
    wm = CW.WriterModel(eng, st, 64, C.FJMVersion.RelativeJumpVersion)
    eng.contracts[W.Writer._is_collision] = CW.contract_is_collision
    ns, nl = eng.fresh_int('new_start', st), eng.fresh_int('new_length', st)
    st.assume(nl >= 1 if which == 'addr' else nl >= 0)  # requires (established at the call sites in add_segment)
    eng.loop_specs[(fn.__qualname__, 0)] = LoopSpec(invariant=_loop_inv_validate(which, wm), havoc=lambda s, e: _havoc_loop_locals(s, e, fn))
    extra = [Obl(f'{eng.name}:cover.requires', list(st.pc), None, 'cover')]
    outs = eng.run_function(fn, st, [wm.ref, ns, nl])
    ov = CW.mem_overlap_exists(wm.segs, ns, nl) if which == 'addr' else z3.And(nl != 0, CW.data_overlap_exists(wm.segs, ns, nl))
    for i, (s, sig) in enumerate(outs):
        tag = f'{eng.name}:path{i}'
        extra.append(Obl(f'{tag}.cover', list(s.pc), None, 'cover'))
        if sig[0] == 'raise':
            extra.append(Obl(f'{tag}.raises_only_the_write_exception', list(s.pc), z3.BoolVal(sig[1].cls is X.FlipJumpWriteFjmException)))
            extra.append(Obl(f'{tag}.raises_only_when_ranges_overlap', list(s.pc), ov))
        else:
            extra.append(Obl(f'{tag}.returns_only_when_no_range_overlaps', list(s.pc), z3.Not(ov)))
        extra.append(Obl(f'{tag}.state_unchanged', list(s.pc), _unchanged(wm, s)))
    extra.append(Obl(f'{eng.name}:canary', list(st.pc), None, 'canary'))
    return _finish(eng, extra)


def _havoc_loop_locals(st: State, eng: Engine, fn) -> None:
    """locals assigned inside the loops of the validate functions are plain ints"""
    for nm in ('i', 'segment_start', 'segment_length', 'segment_end', 'data_start', 'data_length', 'data_end', '_'):
        if nm in st.locals:
            st.locals[nm] = eng.fresh_int(nm, st)


def unit_validate_dispatch(vi: int) -> List[Dict[str, Any]]:
    W, C, X = CW.mods()
    version = _versions()[vi]
    eng = Engine(IntMath(), name=f'Writer._validate_segment_not_overlapping[v{version.value}]')
    st = State()
    wm = CW.WriterModel(eng, st, 64, version)
    eng.contracts[W.Writer._validate_segment_addresses_not_overlapping] = CW.make_validate_addresses_contract(X)
    eng.contracts[W.Writer._validate_segment_data_not_overlapping] = CW.make_validate_data_contract(X)
    a = [eng.fresh_int(n, st) for n in ('ss', 'sl', 'ds', 'dl')]
    st.assume(a[1] >= 1)
    st.assume(a[3] >= 0)
    outs = eng.run_function(W.Writer._validate_segment_not_overlapping, st, [wm.ref] + a)
    bad = CW.mem_overlap_exists(wm.segs, a[0], a[1])
    if wm.rel:
        bad = z3.Or(bad, z3.And(a[3] != 0, CW.data_overlap_exists(wm.segs, a[2], a[3])))
    extra = []
    for i, (s, sig) in enumerate(outs):
        tag = f'{eng.name}:path{i}'
        extra.append(Obl(f'{tag}.cover', list(s.pc), None, 'cover'))
        if sig[0] == 'raise':
            extra.append(Obl(f'{tag}.raises_only_the_write_exception', list(s.pc), z3.BoolVal(sig[1].cls is X.FlipJumpWriteFjmException)))
            extra.append(Obl(f'{tag}.raises_only_on_overlap', list(s.pc), bad))
        else:
            extra.append(Obl(f'{tag}.returns_only_without_overlap', list(s.pc), z3.Not(bad)))
        extra.append(Obl(f'{tag}.state_unchanged', list(s.pc), _unchanged(wm, s)))
    return _finish(eng, extra)


def unit_update_relative(w: int) -> List[Dict[str, Any]]:
    W, C, X = CW.mods()
    eng = Engine(IntMath(), name=f'Writer._update_to_relative_jumps[w{w}]')
    st = State()
    wm = CW.WriterModel(eng, st, w, C.FJMVersion.RelativeJumpVersion, assume_inv=False)
    ss, ds, dl = [eng.fresh_int(n, st) for n in ('segment_start', 'data_start', 'data_length')]
    st.assume(z3.Or(dl <= 1, z3.And(0 <= ds, ds + dl <= wm.data.length)))
    fn = W.Writer._update_to_relative_jumps
    cur_holder: Dict[str, Any] = {}

    def havoc(s: State, e: Engine):
        new = SList(wm.data.length, (e.fresh_array('data_h'),), 0, 'list')
        s.heap[wm.data_ref.id] = new
        if 'i' in s.locals:
            s.locals['i'] = e.fresh_int('i', s)

    def inv(s: State, k):
        # after k iterations exactly the odd offsets 1, 3, .., 2k-1 are re-based
        cur = s.heap[wm.data_ref.id]
        x = z3.Int('x_rj')
        done = z3.And(ds <= x, x < ds + dl, (x - ds) % 2 == 1, (x - ds) < 2 * k)
        return [
            cur.length == wm.data.length,
            z3.ForAll([x], z3.Select(cur.cols[0], x) == z3.If(done, (z3.Select(wm.data.cols[0], x) - (ss + (x - ds)) * w) % (1 << w), z3.Select(wm.data.cols[0], x))),
        ]

    eng.loop_specs[(fn.__qualname__, 0)] = LoopSpec(invariant=inv, havoc=havoc)
    extra = [Obl(f'{eng.name}:cover.requires', list(st.pc), None, 'cover')]
    outs = eng.run_function(fn, st, [wm.ref, ss, ds, dl])
    for i, (s, sig) in enumerate(outs):
        tag = f'{eng.name}:path{i}'
        extra.append(Obl(f'{tag}.cover', list(s.pc), None, 'cover'))
        extra.append(Obl(f'{tag}.never_raises', list(s.pc), z3.BoolVal(sig[0] == 'return')))
        segs, new = wm.current(s)
        for j, c in enumerate(CW.relative_jumps_post(wm.data, new, ss, ds, dl, w)):
            extra.append(Obl(f'{tag}.ensures_odd_words_rebased_rest_untouched[{j}]', list(s.pc), c))
        extra.append(Obl(f'{tag}.segments_untouched', list(s.pc), z3.BoolVal(segs is wm.segs)))
    extra.append(Obl(f'{eng.name}:canary', list(st.pc), None, 'canary'))
    return _finish(eng, extra)


def _new_owner(wm: CW.WriterModel, ds, dl):
    k = z3.Int('k_no')
    if not wm.rel:
        return wm.owner
    return z3.Lambda([k], z3.If(z3.And(ds <= k, k < ds + dl), wm.segs.length, z3.Select(wm.owner, k)))


def unit_add_segment(w: int, vi: int) -> List[Dict[str, Any]]:
    W, C, X = CW.mods()
    version = _versions()[vi]
    eng = Engine(IntMath(), name=f'Writer.add_segment[w{w},v{version.value}]')
    st = State()
    wm = CW.WriterModel(eng, st, w, version)
    eng.contracts[W.Writer._validate_segment_not_overlapping] = CW.make_validate_contract(X, C)
    eng.contracts[W.Writer._update_to_relative_jumps] = CW.make_update_relative_contract()
    ss, sl, ds, dl = [eng.fresh_int(n, st) for n in ('seg_start', 'seg_length', 'data_start', 'data_length')]
    extra = [Obl(f'{eng.name}:cover.requires', list(st.pc), None, 'cover')]
    outs = eng.run_function(W.Writer.add_segment, st, [wm.ref, ss, sl, ds, dl])
    # what the file format / the reader can represent (from the property statement: anything else must be rejected)
    representable = z3.And(sl >= 1, dl <= sl, ss % 2 == 0, sl % 2 == 0, 0 <= ds, 0 <= dl, ds + dl <= wm.data.length, dl % 2 == 0, 0 <= ss, ss < (1 << 64), sl < (1 << 64))
    overlap = CW.mem_overlap_exists(wm.segs, ss, sl)
    if wm.rel:
        overlap = z3.Or(overlap, z3.And(dl != 0, CW.data_overlap_exists(wm.segs, ds, dl)))
    n_ret = 0
    for i, (s, sig) in enumerate(outs):
        tag = f'{eng.name}:path{i}'
        extra.append(Obl(f'{tag}.cover', list(s.pc), None, 'cover'))
        segs, data = wm.current(s)
        if sig[0] == 'raise':
            extra.append(Obl(f'{tag}.raises_only_the_write_exception', list(s.pc), z3.BoolVal(sig[1].cls is X.FlipJumpWriteFjmException)))
            extra.append(Obl(f'{tag}.raises_only_for_unrepresentable_or_overlapping_input', list(s.pc), z3.Or(z3.Not(representable), overlap)))
            extra.append(Obl(f'{tag}.state_unchanged_on_rejection', list(s.pc), _unchanged(wm, s)))
            continue
        n_ret += 1
        extra.append(Obl(f'{tag}.accepts_only_representable_input', list(s.pc), representable, meta=dict(clause='F7a/F7b: data range inside the pool, even data length')))
        extra.append(Obl(f'{tag}.accepts_only_non_overlapping_input', list(s.pc), z3.Not(overlap)))
        extra.append(Obl(f'{tag}.appends_exactly_this_segment', list(s.pc), z3.And(segs.length == wm.segs.length + 1, *[z3.Select(c, wm.segs.length) == v for c, v in zip(segs.cols, (ss, sl, ds, dl))])))
        j = z3.Int('j_as')
        extra.append(Obl(f'{tag}.earlier_segments_untouched', list(s.pc), z3.ForAll([j], z3.Implies(z3.And(0 <= j, j < wm.segs.length), z3.And(*[z3.Select(c, j) == z3.Select(c0, j) for c, c0 in zip(segs.cols, wm.segs.cols)])))))
        for jj, c in enumerate(CW.inv_w(segs, data, wm.abs, _new_owner(wm, ds, dl), w, wm.rel)):
            extra.append(Obl(f'{tag}.Inv_W_preserved[{jj}]', list(s.pc), c))
    if n_ret == 0:
        raise Undecided('add_segment has no accepting path')
    extra.append(Obl(f'{eng.name}:canary', list(st.pc), None, 'canary'))
    return _finish(eng, extra)


def unit_add_data(w: int, rel: bool) -> List[Dict[str, Any]]:
    W, C, X = CW.mods()
    version = C.FJMVersion.RelativeJumpVersion if rel else C.FJMVersion.NormalVersion
    eng = Engine(IntMath(), name=f'Writer.add_data[w{w},{"rel" if rel else "abs"}]')
    st = State()
    wm = CW.WriterModel(eng, st, w, version)
    new = eng.fresh_list('supplied', st)
    nref = st.alloc(new)
    fn = W.Writer.add_data
    # loop(s) of a range validation over the supplied words, if the tree has one
    k0 = z3.Int('k_ad')

    def inv(s: State, k):
        return [z3.ForAll([k0], z3.Implies(z3.And(0 <= k0, k0 < k), z3.And(0 <= z3.Select(new.cols[0], k0), z3.Select(new.cols[0], k0) < (1 << w))))]

    def havoc(s: State, e: Engine):
        for nm in list(s.locals):
            if nm not in ('self', 'data', '__module__', '__func__') and e.is_int(s.locals[nm]) and not isinstance(s.locals[nm], int):
                s.locals[nm] = e.fresh_int(nm, s)
        for nm in ('word', 'value', 'w', 'x', 'i'):
            if nm in s.locals and not isinstance(s.locals[nm], int):
                s.locals[nm] = e.fresh_int(nm, s)

    eng.loop_specs[(fn.__qualname__, 0)] = LoopSpec(invariant=inv, havoc=havoc)
    extra = [Obl(f'{eng.name}:cover.requires', list(st.pc), None, 'cover')]
    outs = eng.run_function(fn, st, [wm.ref, nref])
    in_range = z3.ForAll([k0], z3.Implies(z3.And(0 <= k0, k0 < new.length), z3.And(0 <= z3.Select(new.cols[0], k0), z3.Select(new.cols[0], k0) < (1 << w))))
    abs2 = z3.Lambda([k0], z3.If(k0 < wm.data.length, z3.Select(wm.abs, k0), z3.Select(new.cols[0], k0 - wm.data.length)))
    n_ret = 0
    for i, (s, sig) in enumerate(outs):
        tag = f'{eng.name}:path{i}'
        extra.append(Obl(f'{tag}.cover', list(s.pc), None, 'cover'))
        segs, data = wm.current(s)
        if sig[0] == 'raise':
            extra.append(Obl(f'{tag}.raises_only_the_write_exception', list(s.pc), z3.BoolVal(sig[1].cls is X.FlipJumpWriteFjmException)))
            extra.append(Obl(f'{tag}.raises_only_for_words_outside_the_width', list(s.pc), z3.Not(in_range)))
            extra.append(Obl(f'{tag}.state_unchanged_on_rejection', list(s.pc), _unchanged(wm, s)))
            continue
        n_ret += 1
        extra.append(Obl(f'{tag}.accepts_only_words_that_fit_the_width', list(s.pc), in_range, meta=dict(clause='F6: struct.pack precondition of write_to_file')))
        extra.append(Obl(f'{tag}.returns_old_pool_length', list(s.pc), eng.T.lift(sig[1]) == wm.data.length))
        extra.append(Obl(f'{tag}.pool_is_old_pool_followed_by_supplied_words', list(s.pc), z3.And(data.length == wm.data.length + new.length, z3.ForAll([k0], z3.Implies(z3.And(0 <= k0, k0 < data.length), z3.Select(data.cols[0], k0) == z3.If(k0 < wm.data.length, z3.Select(wm.data.cols[0], k0), z3.Select(new.cols[0], k0 - wm.data.length)))))))
        extra.append(Obl(f'{tag}.segments_untouched', list(s.pc), z3.BoolVal(segs is wm.segs)))
        for jj, c in enumerate(CW.inv_w(segs, data, abs2, wm.owner, w, wm.rel)):
            extra.append(Obl(f'{tag}.Inv_W_preserved[{jj}]', list(s.pc), c))
    if n_ret == 0:
        raise Undecided('add_data has no accepting path')
    extra.append(Obl(f'{eng.name}:canary', list(st.pc), None, 'canary'))
    return _finish(eng, extra)


def unit_write_to_file(w: int, vi: int) -> List[Dict[str, Any]]:
    """call-site obligations of the assumed struct.pack contract + the layout of the written bytes"""
    W, C, X = CW.mods()
    version = _versions()[vi]
    eng = Engine(IntMath(), name=f'Writer.write_to_file[w{w},v{version.value}]')
    st = State()
    wm = CW.WriterModel(eng, st, w, version)
    CR.install_file_externals(eng, W, C, X)
    fn = W.Writer.write_to_file

    def inv(s: State, k):
        return [z3.BoolVal(True)]

    def havoc(s: State, e: Engine):
        s.trace = s.trace + [('writes-of-earlier-segments',)]
        if 'segment' in s.locals:
            s.locals.pop('segment')

    eng.loop_specs[(fn.__qualname__, 0)] = LoopSpec(invariant=inv, havoc=havoc)
    extra = [Obl(f'{eng.name}:cover.requires', list(st.pc), None, 'cover')]
    outs = eng.run_function(fn, st, [wm.ref])
    n_ret = 0
    for i, (s, sig) in enumerate(outs):
        tag = f'{eng.name}:path{i}'
        extra.append(Obl(f'{tag}.cover', list(s.pc), None, 'cover'))
        if sig[0] == 'raise':
            extra.append(Obl(f'{tag}.raises_only_the_write_exception', list(s.pc), z3.BoolVal(sig[1].cls is X.FlipJumpWriteFjmException)))
            opened = any(ev[0] == 'open' for ev in s.trace)
            extra.append(Obl(f'{tag}.no_failure_after_the_file_was_opened_except_compression', list(s.pc), z3.BoolVal((not opened) or any(ev[0] == 'compress-failed' for ev in s.trace))))
            continue
        n_ret += 1
        kinds = [ev[0] for ev in s.trace if ev[0] in ('open', 'write')]
        packs = [ev[1] for ev in s.trace if ev[0] == 'write']
        if (i, 'exit') and f'{fn.__qualname__}.loop0:exit' in s.path:
            want = ['header'] + (['ext'] if version.value != 0 else []) + ['data' if version.value != 3 else 'compressed']
            got = [p for p in packs if p != 'segment']
            extra.append(Obl(f'{tag}.file_is_header_ext_table_payload_in_this_order', list(s.pc), z3.BoolVal(kinds[:1] == ['open'] and got == want)))
        st_fields = [ev for ev in s.trace if ev[0] == 'header-fields']
        if st_fields:
            magic, ws, ver, nseg = st_fields[0][1]
            extra.append(Obl(f'{tag}.header_fields_are_magic_width_version_segment_count', list(s.pc), z3.And(eng.T.lift(magic) == C.FJ_MAGIC, eng.T.lift(ws) == w, eng.T.lift(ver) == version.value, eng.T.lift(nseg) == wm.segs.length)))
    if n_ret == 0:
        raise Undecided('write_to_file has no normal path')
    extra.append(Obl(f'{eng.name}:canary', list(st.pc), None, 'canary'))
    return _finish(eng, extra)


def unit_init() -> List[Dict[str, Any]]:
    W, C, X = CW.mods()
    res: List[Dict[str, Any]] = []
    for version in list(C.FJMVersion) + ['not-a-version']:  # each returns one unit record
        vname = version.value if version != 'not-a-version' else 'bad'
        eng = Engine(IntMath(), name=f'Writer.__init__[v{vname}]')
        st = State()
        width = eng.fresh_int('memory_width', st)
        flags = eng.fresh_int('flags', st)
        preset = eng.fresh_int('lzma_preset', st)
        ref = st.alloc(Obj(W.Writer, {}))
        ver = version if version != 'not-a-version' else Opaque('other-version')
        extra: List[Obl] = []
        if version == 'not-a-version':
            # membership of a foreign object in the supported-versions table
            eng.contains = (lambda orig: (lambda c, item, s: False if isinstance(item, Opaque) else orig(c, item, s)))(eng.contains)  # type: ignore[assignment]
        outs = eng.run_function(W.Writer.__init__, st, [ref, Opaque('path'), width, ver], {'flags': flags, 'lzma_preset': preset})
        ok = z3.And(z3.Or(*[width == x for x in WIDTHS]), 0 <= flags, flags < (1 << 64))
        if version == 'not-a-version':
            ok = z3.BoolVal(False)
        elif version.value == 0:
            ok = z3.And(ok, flags == 0)
        elif version.value == 3:
            ok = z3.And(ok, 0 <= preset, preset < 10)
        for i, (s, sig) in enumerate(outs):
            tag = f'{eng.name}:path{i}'
            extra.append(Obl(f'{tag}.cover', list(s.pc), None, 'cover'))
            if sig[0] == 'raise':
                extra.append(Obl(f'{tag}.raises_only_the_write_exception', list(s.pc), z3.BoolVal(sig[1].cls is X.FlipJumpWriteFjmException)))
                extra.append(Obl(f'{tag}.rejects_only_unsupported_parameters', list(s.pc), z3.Not(ok)))
            else:
                extra.append(Obl(f'{tag}.accepts_only_supported_parameters', list(s.pc), ok))
                o = s.heap[ref.id]
                segs, data = s.heap[o.fields['segments'].id], s.heap[o.fields['data'].id]
                extra.append(Obl(f'{tag}.starts_empty', list(s.pc), z3.And(segs.length == 0, data.length == 0, eng.T.lift(o.fields['reserved']) == 0, eng.T.lift(o.fields['word_size']) == width, eng.T.lift(o.fields['flags']) == flags)))
        res.append(_finish(eng, extra))
    return res


# ----------------------------------------------------------------------------- reader + lemmas


def unit_reader_init_memory(w: int, vi: int) -> List[Dict[str, Any]]:
    return CR.verify_init_memory(w, _versions()[vi], _finish)


def unit_roundtrip_lemma(w: int, vi: int) -> List[Dict[str, Any]]:
    """Inv_W  and  reader postcondition over the SAME data words  ==>  reader image == image(S, abs);
    the right-hand side does not mention the version: version independence."""
    W, C, X = CW.mods()
    version = _versions()[vi]
    eng = Engine(IntMath(), name=f'lemma.roundtrip[w{w},v{version.value}]')
    st = State()
    wm = CW.WriterModel(eng, st, w, version)
    i, t = z3.Ints('i_rt t_rt')
    st.assume(z3.And(0 <= i, i < wm.segs.length, 0 <= t))
    ss, sl, ds, dl = CW.seg(wm.segs, i)
    st.assume(t < sl)
    word = z3.Select(wm.data.cols[0], ds + t)
    decoded = CR.decode_word(word, ss + t, t, w, wm.rel)  # what Reader._init_memory stores at ss + t for t < dl
    extra = [
        Obl(f'{eng.name}:cover', list(st.pc), None, 'cover'),
        Obl(f'{eng.name}:data_words_decode_to_the_supplied_words', list(st.pc) + [t < dl], decoded == z3.Select(wm.abs, ds + t)),
        Obl(f'{eng.name}:every_written_word_fits_the_pack_format', list(st.pc) + [t < dl], z3.And(0 <= word, word < (1 << w))),
        Obl(f'{eng.name}:canary', list(st.pc), None, 'canary'),
    ]
    # the arithmetic core for every word and address, not only under Inv_W
    x, a = z3.Ints('x_core a_core')
    extra.append(Obl(f'{eng.name}:rebase_then_unbase_is_identity', [0 <= x, x < (1 << w)], ((x - a * w) % (1 << w) + a * w) % (1 << w) == x))
    return _finish(eng, extra)


def unit_lzma_dict() -> List[Dict[str, Any]]:
    """obligation (iv): the decoder's dictionary is at least the encoder's for every preset the writer
    accepts.  Finite: decided from the real filter specifications through liblzma's own property
    encoding ([A]: lzma._encode_filter_properties reports the dictionary size liblzma will use)."""
    W, C, X = CW.mods()
    res = []

    def dict_size(spec: Dict[str, int]) -> int:
        props = lzma._encode_filter_properties(spec)  # type: ignore[attr-defined]
        return lzma._decode_filter_properties(lzma.FILTER_LZMA2, props)['dict_size']  # type: ignore[attr-defined]

    dec = dict_size(C._LZMA_DECOMPRESSION_FILTERS[0])
    for dw in (16, 32, 64, 128):
        for p in range(10):
            enc = dict_size(C._lzma_compression_filters(dw, p)[0])
            res.append(Obl(f'lzma.decoder_dictionary_covers_encoder[dw{dw},preset{p}]', [], z3.BoolVal(dec >= enc), meta=dict(decoder=dec, encoder=enc)))
    return dict(obligations=[serialize(o) for o in res], dropped=[])


# ----------------------------------------------------------------------------- bounded stand-in


def image_spec(segments, pool, w):
    img = {}
    for ss, sl, ds, dl in segments:
        for t in range(sl):
            img[ss + t] = pool[ds + t] if t < dl else 0
    return img


def reader_image(rd):
    img = dict(rd.memory)
    for s, e in rd.zeros_boundaries:
        for a in range(s, e):
            img.setdefault(a, 0)
    return img


def bounded(rep: Report, tier: str, seed: int) -> None:
    W, C, X = CW.mods()
    R = importlib.import_module('flipjump.fjm.fjm_reader')
    rng = random.Random(seed)
    n = 60 if tier == 'quick' else 1200
    evals, distinct = 0, set()
    with tempfile.TemporaryDirectory() as td:
        for it in range(n):
            w = rng.choice(WIDTHS)
            # a random call sequence: data blocks and segments (valid and invalid)
            calls = []
            pool_len = 0
            for _ in range(rng.randrange(1, 6)):
                words = [rng.choice([0, 1, (1 << w) - 1, rng.randrange(1 << w)]) for _ in range(rng.choice([0, 2, 2, 4, 6, 1, 3]))]
                calls.append(('data', words))
                ds = pool_len + rng.choice([0, 0, 0, 2, 1])
                pool_len += len(words)
                dl = rng.choice([len(words), len(words), max(0, len(words) - 2), len(words) + 2, 1])
                sl = dl + rng.choice([0, 0, 2, 1200, 1])
                ss = rng.choice([0, 2, 10, 50, 2000, (1 << w) // w, 1 << 40, (1 << 64) - 4, 3]) + 2 * rng.randrange(8)
                calls.append(('seg', ss, sl, ds, dl))
            images = {}
            for version in C.FJMVersion:
                path = Path(td) / f'f{it}_{version.value}.fjm'
                kw = dict(lzma_preset=rng.choice([0, 6, 9])) if version.value == 3 else {}
                wr = W.Writer(path, w, version, **kw)
                pool: List[int] = []
                accepted = []
                try:
                    for c in calls:
                        if c[0] == 'data':
                            try:
                                wr.add_data(list(c[1]))
                                pool += c[1]
                            except X.FlipJumpWriteFjmException:
                                pass
                        else:
                            try:
                                wr.add_segment(*c[1:])
                                accepted.append(c[1:])
                            except X.FlipJumpWriteFjmException:
                                pass
                    wr.write_to_file()
                    rd = R.Reader(path)
                    got = reader_image(rd)
                    want = image_spec(accepted, pool, w)
                    ok = got == want and [(s.segment_start, s.segment_length) for s in rd.memory_segments] == [(a[0], a[1]) for a in accepted]
                    images[version.value] = (tuple(accepted), tuple(sorted(got.items())))
                    why = 'loaded image differs from image(S, supplied data)'
                except X.FlipJumpWriteFjmException:
                    ok, why = True, ''
                    images[version.value] = 'rejected'
                except Exception as e:
                    ok, why = False, f'{type(e).__name__}: {e}'
                evals += 1
                distinct.add((w, version.value, repr(calls)))
                if not ok:
                    rep.violation(Violation('bounded:roundtrip', f'w={w} v={version.value}: {why}', dict(w=w, version=version.value, calls=calls), True, key=f'roundtrip:{why.split(":")[0]}'))
                    return
            vals = [v for v in images.values()]
            # version independence (relative-jump versions may reject shared data ranges the plain ones accept)
            plain = [images[v] for v in (0, 1)]
            rel = [images[v] for v in (2, 3)]
            if plain[0] != plain[1] or rel[0] != rel[1] or (rel[0] != 'rejected' and plain[0] != 'rejected' and rel[0] != plain[0]):
                rep.violation(Violation('bounded:version_independence', f'w={w}: the loaded image depends on the version', dict(w=w, calls=calls, images={k: str(v)[:300] for k, v in images.items()}), True, key='version_independence'))
                return
    rep.add_bounded('writer call sequences, written by the real writer and read by the real reader', f'{n} random call sequences x 4 versions (widths, presets 0/6/9, valid and invalid segments)', evals, len(distinct))
    rep.samples.append(dict(bounded_case=str(calls)[:300]))
    # F8-shaped case: the assumed lzma contract with a large dictionary (thorough only: 32 MiB)
    if tier != 'quick':
        with tempfile.TemporaryDirectory() as td:
            path = Path(td) / 'big.fjm'
            wr = W.Writer(path, 64, C.FJMVersion.CompressedVersion, lzma_preset=9)
            r2 = random.Random(1)
            block = [r2.randrange(1 << 64) for _ in range(1 << 20)]
            data = block + block + block
            wr.add_simple_segment_with_data(0, data)
            wr.write_to_file()
            try:
                rd = R.Reader(path)
                ok = all(rd.memory[i] == data[i] for i in range(0, len(data), 4099))
            except Exception as e:
                ok = False
            rep.add_bounded('lzma preset 9 with repeats beyond 8 MiB', '1 file, 24 MiB payload', 1, 1)
            if not ok:
                rep.violation(Violation('bounded:lzma_large_dictionary', 'a file written with preset 9 cannot be read back', dict(w=64, preset=9, words=len(data)), True, key='lzma_large_dictionary'))


# ----------------------------------------------------------------------------- replay of counter-models


def _replay(rep: Report, r, W) -> None:
    """a refuted obligation whose counter-model is a plain argument tuple is re-run on the real function"""
    if r.status != 'failed' or not r.witness or r.meta.get('replay') != 'is_collision':
        return
    s1, e1, s2, e2 = r.witness['args']
    got = W.Writer._is_collision(s1, e1, s2, e2)
    want = max(s1, s2) <= min(e1, e2)
    if bool(got) != want:
        rep.violation(Violation(r.name, f'Writer._is_collision({s1}, {e1}, {s2}, {e2}) returns {got}, closed intervals intersect: {want}', dict(function='Writer._is_collision', args=[s1, e1, s2, e2], got=bool(got), want=want), True, key='is_collision'))


# ----------------------------------------------------------------------------- main


def body(tier: str, seed: int) -> int:
    rep = Report(PROP, 'quick' if tier.startswith('replay') else tier, seed, 'proof', f'./check {PROP} --tier {tier}')
    W, C, X = CW.mods()
    R = importlib.import_module('flipjump.fjm.fjm_reader')
    jobs: List[tuple] = [(unit_is_collision, ()), (unit_validate, ('addr',)), (unit_validate, ('data',)), (unit_init, ()), (unit_lzma_dict, ())]
    jobs += [(unit_validate_dispatch, (vi,)) for vi in range(4)]
    jobs += [(unit_update_relative, (w,)) for w in WIDTHS]
    jobs += [(unit_add_data, (w, rel)) for w in WIDTHS for rel in (False, True)]
    # quick tier: the four heavy families at the narrowest and the widest width (every version); thorough: every width
    heavy = WIDTHS if tier == 'thorough' else (8, 64)
    jobs += [(unit_add_segment, (w, vi)) for w in heavy for vi in range(4)]
    jobs += [(unit_write_to_file, (w, vi)) for w in heavy for vi in range(4)]
    jobs += [(unit_reader_init_memory, (w, vi)) for w in heavy for vi in range(4)]
    jobs += [(unit_roundtrip_lemma, (w, vi)) for w in heavy for vi in range(4)]
    for r in run_and_discharge(rep, jobs):
        _replay(rep, r, W)
    for m in ('__init__', '_is_collision', '_validate_segment_addresses_not_overlapping', '_validate_segment_data_not_overlapping', '_validate_segment_not_overlapping', '_update_to_relative_jumps', 'add_segment', 'add_data', 'write_to_file'):
        rep.add_function('flipjump.fjm.fjm_writer', f'Writer.{m}', Engine.func_lines(getattr(W.Writer, m)), 'w in {8,16,32,64} (quick tier: add_segment / write_to_file / _init_memory / round trip at w in {8,64}) x version in {0,1,2,3} where the code depends on them')
    rep.add_function('flipjump.fjm.fjm_reader', 'Reader._init_memory', Engine.func_lines(R.Reader._init_memory), '4 widths x 4 versions')
    rep.assume('[A] struct.pack(fmt, *values) followed by struct.unpack(fmt, bytes) is the identity when every value is inside the range of its format code (the range conditions are obligations at Writer.write_to_file)')
    rep.assume('[A] lzma.decompress(lzma.compress(b)) == b for FORMAT_RAW LZMA2 when the decoder dictionary is at least the encoder dictionary (the dictionary condition is an obligation, decided through lzma._encode_filter_properties)')
    rep.assume('[A] open(path, "wb").write appends the bytes in call order')
    rep.assume('python ints are modelled as mathematical integers (exact); & with a mask 2^k-1 as mod 2^k')
    rep.trust('pyvc symbolic executor (home-made)')
    rep.trust('z3 / cvc5')
    rep.notes.append('Inv_W with ghost pool abs; reader image; round-trip lemma; version independence = the lemma has a version-free right-hand side')
    bounded(rep, tier, seed)
    return rep.finish()


if __name__ == '__main__':
    main_wrapper(PROP, body)
