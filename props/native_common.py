"""shared pieces of the engine checks (C01, C07, C11, C18)"""
from __future__ import annotations

import importlib
from typing import Any, List

from props import C01c, C01py
from vc.common import Report
from vc.cvc.cfg import Linear, load_functions
from vc.pyvc.engine import Engine

HELPERS = ('flat_is_garbage', 'flat_garbage', 'flat_garbage_check', 'access_check', 'mem_read_word', 'mem_flip_bit', 'mem_write_bit', 'mem_get_word_unaligned')


VALIDITY = ('flat_seg_contains', 'word_is_valid', 'page_compute_validity', 'mem_ensure_segments_sorted')


def helper_jobs(widths) -> List[tuple]:
    return [(C01c.unit_helper, (h, w)) for w in widths for h in HELPERS]


def validity_jobs() -> List[tuple]:
    """the segment-list functions against the DEFINITION of the ghost valid-set V (width independent)"""
    return [(C01c.unit_validity, (n,)) for n in VALIDITY] + [(C01c.unit_add_segment, ())]


def loader_jobs(widths) -> List[tuple]:
    """Memory_set_words: the bulk load (page-backed, before the storage decision)"""
    return [(C01c.unit_set_words, (w,)) for w in widths]


def ring_jobs() -> List[tuple]:
    """the last-ops ring, content included: last_ops_ring_to_list under contract + the ghost lemma linking it to the per-op
    ring store that unit_loop(run_paged_loop_impl, w, 1) proves"""
    from props import ring_units

    js: List[tuple] = [(ring_units.unit_ring_to_list, ()), (ring_units.unit_ring_lemma, ()), (ring_units.unit_memory_run_glue, ()), (ring_units.unit_build_run_result, ()), (ring_units.unit_get_last_ops, ())]
    js += [(ring_units.unit_generic_loop_dispatch, (w,)) for w in C01c.WIDTHS]
    return js


def ring_report(rep: Report) -> None:
    add_native_functions(rep, ('last_ops_ring_to_list',), 'ring content invariant ring[k % len] == address of op k for the last min(writes, len) ops (precondition; carried through a run by the ghost lemma ring_lemma:* from the per-op store proved by unit_loop(run_paged_loop_impl, w, 1)) => the list has min(writes, len) entries, entry j = address of op writes - min + j; loop invariant on the list built so far; frame; reference balance; ring subscripts in bounds; width independent (64-bit index arithmetic, wrap-around kept)')
    rep.assume('[A] CPython API (last_ops_ring_to_list): PyList_New(0) returns a new empty list or NULL with an error; PyLong_FromUnsignedLongLong returns a new int of that value or NULL with an error; PyList_Append appends the item at the end (taking its own reference) and returns 0, or returns -1 with an error and the list unchanged; Py_XDECREF(NULL) is a no-op')
    add_native_functions(rep, ('Memory_get_last_ops',), 'the last_run_last_ops attribute read by _run_native on its exception path: the kept list with one new reference, or a new empty list; the kept list stays')
    add_native_functions(rep, ('Memory_run', 'build_run_result'), 'no list of a previous run survives a run (Py_CLEAR before the loops); the glue around the loops: the ring is a fresh allocation of exactly last_ops_length (> 0) elements; the SAME ring, length and the loop\'s own ring_writes reach last_ops_ring_to_list on the normal path (through build_run_result) and on the exception path (last_run_last_ops), so its precondition (ring content invariant) holds at each call; cause and op count reported are the loop\'s; the ring is released exactly once on every path')
    rep.assume('ring lemma: fewer than 2^64 - 1 ops are executed in one run (the 64-bit ring_writes counter does not wrap); the induction over the ops of a run (fresh ring => Inv; each op\'s store preserves Inv) is the loop contract assumed at the call of run_generic_loop in Memory_run - its base and step are the discharged ring_lemma obligations and unit_loop\'s per-op store (the latter discharged in the thorough tiers of C07/C11 only, by unit_loop(run_paged_loop_impl, w, 1))')
    add_native_functions(rep, ('run_generic_loop',), 'the width dispatch between Memory_run and the loop clones, w in {8,16,32,64}: object, callbacks, start ip and out-parameters unchanged; (width, ww) are the object\'s; ring -> (that ring, its length, with_ring=1), no ring -> (NULL, 0, with_ring=0); returns the clone\'s cause (the default: branch for a non-standard width is not explored: Memory_init admits only these widths - assumed)')
    rep.assume('[A] Memory_run unit: PyArg_ParseTupleAndKeywords fills the five out-parameters or fails; mem_decide_storage returns 0 or -1 with an error; calloc returns NULL or a zeroed block of n*size bytes; PyErr_Fetch/Restore/Clear do not touch the ring; getenv("FLIPJUMP_MEASURE_SPECULATION") is modelled as unset (the run_measured_loop branch, which has no ring, is not explored); Py_BuildValue("iKNNd", ...) builds the tuple of its arguments')
    rep.trust('vc/bv2int: exact bit-vector -> integer translation of the ring obligations (every operation keeps its modular reduction; operators without a rule are refused); its rules are cross-checked against z3\'s bit-vector evaluator on random values on every run')


def add_native_functions(rep: Report, names, inst: str) -> None:
    fns = load_functions()
    for n in names:
        if n in fns:
            lin = Linear(fns[n])
            rep.add_function('flipjump/interpreter/_fjcore.c', n, f'{lin.lines[0]}-{lin.lines[1]}', inst)


def native_assumptions(rep: Report) -> None:
    rep.assume('[A] mem_get_page / mem_grow_slots (open-addressing page table): returns the page of that index, allocating a zero page if absent (its fast-valid range comes from page_compute_validity, whose soundness IS verified where unit_validity runs: C07), refills cache slot index&15, or NULL with a python error and no change; the hash table itself is exercised by the bounded runs only')
    rep.assume('[A] CPython API: PyObject_Call* return a new reference or NULL with an exception set; PyObject_IsTrue returns 0/1/-1; PyErr_CheckSignals returns 0 or -1 with an exception; Py_DECREF releases one reference')
    rep.assume('ghost V is DEFINED as the union of the listed segment ranges; word_is_valid / flat_seg_contains / page_compute_validity / mem_ensure_segments_sorted are verified against that definition with loop invariants (unit_validity, run under C07); [A] qsort with segment_compare returns a permutation ordered by start; Memory_add_segment (before any page exists) appends exactly the requested range and keeps count <= capacity (unit_add_segment); [A] realloc; [A] capacity < 2^40; no segment is added during a run')
    rep.assume('garbage_stop == 1 (the only mode fjm_run.run constructs); C integers are bit-vectors of their exact width (wrap-around modelled; signed overflow and oversized shifts are obligations)')
    rep.assume('model normalisation: words of pages that do not exist read as 0 (as unobservable as an unallocated page)')
    rep.trust('cvc: home-made symbolic executor over the clang-14 JSON AST of the current _fjcore.c (region-based heap: distinct allocations never alias)')
    rep.trust('clang 14 front end (AST dump); z3 (incl. bit-blast tactic) and cvc5')


def python_functions(rep: Report) -> None:
    R = importlib.import_module('flipjump.fjm.fjm_reader')
    FR = importlib.import_module('flipjump.interpreter.fjm_run')
    for m in ('_bit_address_decompose', '_get_memory_word', '_set_memory_word', 'read_bit', 'write_bit', 'get_word'):
        rep.add_function('flipjump.fjm.fjm_reader', f'Reader.{m}', Engine.func_lines(getattr(R.Reader, m)), 'w in {8,16,32,64}')
    for f in ('_run_fast', '_run_featured', '_handle_input', '_handle_output'):
        rep.add_function('flipjump.interpreter.fjm_run', f, Engine.func_lines(getattr(FR, f)), 'last-ops list {None, deque}; helpers verified inline at their call sites')
    rep.assume('[A] IODevice.read_bit returns a bool or raises; IODevice.write_bit returns or raises (every call may fail)')
    rep.assume('[A] deque(maxlen=k).append keeps the last k appended items (the model keeps the whole history)')
    rep.assume('python ints as 160-bit vectors; every term carries a size bound that excludes wrap-around (checked while generating VCs)')
    rep.assume('model normalisation: the value array of the symbolic memory dict is 0 at absent keys (unobservable by the code)')
    rep.trust('pyvc symbolic executor (home-made)')
