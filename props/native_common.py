"""shared pieces of the engine checks (C01, C07, C11, C18)"""
from __future__ import annotations

import importlib
from typing import Any, List

from props import C01c, C01py
from vc.common import Report
from vc.cvc.cfg import Linear, load_functions
from vc.pyvc.engine import Engine

HELPERS = ('flat_is_garbage', 'flat_garbage', 'flat_garbage_check', 'access_check', 'mem_read_word', 'mem_flip_bit', 'mem_write_bit', 'mem_get_word_unaligned')


VALIDITY = ('flat_seg_contains', 'word_is_valid', 'page_compute_validity', 'mem_ensure_segments_sorted')


def helper_jobs(widths) -> List[tuple]:
    return [(C01c.unit_helper, (h, w)) for w in widths for h in HELPERS]


def validity_jobs() -> List[tuple]:
    """the segment-list functions against the DEFINITION of the ghost valid-set V (width independent)"""
    return [(C01c.unit_validity, (n,)) for n in VALIDITY] + [(C01c.unit_add_segment, ())]


def loader_jobs(widths) -> List[tuple]:
    """Memory_set_words: the bulk load (page-backed, before the storage decision)"""
    return [(C01c.unit_set_words, (w,)) for w in widths]


def add_native_functions(rep: Report, names, inst: str) -> None:
    fns = load_functions()
    for n in names:
        if n in fns:
            lin = Linear(fns[n])
            rep.add_function('flipjump/interpreter/_fjcore.c', n, f'{lin.lines[0]}-{lin.lines[1]}', inst)


def native_assumptions(rep: Report) -> None:
    rep.assume('[A] mem_get_page / mem_grow_slots (open-addressing page table): returns the page of that index, allocating a zero page if absent (its fast-valid range comes from page_compute_validity, whose soundness IS verified where unit_validity runs: C07), refills cache slot index&15, or NULL with a python error and no change; the hash table itself is exercised by the bounded runs only')
    rep.assume('[A] CPython API: PyObject_Call* return a new reference or NULL with an exception set; PyObject_IsTrue returns 0/1/-1; PyErr_CheckSignals returns 0 or -1 with an exception; Py_DECREF releases one reference')
    rep.assume('ghost V is DEFINED as the union of the listed segment ranges; word_is_valid / flat_seg_contains / page_compute_validity / mem_ensure_segments_sorted are verified against that definition with loop invariants (unit_validity, run under C07); [A] qsort with segment_compare returns a permutation ordered by start; Memory_add_segment (before any page exists) appends exactly the requested range and keeps count <= capacity (unit_add_segment); [A] realloc; [A] capacity < 2^40; no segment is added during a run')
    rep.assume('garbage_stop == 1 (the only mode fjm_run.run constructs); C integers are bit-vectors of their exact width (wrap-around modelled; signed overflow and oversized shifts are obligations)')
    rep.assume('model normalisation: words of pages that do not exist read as 0 (as unobservable as an unallocated page)')
    rep.trust('cvc: home-made symbolic executor over the clang-14 JSON AST of the current _fjcore.c (region-based heap: distinct allocations never alias)')
    rep.trust('clang 14 front end (AST dump); z3 (incl. bit-blast tactic) and cvc5')


def python_functions(rep: Report) -> None:
    R = importlib.import_module('flipjump.fjm.fjm_reader')
    FR = importlib.import_module('flipjump.interpreter.fjm_run')
    for m in ('_bit_address_decompose', '_get_memory_word', '_set_memory_word', 'read_bit', 'write_bit', 'get_word'):
        rep.add_function('flipjump.fjm.fjm_reader', f'Reader.{m}', Engine.func_lines(getattr(R.Reader, m)), 'w in {8,16,32,64}')
    for f in ('_run_fast', '_run_featured', '_handle_input', '_handle_output'):
        rep.add_function('flipjump.interpreter.fjm_run', f, Engine.func_lines(getattr(FR, f)), 'last-ops list {None, deque}; helpers verified inline at their call sites')
    rep.assume('[A] IODevice.read_bit returns a bool or raises; IODevice.write_bit returns or raises (every call may fail)')
    rep.assume('[A] deque(maxlen=k).append keeps the last k appended items (the model keeps the whole history)')
    rep.assume('python ints as 160-bit vectors; every term carries a size bound that excludes wrap-around (checked while generating VCs)')
    rep.assume('model normalisation: the value array of the symbolic memory dict is 0 at absent keys (unobservable by the code)')
    rep.trust('pyvc symbolic executor (home-made)')
