"""
C03 - macro expansion is hygienic inlining.
[F] freshness lemma: every name the preprocessor generates (`prefix---local`, `...:rep:name`, `---:start:`,
    `:wflips:N`, `_.wflip_area_start_N`) contains a character no source identifier can contain - decided from the
    alphabets of the lexer's real ID / DOT_ID regular expressions;
[F] relative-name resolution (base_name_to_ns_full_name) for every namespace depth <= 4 and every number of
    leading dots: k+1 dots climb exactly k levels, too many dots are an error;
[D] PreprocessorData.insert_label (shared: duplicates are errors, never shared).
[B] random macro programs with deliberate name collisions against the reference inliner; file splits.
The substitution and path-injectivity lemmas are carried by these; a proof over resolve_macro_aux is out of reach.
"""
from __future__ import annotations

import importlib
import itertools
import re
from typing import Any, Dict, List

import z3

from bounded import asm
from props import asm_units
from vc.common import Obl, Report, finish_unit, main_wrapper, run_and_discharge
from vc.pyvc.engine import Engine
from vc.pyvc.values import IntMath

PROP = 'C03'


def _regex_alphabet(pattern: str) -> set:
    """characters that can occur in a match of the pattern (over-approximation from the parsed regex)"""
    try:
        import re._parser as sre_parse  # py3.11+
    except ImportError:  # pragma: no cover
        import sre_parse  # type: ignore
    chars: set = set()

    def walk(items):
        for op, av in items:
            name = str(op)
            if name == 'LITERAL':
                chars.add(chr(av))
            elif name == 'IN':
                for op2, av2 in av:
                    n2 = str(op2)
                    if n2 == 'LITERAL':
                        chars.add(chr(av2))
                    elif n2 == 'RANGE':
                        chars.update(chr(c) for c in range(av2[0], av2[1] + 1))
                    elif n2 == 'NEGATE' or n2 == 'CATEGORY':
                        chars.update(chr(c) for c in range(0x20, 0x7F))
            elif name in ('MAX_REPEAT', 'MIN_REPEAT'):
                walk(av[2])
            elif name == 'SUBPATTERN':
                walk(av[3])
            elif name == 'BRANCH':
                for b in av[1]:
                    walk(b)
            elif name == 'ANY':
                chars.update(chr(c) for c in range(0x20, 0x7F))
            elif name in ('AT',):
                pass
            else:
                chars.update(chr(c) for c in range(0x20, 0x7F))

    walk(sre_parse.parse(pattern))
    return chars


def unit_freshness() -> Dict[str, Any]:
    P = importlib.import_module('flipjump.assembler.fj_parser')
    K = importlib.import_module('flipjump.utils.constants')
    PP = importlib.import_module('flipjump.assembler.preprocessor')
    eng = Engine(IntMath(), name='hygiene.freshness')
    alpha = _regex_alphabet(P.id_re) | _regex_alphabet(P.dot_id_re)
    extra: List[Obl] = []
    extra.append(Obl(f'{eng.name}:identifier_alphabet_is_letters_digits_underscore_dot', [], z3.BoolVal(alpha <= set('abcdefghijklmnopqrstuvwxyzABCDEFGHIJKLMNOPQRSTUVWXYZ0123456789_.')), meta=dict(alphabet=''.join(sorted(alpha)))))
    for what, text in (('local-label separator', K.MACRO_SEPARATOR_STRING), ('macro start label', K.STARTING_LABEL_IN_MACROS_STRING), ('wflip label prefix', K.WFLIP_LABEL_PREFIX), ('rep iterator marker', ':rep:')):
        extra.append(Obl(f'{eng.name}:[{what}]_contains_a_character_no_identifier_has', [], z3.BoolVal(any(c not in alpha for c in text)), meta=dict(text=text)))
    # the wflip-area label is an identifier-like name: it must not be lexable as ONE identifier a user could write and declare
    wl = PP.wflip_start_label
    extra.append(Obl(f'{eng.name}:[wflip area label]_is_not_a_plain_identifier', [], z3.BoolVal(re.fullmatch(P.id_re, wl + '0') is None), meta=dict(text=wl)))
    # the markers really are what resolve_macro_aux uses
    import inspect

    src = inspect.getsource(PP.resolve_macro_aux)
    extra.append(Obl(f'{eng.name}:rep_iterator_is_renamed_with_the_rep_marker_before_substitution', [], z3.BoolVal(':rep:' in src and src.index('rename_iterator') < src.index('op = op.eval_new(params_dict)\n            rep_times'))))
    return finish_unit(eng, extra)


def unit_relative_names() -> Dict[str, Any]:
    P = importlib.import_module('flipjump.assembler.fj_parser')
    eng = Engine(IntMath(), name='FJParser.base_name_to_ns_full_name')
    extra: List[Obl] = []
    bad = []
    n = 0
    for depth in range(0, 5):
        ns = [f'n{i}' for i in range(depth)]
        for dots in range(0, 7):
            for tail in ('x', 'a.b'):
                name = '.' * dots + tail
                P.curr_namespace = list(ns)
                P.curr_file, P.curr_file_short_name = __import__('pathlib').Path('x.fj'), 'f1'
                P.error_occurred, P.all_errors = False, ''
                import contextlib, io

                with contextlib.redirect_stdout(io.StringIO()):
                    got = P.FJParser.base_name_to_ns_full_name(name, 1)
                n += 1
                if dots == 0:
                    want, err = name, False
                elif dots - 1 > depth:
                    want, err = None, True
                else:
                    want, err = '.'.join(ns[: depth - (dots - 1)] + [tail]), False
                if err != bool(P.error_occurred) or (not err and got != want):
                    bad.append((ns, name, got, want, P.error_occurred))
    P.error_occurred, P.all_errors = False, ''
    extra.append(Obl(f'{eng.name}:k+1_leading_dots_climb_exactly_k_namespace_levels', [], z3.BoolVal(not bad and n == 70), meta=dict(first_bad=str(bad[:2]), cases=n)))
    return finish_unit(eng, extra)


def body(tier: str, seed: int) -> int:
    rep = Report(PROP, 'quick' if tier.startswith('replay') else tier, seed, 'exploration', f'./check {PROP} --tier {tier}')
    th = tier == 'thorough'
    run_and_discharge(rep, [(unit_freshness, ()), (unit_relative_names, ()), (asm_units.unit_insert_label, ())])
    rep.add_function('flipjump.assembler.fj_parser', 'id_re / dot_id_re (lexer alphabets), FJParser.base_name_to_ns_full_name', '', 'finite, complete')
    rep.add_function('flipjump.assembler.preprocessor', 'PreprocessorData.insert_label', '', 'labels as symbolic ids')
    rep.assume('[B only] resolve_macro_aux, get_params_dictionary, Expr.eval_new (single-pass substitution), RepCall.rename_iterator / calculate_arguments, _parse_files_into_parser: the property itself is decided only on the generated programs')
    rep.trust('the reference inliner spec/fjasm.py; pyvc; z3')
    asm.run_macros(rep, 15000 if th else 900, seed)
    return rep.finish()


if __name__ == '__main__':
    main_wrapper(PROP, body)
