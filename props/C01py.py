"""
C01 (python side) - verification units for the pure-python engines:
  * Reader._bit_address_decompose/_get_memory_word/_set_memory_word/read_bit/write_bit/get_word are
    checked against their contracts (contracts/py/reader_model.py) - body refines contract;
  * one iteration of the `while True` loop of fjm_run._run_fast and _run_featured, from ANY state
    satisfying the loop invariant, is checked against spec.machine.SymStep: same IO events in the
    same order, same fault / halt with the same op count and address, or the loop head is reached
    again with absmem == M', ip == j, op counter == n + 1.
Used by props/C01.py (and C07, C18 re-use the exceptional exits).
"""
from __future__ import annotations

import importlib
from typing import Any, Dict, List

import z3

from contracts.py.reader_model import ReaderModel, mods as reader_mods
from spec.machine import SymStep
from vc.common import Obl, Undecided, discharge, finish_unit
from vc.pyvc.engine import OK, RAISE, Engine, LoopSpec, State
from vc.pyvc.refine import refines
from vc.pyvc.values import ExcVal, IntBV, Obj, Opaque, Ref, SDict, SList

N = 160
WIDTHS = (8, 16, 32, 64)


def _finish(eng: Engine, extra: List[Obl]) -> Dict[str, Any]:
    return finish_unit(eng, extra)


def bv(v: int):
    return z3.BitVecVal(v, N)


# ----------------------------------------------------------------------------- Reader methods


def unit_reader_method(name: str, w: int) -> List[Dict[str, Any]]:
    R, X = reader_mods()
    eng = Engine(IntBV(N), name=f'Reader.{name}[w{w}]')
    T = eng.T
    st = State()
    rm = ReaderModel(eng, st, w, zb_axioms=(name == '_get_memory_word'))
    fn = getattr(R.Reader, name)
    callees = {
        '_get_memory_word': (),
        '_set_memory_word': (),
        '_bit_address_decompose': (),
        'read_bit': ('_bit_address_decompose', '_get_memory_word'),
        'write_bit': ('_bit_address_decompose', '_get_memory_word', '_set_memory_word'),
        'get_word': ('_bit_address_decompose', '_get_memory_word'),
    }[name]
    rm.install_contracts(eng, which=callees)
    if not callees:
        rm.install_contracts(eng, which=())  # builds contract_table only
    fc = importlib.import_module('flipjump.fjm.fjm_consts')
    eng.inline.add(fc._new_garbage_val)
    a = eng.fresh_int('addr', st, 0, 1 << 70)
    args: List[Any] = [rm.ref, a]
    if name == '_set_memory_word':
        args.append(eng.fresh_int('value', st, None, None, bits=100))
    if name == 'write_bit':
        args.append(eng.fresh_bool('bit_value'))
    if name == '_get_memory_word':
        zb = rm.zb
        aa = a & bv((1 << w) - 1)
        e0 = z3.BitVec('e_gm', N)

        def inv(s: State, k):
            return [z3.ForAll([e0], z3.Implies(z3.ULT(e0, k), z3.Not(z3.And(z3.ULE(z3.Select(zb.cols[0], e0), aa), z3.ULT(aa, z3.Select(zb.cols[1], e0))))))]

        def havoc(s: State, e: Engine):
            for nm in ('start', 'end'):
                if nm in s.locals:
                    s.locals[nm] = e.fresh_int(nm, s, 0, 1 << 66)

        eng.loop_specs[(fn.__qualname__, 0)] = LoopSpec(invariant=inv, havoc=havoc)
    extra: List[Obl] = [Obl(f'{eng.name}:cover.requires', list(st.pc), None, 'cover')]
    outs = eng.run_function(fn, st, args)
    extra += refines(eng, st, outs, rm.contract_table[name], args, [rm.mem_ref, rm.zb_ref, rm.ref], eng.name)
    # frame + invariant of the representation (for every outcome)
    for i, (s, sig) in enumerate(outs):
        tag = f'{eng.name}:path{i}'
        m1 = rm.mem(s)
        if name == '_get_memory_word':
            extra.append(Obl(f'{tag}.model_normalisation_kept', list(s.pc), rm.normalised(m1)))
        if name not in ('_set_memory_word', 'write_bit'):
            extra.append(Obl(f'{tag}.frame_absmem_unchanged', list(s.pc), rm.same_absmem(rm.mem(st), m1)))
        else:
            x = z3.BitVec('a_fr', N)
            extra.append(Obl(f'{tag}.frame_valid_set_only_grows_by_the_written_word', list(s.pc), z3.ForAll([x], z3.Implies(rm.V(rm.mem(st), x), rm.V(m1, x)))))
    extra.append(Obl(f'{eng.name}:canary', list(st.pc), None, 'canary'))
    return _finish(eng, extra)


# ----------------------------------------------------------------------------- the run loops


class LoopHarness:
    """shared by _run_fast and _run_featured"""

    def __init__(self, which: str, w: int, with_last_ops: bool):
        R, X = reader_mods()
        self.FR = importlib.import_module('flipjump.interpreter.fjm_run')
        self.CL = importlib.import_module('flipjump.utils.classes')
        self.IOD = importlib.import_module('flipjump.interpreter.io_devices.IODevice')
        self.X, self.R = X, R
        self.which, self.w, self.with_last_ops = which, w, with_last_ops
        self.eng = Engine(IntBV(N), name=f'fjm_run.{which}[w{w},last_ops={"deque" if with_last_ops else "None"}]')
        eng = self.eng
        T = eng.T
        st = State()
        self.rm = ReaderModel(eng, st, w)
        rm = self.rm
        rm.install_contracts(eng, which=('_get_memory_word', '_set_memory_word', '_bit_address_decompose', 'read_bit', 'write_bit', 'get_word'))
        # statistics object
        self.pause_ref = st.alloc(Obj(self.CL.RunStatistics.PauseTimer, dict(paused_time=Opaque('float'))))
        self.last_ref = None
        if with_last_ops:
            lo = SList(T.lift(0), (z3.K(T.sort(), T.lift(0)),), 0)
            lo.elem_bits, lo.elem_nonneg = w + 1, True  # type: ignore[attr-defined]
            self.last_ref = st.alloc(lo)
        self.stats_ref = st.alloc(
            Obj(
                self.CL.RunStatistics,
                dict(op_counter=0, flip_counter=0, jump_counter=0, detailed_statistics=True, pause_timer=self.pause_ref, last_ops_addresses=self.last_ref, _op_size=2 * w, _after_null_flip=2 * w),
            )
        )
        self.io_ref = st.alloc(Obj(self.IOD.IODevice, {}))
        self.st0 = st
        self._install_io()
        eng.contracts[self.FR.TerminationStatistics] = self._term_stats
        for f in (self.CL.RunStatistics.register_op_address, self.CL.RunStatistics.register_op, self.FR._handle_output, self.FR._handle_input, self.FR._trace_flip, self.FR._trace_jump):
            eng.inline.add(f)
        self.head: Dict[str, Any] = {}

    # ---- IO device: ghost event trace, may fail at every call (C18)
    def _install_io(self) -> None:
        eng, X = self.eng, self.X

        def write_bit(e, st, args, kwargs):
            recv, b = args
            t = e.truth(b, st)
            s = st.fork()
            s.trace.append(('out', z3.BoolVal(t) if isinstance(t, bool) else t, 'bool' if isinstance(b, (bool, z3.BoolRef)) else 'int'))
            yield (OK, s, None)
            s2 = st.fork()
            s2.trace.append(('out-raised',))
            yield (RAISE, s2, ExcVal(Exception, (), dict(device_failure=True)))

        def read_bit(e, st, args, kwargs):
            s = st.fork()
            b = self.head['in_bit']
            s.assume(self.head['in_available'])
            s.trace.append(('in', b))
            yield (OK, s, b)
            s1 = st.fork()
            s1.assume(z3.Not(self.head['in_available']))
            s1.trace.append(('in-eof',))
            yield (RAISE, s1, ExcVal(X.IOReadOnEOF))
            s2 = st.fork()
            s2.trace.append(('in-raised',))
            yield (RAISE, s2, ExcVal(Exception, (), dict(device_failure=True)))

        eng.contracts[self.IOD.IODevice.write_bit] = write_bit
        eng.contracts[self.IOD.IODevice.read_bit] = read_bit

    def _term_stats(self, e, st, args, kwargs):
        stats = st.heap[args[0].id]
        yield (OK, st, Opaque('termination', dict(cause=args[1], address=kwargs.get('memory_error_address'), op_counter=stats.fields['op_counter'])))

    # ---- loop invariant / havoc (see module docstring)
    def havoc(self, s: State, e: Engine) -> None:
        rm, w = self.rm, self.w
        T = e.T
        S = T.sort()
        dom, val = z3.Array('dom_h', S, z3.BoolSort()), z3.Array('val_h', S, z3.BitVecSort(w))
        s.heap[rm.mem_ref.id] = rm.mk_mem(dom, val)
        ip = e.fresh_int('ip', s, 0, 1 << w)
        n = e.fresh_int('n_ops', s, 0, 1 << 62)
        s.trace = []
        if self.which == 'fast':
            s.locals['ip'], s.locals['ops'] = ip, n
            for nm in ('bit_offset', 'flip_address', 'word_address', 'input_bit', 'flip_word_address', 'flip_word_value', 'jump_address', 'jump_word_address'):
                s.locals.pop(nm, None)
        else:
            s.locals['ip'] = ip
            for nm in ('flip_address', 'jump_address'):
                s.locals.pop(nm, None)
            so = s.heap[self.stats_ref.id]
            s.heap[self.stats_ref.id] = Obj(so.cls, {**so.fields, 'op_counter': n, 'flip_counter': e.fresh_int('flips', s, 0, 1 << 62), 'jump_counter': e.fresh_int('jumps', s, 0, 1 << 62)})
        if self.last_ref is not None:
            ll = e.fresh_int('last_len', s, 0, 1 << 62)
            lo = SList(ll, (z3.Array('last_h', S, S),), 0)
            lo.elem_bits, lo.elem_nonneg = w + 1, True  # type: ignore[attr-defined]
            s.heap[self.last_ref.id] = lo
        if self.head:  # second call = the engine's loop-exit state (unreachable for `while True`)
            self.exit_state = s
            return
        self.head = dict(state=s, ip=ip, n=n, mem=s.heap[rm.mem_ref.id], in_bit=z3.Bool('in_bit'), in_available=z3.Bool('in_available'), last=s.heap[self.last_ref.id] if self.last_ref else None)
        self.spec = SymStep(z3, N, w, rm.V_arr(self.head['mem']), self.head['mem'].val, ip, self.head['in_bit'], self.head['in_available'])

    def counter(self, s: State):
        if self.which == 'fast':
            return s.locals['ops']
        return s.heap[self.stats_ref.id].fields['op_counter']

    def invariant(self, s: State, k) -> List[Any]:
        rm, w, T = self.rm, self.w, self.eng.T
        # (stored words fit the width by construction of the model: see 'stored_word_fits' obligations)
        if not self.head:  # initiation: the state before the first op
            return [T.lift(s.locals['ip']) == 0, T.lift(self.counter(s)) == 0]
        if s is self.head['state'] or s is getattr(self, 'exit_state', None):  # head of an arbitrary iteration: assumed
            return []
        # back edge: the iteration must have been exactly spec.step
        return self.back_edge_conditions(s)

    def events_match(self, s: State, *, upto: str) -> Any:
        """the IO events on this path are those of the spec, in order.  upto: 'all' | 'output' (input not reached)"""
        sp = self.spec
        evs = [e for e in s.trace]
        conds = []
        outs = [e for e in evs if e[0] in ('out', 'out-raised')]
        ins = [e for e in evs if e[0] in ('in', 'in-eof', 'in-raised')]
        order_ok = all(evs.index(o) < evs.index(i) for o in outs for i in ins)
        conds.append(z3.BoolVal(order_ok and len(outs) <= 1 and len(ins) <= 1))
        conds.append(sp.outputs == z3.BoolVal(len(outs) == 1))
        for o in outs:
            if o[0] == 'out':
                conds.append(o[1] == sp.out_bit)
                conds.append(z3.BoolVal(o[2] == 'bool'))
        if upto == 'all':
            conds.append(sp.reads == z3.BoolVal(len(ins) == 1))
        return z3.And(*conds)

    def back_edge_conditions(self, s: State) -> List[Any]:
        rm, T, sp, h = self.rm, self.eng.T, self.spec, self.head
        m1 = rm.mem(s)
        a = z3.BitVec('a_be', N)
        conds = [
            sp.completes,
            z3.Not(sp.looping),
            z3.Not(sp.nullip),
            T.lift(s.locals['ip']) == sp.j,
            T.lift(self.counter(s)) == h['n'] + 1,
            self.events_match(s, upto='all'),
            z3.ForAll([a], rm.V(m1, a) == rm.V(h['mem'], a)),
            z3.ForAll([a], z3.Implies(rm.V(m1, a), rm.M(m1, a) == sp.sel(sp.M2, a))),
        ]
        if self.last_ref is not None:
            l0, l1 = h['last'], s.heap[self.last_ref.id]
            k = z3.BitVec('k_lo', N)
            conds.append(z3.And(l1.length == l0.length + 1, z3.Select(l1.cols[0], l0.length) == h['ip'], z3.ForAll([k], z3.Implies(z3.ULT(k, l0.length), z3.Select(l1.cols[0], k) == z3.Select(l0.cols[0], k)))))
        return conds

    # ---- outcome obligations for the exits of one iteration
    def exit_obligations(self, outs) -> List[Obl]:
        rm, T, sp, h, X, CL = self.rm, self.eng.T, self.spec, self.head, self.X, self.CL
        name = self.eng.name
        extra: List[Obl] = []
        a = z3.BitVec('a_ex', N)
        n_iter = 0
        for i, (s, sig) in enumerate(outs):
            if not any(':iter' in p for p in s.path):
                continue  # not a path of the arbitrary iteration
            n_iter += 1
            tag = f'{name}:exit{i}'
            pc = list(s.pc)
            extra.append(Obl(f'{tag}.cover', pc, None, 'cover'))
            m1 = rm.mem(s)
            stats = s.heap[self.stats_ref.id]
            reported = T.lift(stats.fields['op_counter'])
            valid_same = z3.ForAll([a], rm.V(m1, a) == rm.V(h['mem'], a))
            dev_fail = any(e[0] in ('out-raised', 'in-raised') for e in s.trace)
            if sig[0] == 'return':
                t = sig[1]
                if not (isinstance(t, Opaque) and t.tag == 'termination'):
                    extra.append(Obl(f'{tag}.returns_termination_statistics', pc, z3.BoolVal(False)))
                    continue
                cause, addr, cnt = t.payload['cause'], t.payload['address'], T.lift(t.payload['op_counter'])
                if cause == CL.TerminationCause.EOF:
                    extra.append(Obl(f'{tag}.EOF_iff_spec_halts_on_end_of_input', pc, z3.And(z3.Not(sp.f_fault), sp.eof)))
                    extra.append(Obl(f'{tag}.EOF_reports_ops_before_this_op', pc, cnt == h['n']))
                    extra.append(Obl(f'{tag}.EOF_io_events_as_spec', pc, self.events_match(s, upto='output')))
                    extra.append(Obl(f'{tag}.EOF_memory_untouched', pc, z3.And(valid_same, z3.ForAll([a], z3.Implies(rm.V(m1, a), rm.M(m1, a) == rm.M(h['mem'], a))))))
                elif cause in (CL.TerminationCause.Looping, CL.TerminationCause.NullIP):
                    want = sp.looping if cause == CL.TerminationCause.Looping else z3.And(z3.Not(sp.looping), sp.nullip)
                    extra.append(Obl(f'{tag}.{cause.name}_iff_spec_halts_so', pc, z3.And(sp.completes, want)))
                    extra.append(Obl(f'{tag}.{cause.name}_counts_this_op', pc, cnt == h['n'] + 1))
                    extra.append(Obl(f'{tag}.{cause.name}_io_events_as_spec', pc, self.events_match(s, upto='all')))
                    extra.append(Obl(f'{tag}.{cause.name}_final_memory_as_spec', pc, z3.And(valid_same, z3.ForAll([a], z3.Implies(rm.V(m1, a), rm.M(m1, a) == sp.sel(sp.M2, a))))))
                else:
                    extra.append(Obl(f'{tag}.unexpected_termination_cause_{cause}', pc, z3.BoolVal(False)))
                extra.append(Obl(f'{tag}.statistics_op_counter_is_the_reported_count', pc, reported == cnt))
                continue
            exc = sig[1]
            if exc.cls is X.FlipJumpRuntimeMemoryException and not dev_fail:
                addr = T.lift(exc.fields['memory_address'])
                extra.append(Obl(f'{tag}.memory_fault_iff_spec_faults', pc, z3.And(sp.fault, z3.Not(z3.And(z3.Not(sp.f_fault), sp.eof)))))
                extra.append(Obl(f'{tag}.memory_fault_address_as_spec', pc, addr == sp.fault_addr))
                extra.append(Obl(f'{tag}.memory_fault_reports_ops_before_this_op', pc, reported == h['n']))
                # events: output before the fault unless the flip-word fetch itself faulted
                extra.append(Obl(f'{tag}.memory_fault_io_events_as_spec', pc, z3.If(sp.f_fault, z3.BoolVal(len(s.trace) == 0), self.events_match(s, upto='all'))))
                continue
            if dev_fail:
                # C18: a failing device call stops the run at this op: nothing of the op is visible except
                # the events before the failing call; the op is not counted; memory is untouched unless the
                # failing call came after ... (it cannot: both calls precede the flip)
                extra.append(Obl(f'{tag}.device_failure_propagates_unchanged', pc, z3.BoolVal(exc.cls is Exception and exc.fields.get('device_failure') is True)))
                extra.append(Obl(f'{tag}.device_failure_op_not_counted', pc, reported == h['n']))
                extra.append(Obl(f'{tag}.device_failure_memory_untouched', pc, z3.And(valid_same, z3.ForAll([a], z3.Implies(rm.V(m1, a), rm.M(m1, a) == rm.M(h['mem'], a))))))
                extra.append(Obl(f'{tag}.device_failure_only_after_spec_reached_that_call', pc, z3.And(z3.Not(sp.f_fault), sp.outputs if s.trace and s.trace[0][0] == 'out-raised' else sp.reads)))
                continue
            extra.append(Obl(f'{tag}.no_other_exception_escapes({getattr(exc.cls, "__name__", exc.cls)})', pc, z3.BoolVal(False)))
        if n_iter == 0:
            raise Undecided('no exit paths of the arbitrary iteration')
        return extra


def unit_run_loop(which: str, w: int, with_last_ops: bool) -> List[Dict[str, Any]]:
    H = LoopHarness(which, w, with_last_ops)
    eng, st = H.eng, H.st0
    fn = H.FR._run_fast if which == 'fast' else H.FR._run_featured
    eng.loop_specs[(fn.__qualname__, 0)] = LoopSpec(invariant=H.invariant, havoc=H.havoc)
    if which == 'fast':
        outs = eng.run_function(fn, st, [H.rm.ref, H.io_ref, H.stats_ref])
    else:
        outs = eng.run_function(fn, st, [H.rm.ref, H.io_ref, H.stats_ref, None, eng.fresh_bool('show_trace')])
    extra = H.exit_obligations(outs)
    extra.append(Obl(f'{eng.name}:canary', list(H.head['state'].pc), None, 'canary'))
    # completeness of the case analysis: every spec outcome is taken by some path (covers)
    sp, hs = H.spec, H.head['state']
    for nm, c in (('fault_on_flip_fetch', sp.f_fault), ('eof', z3.And(z3.Not(sp.f_fault), sp.eof)), ('fault_on_flip', z3.And(z3.Not(sp.f_fault), z3.Not(sp.eof), z3.Not(sp.in_fault), sp.flip_fault)), ('halt_looping', z3.And(sp.completes, sp.looping)), ('halt_nullip', z3.And(sp.completes, z3.Not(sp.looping), sp.nullip)), ('continues', z3.And(sp.completes, z3.Not(sp.looping), z3.Not(sp.nullip))), ('unaligned_ip', z3.And(sp.completes, (H.head['ip'] & bv(w - 1)) != 0))):
        extra.append(Obl(f'{eng.name}:cover.spec_case_{nm}', list(hs.pc) + [c], None, 'cover'))
    return _finish(eng, extra)
