"""
C17 - bit-level IO devices are byte-exact.

Deductive part: the real read_bit / write_bit / get_output of FixedIO, StandardIO and KeyboardIO
(and KeyboardIO._poll, ScriptedKeyEventSource.next_due_event) are executed symbolically from an
arbitrary state satisfying the class invariant tied to GHOST streams:
   I (all input bytes), p (bits consumed), O (bits written so far)
and each path must re-establish the invariant for the updated ghosts and return the spec bit.
Induction over the call sequence then gives the property for every input and every bit sequence.
Bounded part: the same contracts evaluated on the real classes for all short sequences.
"""
from __future__ import annotations

import importlib
import itertools
import random
import sys
from typing import Any, Dict, List

import z3

from vc.common import Obl, OblResult, Report, Undecided, Violation, discharge, finish_unit, main_wrapper, run_and_discharge
from vc.pyvc.engine import OK, Engine, State
from vc.pyvc.values import ExcVal, IntBV, Obj, Opaque, Ref, SList

PROP = 'C17'
N = 64  # bit-vector width of the python-int encoding (values here are < 2^10; no-overflow is checked by size bounds)


def _mods():
    sys.path.insert(0, __import__('os').environ.get('VERIF_REPO', '/repo')) if __import__('os').environ.get('VERIF_REPO', '/repo') not in sys.path else None
    F = importlib.import_module('flipjump.interpreter.io_devices.FixedIO')
    S = importlib.import_module('flipjump.interpreter.io_devices.StandardIO')
    K = importlib.import_module('flipjump.interpreter.io_devices.KeyboardIO')
    B = importlib.import_module('flipjump.interpreter.io_devices.BrokenIO')
    X = importlib.import_module('flipjump.utils.exceptions')
    return F, S, K, B, X


def bv(v: int):
    return z3.BitVecVal(v, N)


# ----------------------------------------------------------------------------- ghost-tied invariants


class InGhost:
    """ghost input stream I (array of bytes, length L) and number of consumed bits p"""

    def __init__(self, T: IntBV, st: State, eng: Engine):
        self.I = z3.Array('I', T.sort(), T.sort())
        self.L = eng.fresh_int('L', st, 0, 1 << 40)
        self.p = eng.fresh_int('p', st, 0, 1 << 44)
        st.assume(z3.ULE(self.p, 8 * self.L))
        k = z3.BitVec('kq', N)
        st.assume(z3.ForAll([k], z3.ULT(z3.Select(self.I, k), 256)))

    def byte(self, i):
        return z3.Select(self.I, i)

    def bit(self, pos):
        """bit number `pos` of the stream, lsb first within each byte"""
        return z3.Extract(0, 0, z3.LShR(self.byte(z3.UDiv(pos, bv(8))), z3.URem(pos, bv(8)))) == 1


def input_invariant(T, g: InGhost, p, cur_byte, bits_to_read, rem: SList) -> List[Any]:
    """state of a byte-buffering reader after p consumed bits"""
    q, r = z3.UDiv(p, bv(8)), z3.URem(p, bv(8))
    fetched = z3.If(r == 0, q, q + 1)  # number of bytes taken from the stream so far
    k = z3.BitVec('k_inv', N)
    return [
        z3.If(r == 0, z3.Or(bits_to_read == 0), bits_to_read == 8 - r),
        z3.Implies(r != 0, cur_byte == z3.LShR(g.byte(q), r)),
        rem.length == g.L - fetched,
        z3.ForAll([k], z3.Implies(z3.ULT(k, rem.length), z3.Select(rem.cols[0], k) == g.byte(fetched + k))),
    ]


class OutGhost:
    """ghost output: number of written bits n and the bit function O"""

    def __init__(self, T: IntBV, st: State, eng: Engine):
        self.O = z3.Array('O', T.sort(), z3.BoolSort())
        self.n = eng.fresh_int('n_out', st, 0, 1 << 44)

    def packed_byte(self, O, j):
        """byte j of pack_lsb(O)"""
        acc = bv(0)
        for i in range(8):
            acc = acc | z3.If(z3.Select(O, 8 * j + i), bv(1 << i), bv(0))
        return acc

    def partial(self, O, n):
        """value of the incomplete trailing byte: bits 8*(n/8) .. n-1"""
        q, r = z3.UDiv(n, bv(8)), z3.URem(n, bv(8))
        acc = bv(0)
        for i in range(8):
            acc = acc | z3.If(z3.And(z3.ULT(bv(i), r), z3.Select(O, 8 * q + i)), bv(1 << i), bv(0))
        return acc


def output_invariant(g: OutGhost, O, n, out: SList, cur, nbits) -> List[Any]:
    q, r = z3.UDiv(n, bv(8)), z3.URem(n, bv(8))
    k = z3.BitVec('k_out', N)
    return [
        nbits == r,
        cur == g.partial(O, n),
        out.length == q,
        z3.ForAll([k], z3.Implies(z3.ULT(k, q), z3.Select(out.cols[0], k) == g.packed_byte(O, k))),
    ]


# ----------------------------------------------------------------------------- harness units


FIELDS = {
    'FixedIO': dict(cur_in='current_input_byte', nin='bits_to_read_in_input_byte', cur_out='current_output_byte', nout='bits_to_write_in_output_byte', out='_output', rem='remaining_input'),
    'StandardIO': dict(cur_in='current_input_byte', nin='bits_to_read_in_input_byte', cur_out='current_output_byte', nout='bits_to_write_in_output_byte', out='_output', rem=None),
    'KeyboardIO': dict(cur_in=None, nin=None, cur_out='_current_output_byte', nout='_output_bits_count', out='_output', rem=None),
}


def _device_state(eng: Engine, cls, which: str):
    """a device object in an arbitrary state; returns (st, ref, ghosts, field terms)"""
    T = eng.T
    st = State()
    f = FIELDS[which]
    fields: Dict[str, Any] = {}
    gi = go = None
    terms: Dict[str, Any] = {}
    if f['cur_in']:
        gi = InGhost(T, st, eng)
        cur = eng.fresh_int('cur_in', st, 0, 256)
        nin = eng.fresh_int('nin', st, 0, 9)
        fields[f['cur_in']], fields[f['nin']] = cur, nin
        terms.update(cur_in=cur, nin=nin)
        if f['rem']:
            rem = eng.fresh_list('rem', st, kind='bytes', max_len=1 << 40)
            rem.elem_bits, rem.elem_nonneg = 8, True  # type: ignore[attr-defined]
            fields[f['rem']] = rem
            terms['rem'] = rem
            for c in input_invariant(T, gi, gi.p, cur, nin, rem):
                st.assume(c)
    go = OutGhost(T, st, eng)
    cur_out = eng.fresh_int('cur_out', st, 0, 256)
    nout = eng.fresh_int('nout', st, 0, 8)
    out = eng.fresh_list('out', st, kind='bytes', max_len=1 << 41)
    out.elem_bits, out.elem_nonneg = 8, True  # type: ignore[attr-defined]
    fields[f['cur_out']], fields[f['nout']], fields[f['out']] = cur_out, nout, out
    terms.update(cur_out=cur_out, nout=nout, out=out)
    for c in output_invariant(go, go.O, go.n, out, cur_out, nout):
        st.assume(c)
    if which == 'StandardIO':
        fields['output_verbose'] = eng.fresh_bool('verbose')
    ref = st.alloc(Obj(cls, fields))
    return st, ref, gi, go, terms


def _finish(eng: Engine, extra: List[Obl]) -> Dict[str, Any]:
    return finish_unit(eng, extra)


def _install_std_externals(eng: Engine, S, st_holder: Dict[str, Any]) -> None:
    """assumed contracts for stdin/stdout as used by StandardIO"""
    T = eng.T

    def stdin_read(e, st, recv, args, kwargs):
        # [A] stdin.read(1) returns a str of length <= 1; the ghost stream supplies it
        gi: InGhost = st_holder['gi']
        q = z3.UDiv(gi.p, bv(8))
        for s, has in e.branch(st, z3.ULT(q, gi.L), 'stdin-has-byte'):
            yield (OK, s, Opaque('stdin-str', q if has else None))

    def str_encode(e, st, recv, args, kwargs):
        o = recv
        gi: InGhost = st_holder['gi']
        if o.payload is None:
            yield (OK, st, SList(T.lift(0), (z3.K(T.sort(), T.lift(0)),), 0, 'bytes'))
        else:
            b = gi.byte(o.payload)
            lst = SList(T.lift(1), (z3.Store(z3.K(T.sort(), T.lift(0)), T.lift(0), b),), 0, 'bytes')
            lst.elem_bits, lst.elem_nonneg = 8, True  # type: ignore[attr-defined]
            yield (OK, st, lst)

    def bytes_decode(e, st, recv, args, kwargs):
        yield (OK, st, Opaque('str'))

    def stdout_write(e, st, recv, args, kwargs):
        s = st.fork()
        s.trace.append(('stdout.write',))
        yield (OK, s, None)

    def stdout_flush(e, st, recv, args, kwargs):
        yield (OK, st, None)

    eng.method_handlers[('TextIOWrapper', 'read')] = stdin_read
    eng.method_handlers[('Opaque:stdin-str', 'encode')] = str_encode
    eng.method_handlers[('SList', 'decode')] = bytes_decode
    eng.method_handlers[('TextIOWrapper', 'write')] = stdout_write
    eng.method_handlers[('TextIOWrapper', 'flush')] = stdout_flush


def unit_read_bit(which: str) -> List[Dict[str, Any]]:
    F, S, K, B, X = _mods()
    cls = {'FixedIO': F.FixedIO, 'StandardIO': S.StandardIO}[which]
    eng = Engine(IntBV(N), name=f'{which}.read_bit')
    holder: Dict[str, Any] = {}
    _install_std_externals(eng, S, holder)
    st, ref, gi, go, t = _device_state(eng, cls, which)
    holder['gi'] = gi
    if which == 'StandardIO':
        # no remaining_input field: the stream position is the ghost itself
        q, r = z3.UDiv(gi.p, bv(8)), z3.URem(gi.p, bv(8))
        st.assume(z3.If(r == 0, t['nin'] == 0, t['nin'] == 8 - r))
        st.assume(z3.Implies(r != 0, t['cur_in'] == z3.LShR(gi.byte(q), r)))
    extra: List[Obl] = [Obl(f'{eng.name}:cover.precondition', list(st.pc), None, 'cover')]
    outs = eng.run_function(cls.read_bit, st, [ref])
    T = eng.T
    at_eof = gi.p == 8 * gi.L
    for i, (s, sig) in enumerate(outs):
        tag = f'{eng.name}:path{i}'
        extra.append(Obl(f'{tag}.cover', list(s.pc), None, 'cover'))
        o = s.heap[ref.id]
        f = FIELDS[which]
        if sig[0] == 'raise':
            exc = sig[1]
            extra.append(Obl(f'{tag}.raises_only_IOReadOnEOF', list(s.pc), z3.BoolVal(exc.cls is X.IOReadOnEOF)))
            extra.append(Obl(f'{tag}.eof_raised_only_at_end_of_input', list(s.pc), at_eof))
            same = [o.fields[f['cur_in']] == t['cur_in'], o.fields[f['nin']] == t['nin']]
            extra.append(Obl(f'{tag}.state_unchanged_on_eof', list(s.pc), z3.And(*[T.eq(a.arg(0), a.arg(1)) if False else a for a in same])))
            continue
        res = sig[1]
        resb = res if isinstance(res, z3.BoolRef) else z3.BoolVal(bool(res))
        extra.append(Obl(f'{tag}.no_eof_before_end_of_input', list(s.pc), z3.Not(at_eof)))
        extra.append(Obl(f'{tag}.returns_bit_p_lsb_first', list(s.pc), resb == gi.bit(gi.p)))
        extra.append(Obl(f'{tag}.result_is_bool', list(s.pc), z3.BoolVal(isinstance(res, (bool, z3.BoolRef)))))
        p2 = gi.p + 1
        cur2, nin2 = T.lift(o.fields[f['cur_in']]), T.lift(o.fields[f['nin']])
        if which == 'FixedIO':
            rem2 = o.fields[f['rem']]
            for j, c in enumerate(input_invariant(T, gi, p2, cur2, nin2, rem2)):
                extra.append(Obl(f'{tag}.invariant_reestablished[{j}]', list(s.pc), c))
        else:
            q, r = z3.UDiv(p2, bv(8)), z3.URem(p2, bv(8))
            extra.append(Obl(f'{tag}.invariant_reestablished[0]', list(s.pc), z3.If(r == 0, nin2 == 0, nin2 == 8 - r)))
            extra.append(Obl(f'{tag}.invariant_reestablished[1]', list(s.pc), z3.Implies(r != 0, cur2 == z3.LShR(gi.byte(q), r))))
        extra.append(Obl(f'{tag}.range_cur_in', list(s.pc), z3.And(z3.ULT(cur2, 256), z3.ULE(nin2, 8))))
        # frame: output side untouched
        extra.append(
            Obl(
                f'{tag}.frame_output_untouched',
                list(s.pc),
                z3.And(T.lift(o.fields[f['cur_out']]) == t['cur_out'], T.lift(o.fields[f['nout']]) == t['nout'], z3.BoolVal(o.fields[f['out']] is t['out'])),
            )
        )
    extra.append(Obl(f'{eng.name}:canary', list(st.pc), None, 'canary'))
    if not outs:
        raise Undecided('no paths')
    return _finish(eng, extra)


def unit_write_bit(which: str, bit_kind: str) -> List[Dict[str, Any]]:
    """bit_kind: 'bool' (what the interpreter passes) or 'int01' (0/1 ints)"""
    F, S, K, B, X = _mods()
    cls = {'FixedIO': F.FixedIO, 'StandardIO': S.StandardIO, 'KeyboardIO': K.KeyboardIO}[which]
    eng = Engine(IntBV(N), name=f'{which}.write_bit[{bit_kind}]')
    holder: Dict[str, Any] = {}
    _install_std_externals(eng, S, holder)
    st, ref, gi, go, t = _device_state(eng, cls, which)
    T = eng.T
    if bit_kind == 'bool':
        b = eng.fresh_bool('bit')
        bb = b
    else:
        b = eng.fresh_int('bit', st, 0, 2)
        bb = b == 1
    extra: List[Obl] = [Obl(f'{eng.name}:cover.precondition', list(st.pc), None, 'cover')]
    outs = eng.run_function(cls.write_bit, st, [ref, b])
    f = FIELDS[which]
    O2 = z3.Store(go.O, go.n, bb)
    n2 = go.n + 1
    for i, (s, sig) in enumerate(outs):
        tag = f'{eng.name}:path{i}'
        extra.append(Obl(f'{tag}.cover', list(s.pc), None, 'cover'))
        extra.append(Obl(f'{tag}.never_raises', list(s.pc), z3.BoolVal(sig[0] == 'return')))
        if sig[0] != 'return':
            continue
        o = s.heap[ref.id]
        out2 = o.fields[f['out']]
        for j, c in enumerate(output_invariant(go, O2, n2, out2, T.lift(o.fields[f['cur_out']]), T.lift(o.fields[f['nout']]))):
            extra.append(Obl(f'{tag}.invariant_reestablished[{j}]', list(s.pc), c))
        if f['cur_in']:
            extra.append(
                Obl(
                    f'{tag}.frame_input_untouched',
                    list(s.pc),
                    z3.And(T.lift(o.fields[f['cur_in']]) == t['cur_in'], T.lift(o.fields[f['nin']]) == t['nin'], z3.BoolVal(f['rem'] is None or o.fields[f['rem']] is t['rem'])),
                )
            )
    extra.append(Obl(f'{eng.name}:canary', list(st.pc), None, 'canary'))
    return _finish(eng, extra)


def unit_get_output(which: str) -> List[Dict[str, Any]]:
    F, S, K, B, X = _mods()
    cls = {'FixedIO': F.FixedIO, 'StandardIO': S.StandardIO, 'KeyboardIO': K.KeyboardIO}[which]
    eng = Engine(IntBV(N), name=f'{which}.get_output')
    st, ref, gi, go, t = _device_state(eng, cls, which)
    allow = eng.fresh_bool('allow')
    extra: List[Obl] = []
    outs = eng.run_function(cls.get_output, st, [ref], {'allow_incomplete_output': allow})
    incomplete = z3.URem(go.n, bv(8)) != 0
    for i, (s, sig) in enumerate(outs):
        tag = f'{eng.name}:path{i}'
        extra.append(Obl(f'{tag}.cover', list(s.pc), None, 'cover'))
        if sig[0] == 'raise':
            extra.append(Obl(f'{tag}.raises_only_IncompleteOutput', list(s.pc), z3.BoolVal(sig[1].cls is X.IncompleteOutput)))
            extra.append(Obl(f'{tag}.raised_iff_incomplete_and_not_allowed', list(s.pc), z3.And(incomplete, z3.Not(allow))))
        else:
            extra.append(Obl(f'{tag}.returned_iff_complete_or_allowed', list(s.pc), z3.Or(z3.Not(incomplete), allow)))
            extra.append(Obl(f'{tag}.returns_the_packed_bytes', list(s.pc), z3.BoolVal(sig[1] is t['out'])))
        o = s.heap[ref.id]
        extra.append(Obl(f'{tag}.state_unchanged', list(s.pc), z3.BoolVal(all(o.fields[k] is v for k, v in st.heap[ref.id].fields.items()))))
    extra.append(Obl(f'{eng.name}:canary', list(st.pc), None, 'canary'))
    return _finish(eng, extra)


def unit_broken() -> List[Dict[str, Any]]:
    F, S, K, B, X = _mods()
    eng = Engine(IntBV(N), name='BrokenIO')
    extra: List[Obl] = []
    for meth, args, kw in (('read_bit', [], {}), ('write_bit', [eng.fresh_bool('b')], {}), ('get_output', [], {'allow_incomplete_output': eng.fresh_bool('a')})):
        st = State()
        ref = st.alloc(Obj(B.BrokenIO, {}))
        eng.method_handlers  # no externals
        outs = eng.run_function(getattr(B.BrokenIO, meth), st, [ref] + args, kw)
        extra.append(Obl(f'BrokenIO.{meth}:always_raises_BrokenIOUsed', [], z3.BoolVal(len(outs) >= 1 and all(sig[0] == 'raise' and sig[1].cls is X.BrokenIOUsed for _, sig in outs))))
    return _finish(eng, extra)


# ---- keyboard: ghost = the infinite protocol stream produced by polls


def unit_keyboard_queue(which: str) -> List[Dict[str, Any]]:
    """_queue_input_hex / _queue_input_byte append exactly the 4 / 8 lsb-first bits of value"""
    F, S, K, B, X = _mods()
    nb = 4 if which == 'hex' else 8
    eng = Engine(IntBV(N), name=f'KeyboardIO._queue_input_{which}')
    T = eng.T
    st = State()
    dq = eng.fresh_list('pending', st, max_len=1 << 40)
    dq.elem_bool = True
    dref = st.alloc(dq)
    ref = st.alloc(Obj(K.KeyboardIO, {'_pending_input_bits': dref}))
    value = eng.fresh_int('value', st, 0, 256)
    eng.method_handlers[('SList', 'append')] = _deque_append
    outs = eng.run_function(getattr(K.KeyboardIO, f'_queue_input_{which}'), st, [ref, value])
    extra: List[Obl] = []
    for i, (s, sig) in enumerate(outs):
        tag = f'{eng.name}:path{i}'
        extra.append(Obl(f'{tag}.never_raises', list(s.pc), z3.BoolVal(sig[0] == 'return')))
        d2 = s.heap[dref.id]
        extra.append(Obl(f'{tag}.appends_exactly_{nb}_bits', list(s.pc), d2.length == dq.length + nb))
        for j in range(nb):
            want = z3.Extract(0, 0, z3.LShR(value, bv(j))) == 1
            got = z3.Select(d2.cols[0], dq.length + j) == 1
            extra.append(Obl(f'{tag}.bit{j}_is_bit{j}_of_value_lsb_first', list(s.pc), got == want))
        k = z3.BitVec('kk', N)
        extra.append(Obl(f'{tag}.earlier_bits_untouched', list(s.pc), z3.ForAll([k], z3.Implies(z3.ULT(k, dq.length), z3.Select(d2.cols[0], k) == z3.Select(dq.cols[0], k)))))
    extra.append(Obl(f'{eng.name}:canary', list(st.pc), None, 'canary'))
    return _finish(eng, extra)


def _deque_append(e: Engine, st: State, recv, args, kwargs):
    T = e.T
    o = st.heap[recv.id]
    s = st.fork()
    v = args[0]
    vv = T.lift(v if not isinstance(v, z3.BoolRef) else v)
    s.heap[recv.id] = _copy_list(o, T.add(o.length, 1), (z3.Store(o.cols[0], o.length, vv),))
    yield (OK, s, None)


def _copy_list(o: SList, length, cols) -> SList:
    n = SList(length, cols, o.ncols, o.kind, o.elem_bool)
    for a in ('elem_bits', 'elem_nonneg'):
        if hasattr(o, a):
            setattr(n, a, getattr(o, a))
    return n


def unit_keyboard_poll_read() -> List[Dict[str, Any]]:
    """_poll: exactly one status nibble per poll (0x0 / 0x8 / 0x9), the keycode byte right after an
    event, tic advances by exactly one, exactly one next_due_event query with the pre-increment tic;
    read_bit: never raises, polls iff the queue is empty, returns the head of the queue.
    _queue_input_* are used through their contracts (proved in unit_keyboard_queue)."""
    F, S, K, B, X = _mods()
    eng = Engine(IntBV(N), name='KeyboardIO._poll+read_bit')
    T = eng.T
    extra: List[Obl] = []

    def mk_state():
        st = State()
        dq = eng.fresh_list('pending', st, max_len=1 << 40)
        dq.elem_bool = True
        dq.elem_bits, dq.elem_nonneg = 1, True  # type: ignore[attr-defined]
        dref = st.alloc(dq)
        src = st.alloc(Obj(K.KeyEventSource, {}))
        tic = eng.fresh_int('tic', st, 0, 1 << 50)
        ref = st.alloc(Obj(K.KeyboardIO, {'_pending_input_bits': dref, 'event_source': src, 'tic': tic}))
        return st, ref, dref, dq, src, tic

    # contracts of the callees
    def queue_contract(nb):
        def h(e, st, args, kwargs):
            recv, value = args
            o = st.heap[recv.id]
            dref = o.fields['_pending_input_bits']
            d = st.heap[dref.id]
            s = st.fork()
            s.trace.append((f'queue{nb}', value))
            col = d.cols[0]
            v = T.lift(value)
            e.oblige(st, f'call._queue_input_{"hex" if nb == 4 else "byte"}.precondition_value_fits', z3.And(T.le(0, v), T.lt(v, 1 << nb)))
            for j in range(nb):
                col = z3.Store(col, d.length + j, z3.ZeroExt(N - 1, z3.Extract(0, 0, z3.LShR(v, bv(j)))))
            s.heap[dref.id] = _copy_list(d, T.add(d.length, nb), (col,))
            yield (OK, s, None)

        return h

    eng.contracts[K.KeyboardIO._queue_input_hex] = queue_contract(4)
    eng.contracts[K.KeyboardIO._queue_input_byte] = queue_contract(8)

    def next_due_event(e, st, args, kwargs):
        # [A] interface contract of KeyEventSource.next_due_event: None or (bool, keycode in 0..255)
        recv, tic = args
        s1 = st.fork()
        s1.trace.append(('next_due_event', tic, None))
        yield (OK, s1, None)
        s2 = st.fork()
        isdown = e.fresh_bool('is_down')
        code = e.fresh_int('keycode', s2, 0, 256)
        s2.trace.append(('next_due_event', tic, (isdown, code)))
        yield (OK, s2, (isdown, code))

    eng.contracts[K.KeyEventSource.next_due_event] = next_due_event

    # _poll
    st, ref, dref, dq, src, tic = mk_state()
    outs = eng.run_function(K.KeyboardIO._poll, st, [ref])
    for i, (s, sig) in enumerate(outs):
        tag = f'KeyboardIO._poll:path{i}'
        extra.append(Obl(f'{tag}.cover', list(s.pc), None, 'cover'))
        extra.append(Obl(f'{tag}.never_raises', list(s.pc), z3.BoolVal(sig[0] == 'return')))
        o = s.heap[ref.id]
        extra.append(Obl(f'{tag}.tic_advances_by_one', list(s.pc), T.lift(o.fields['tic']) == tic + 1))
        q = [ev for ev in s.trace if ev[0] == 'next_due_event']
        extra.append(Obl(f'{tag}.exactly_one_event_query_with_current_tic', list(s.pc), z3.And(z3.BoolVal(len(q) == 1), (T.lift(q[0][1]) == tic) if q else z3.BoolVal(False))))
        queued = [ev for ev in s.trace if ev[0].startswith('queue')]
        if q and q[0][2] is None:
            ok = len(queued) == 1 and queued[0][0] == 'queue4'
            extra.append(Obl(f'{tag}.no_event_one_status_nibble_0', list(s.pc), z3.And(z3.BoolVal(ok), (T.lift(queued[0][1]) == 0) if ok else z3.BoolVal(False))))
        elif q:
            isdown, code = q[0][2]
            ok = len(queued) == 2 and queued[0][0] == 'queue4' and queued[1][0] == 'queue8'
            extra.append(
                Obl(
                    f'{tag}.event_status_nibble_then_keycode_byte',
                    list(s.pc),
                    z3.And(z3.BoolVal(ok), (T.lift(queued[0][1]) == z3.If(isdown, bv(9), bv(8))) if ok else z3.BoolVal(False), (T.lift(queued[1][1]) == code) if ok else z3.BoolVal(False)),
                )
            )
    # read_bit, with _poll through the contract just proved
    def poll_contract(e, st, args, kwargs):
        recv = args[0]
        o = st.heap[recv.id]
        d = st.heap[o.fields['_pending_input_bits'].id]
        for nb in (4, 12):
            s = st.fork()
            s.trace.append(('poll', nb))
            col = e.fresh_array('polled')
            k = z3.BitVec('kp', N)
            s.assume(z3.ForAll([k], z3.Implies(z3.ULT(k, d.length), z3.Select(col, k) == z3.Select(d.cols[0], k))))
            s.assume(z3.ForAll([k], z3.ULE(z3.Select(col, k), 1)))
            s.heap[o.fields['_pending_input_bits'].id] = _copy_list(d, T.add(d.length, nb), (col,))
            s.heap[recv.id] = Obj(o.cls, {**o.fields, 'tic': T.add(o.fields['tic'], 1)})
            yield (OK, s, None)

    eng2 = Engine(eng.T, name='KeyboardIO.read_bit')
    eng2.contracts[K.KeyboardIO._poll] = poll_contract

    def popleft(e, st, recv, args, kwargs):
        # [A] deque.popleft: removes and returns element 0; IndexError when empty
        o = st.heap[recv.id]
        for s, nonempty in e.branch(st, z3.ULT(bv(0), o.length), 'deque-nonempty'):
            if nonempty:
                k = z3.BitVec(f'kpl', N)
                head = z3.Select(o.cols[0], bv(0))
                s.heap[recv.id] = _copy_list(o, o.length - 1, (z3.Lambda([k], z3.Select(o.cols[0], k + 1)),))
                e.T.note(head, 1, True)
                yield (OK, s, (head == 1) if o.elem_bool else head)
            else:
                yield ('raise', s, ExcVal(IndexError))

    eng2.method_handlers[('SList', 'popleft')] = popleft
    st, ref, dref, dq, src, tic = mk_state()
    k = z3.BitVec('kb', N)
    st.assume(z3.ForAll([k], z3.ULE(z3.Select(dq.cols[0], k), 1)))
    outs = eng2.run_function(K.KeyboardIO.read_bit, st, [ref])
    for i, (s, sig) in enumerate(outs):
        tag = f'KeyboardIO.read_bit:path{i}'
        extra.append(Obl(f'{tag}.cover', list(s.pc), None, 'cover'))
        extra.append(Obl(f'{tag}.never_raises_never_eof', list(s.pc), z3.BoolVal(sig[0] == 'return')))
        polls = [ev for ev in s.trace if ev[0] == 'poll']
        extra.append(Obl(f'{tag}.polls_iff_queue_empty', list(s.pc), z3.If(dq.length == 0, z3.BoolVal(len(polls) == 1), z3.BoolVal(len(polls) == 0))))
        if sig[0] == 'return':
            d2 = s.heap[dref.id]
            res = sig[1]
            extra.append(Obl(f'{tag}.returns_a_bool', list(s.pc), z3.BoolVal(isinstance(res, (bool, z3.BoolRef)))))
            if not polls:
                extra.append(Obl(f'{tag}.returns_head_of_queue', list(s.pc), (res == (z3.Select(dq.cols[0], bv(0)) == 1)) if isinstance(res, z3.BoolRef) else z3.BoolVal(False)))
                extra.append(Obl(f'{tag}.queue_shifted_by_one', list(s.pc), z3.And(d2.length == dq.length - 1, z3.ForAll([k], z3.Implies(z3.ULT(k, d2.length), z3.Select(d2.cols[0], k) == z3.Select(dq.cols[0], k + 1))))))
            else:
                extra.append(Obl(f'{tag}.after_poll_one_bit_consumed', list(s.pc), d2.length == polls[0][1] - 1))
    eng.obligations.extend(eng2.obligations)
    eng.dropped.extend(eng2.dropped)
    return _finish(eng, extra)


def unit_scripted_source() -> List[Dict[str, Any]]:
    """ScriptedKeyEventSource.next_due_event: delivers events[_next_index] iff it exists and is due,
    advancing the index by exactly one; otherwise None and no change (events in order, never skipped)."""
    F, S, K, B, X = _mods()
    eng = Engine(IntBV(N), name='ScriptedKeyEventSource.next_due_event')
    T = eng.T
    st = State()
    ev = eng.fresh_list('events', st, ncols=3, max_len=1 << 30)
    for c, (b, nn) in enumerate(((50, True), (1, True), (8, True))):
        pass
    ev.elem_bits, ev.elem_nonneg = 60, False  # type: ignore[attr-defined]
    eref = st.alloc(ev)
    idx = eng.fresh_int('next_index', st, 0, 1 << 30)
    st.assume(z3.ULE(idx, ev.length))
    ref = st.alloc(Obj(K.ScriptedKeyEventSource, {'events': eref, '_next_index': idx}))
    tic = eng.fresh_int('tic', st, 0, 1 << 50)

    # namedtuple field access on a symbolic 3-tuple: (tic, is_down, keycode)
    orig_getattr = eng.getattr

    def getattr_nt(recv, attr, s):
        if isinstance(recv, tuple) and len(recv) == 3 and attr in K.KeyEvent._fields:
            return recv[K.KeyEvent._fields.index(attr)]
        return orig_getattr(recv, attr, s)

    eng.getattr = getattr_nt  # type: ignore[assignment]
    outs = eng.run_function(K.ScriptedKeyEventSource.next_due_event, st, [ref, tic])
    extra: List[Obl] = []
    due = z3.And(z3.ULT(idx, ev.length), z3.Select(ev.cols[0], idx) <= tic)
    for i, (s, sig) in enumerate(outs):
        tag = f'{eng.name}:path{i}'
        extra.append(Obl(f'{tag}.cover', list(s.pc), None, 'cover'))
        extra.append(Obl(f'{tag}.never_raises', list(s.pc), z3.BoolVal(sig[0] == 'return')))
        if sig[0] != 'return':
            continue
        o = s.heap[ref.id]
        i2 = T.lift(o.fields['_next_index'])
        if sig[1] is None:
            extra.append(Obl(f'{tag}.none_iff_nothing_due', list(s.pc), z3.Not(due)))
            extra.append(Obl(f'{tag}.index_unchanged', list(s.pc), i2 == idx))
        else:
            extra.append(Obl(f'{tag}.event_iff_due', list(s.pc), due))
            extra.append(Obl(f'{tag}.index_advances_by_one', list(s.pc), i2 == idx + 1))
            r = sig[1]
            okshape = isinstance(r, tuple) and len(r) == 2
            extra.append(Obl(f'{tag}.returns_is_down_and_keycode_of_that_event', list(s.pc), z3.And(z3.BoolVal(okshape), T.lift(r[0]) == z3.Select(ev.cols[1], idx), T.lift(r[1]) == z3.Select(ev.cols[2], idx)) if okshape else z3.BoolVal(False)))
        extra.append(Obl(f'{tag}.events_list_untouched', list(s.pc), z3.BoolVal(s.heap[eref.id] is ev)))
    extra.append(Obl(f'{eng.name}:canary', list(st.pc), None, 'canary'))
    return _finish(eng, extra)


# ----------------------------------------------------------------------------- bounded stand-in


def pack_lsb(bits: List[bool]) -> bytes:
    out = bytearray()
    for i in range(0, len(bits) - len(bits) % 8, 8):
        out.append(sum((1 << j) for j in range(8) if bits[i + j]))
    return bytes(out)


def bounded(rep: Report, tier: str, seed: int) -> None:
    F, S, K, B, X = _mods()
    rng = random.Random(seed)
    evals = 0
    distinct = set()
    max_bits = 10 if tier == 'quick' else 16
    # output side: all bit sequences up to max_bits
    for cls_name, mk in (('FixedIO', lambda: F.FixedIO(b'')), ('KeyboardIO', lambda: K.KeyboardIO(K.ScriptedKeyEventSource([])))):
        for n in range(0, max_bits + 1):
            for bits in itertools.product((False, True), repeat=n):
                d = mk()
                evals += 1
                distinct.add((cls_name, bits))
                want = pack_lsb(list(bits))
                try:
                    for b in bits:
                        d.write_bit(b)
                    try:
                        got = d.get_output()
                        ok = (n % 8 == 0) and got == want
                    except X.IncompleteOutput:
                        ok = n % 8 != 0 and d.get_output(allow_incomplete_output=True) == want
                except Exception:
                    ok = False
                if not ok:
                    rep.violation(Violation(f'bounded:{cls_name}.output_packing', f'{cls_name}: output of bits {bits} is not lsb-first packed', dict(device=cls_name, bits=[int(b) for b in bits]), True, key=f'{cls_name}.output'))
                    return
    # input side: all inputs up to 2 bytes (sampled 2-byte inputs in quick), reads until EOF
    inputs = [b''] + [bytes([a]) for a in range(256)]
    two = [bytes([a, b]) for a in range(256) for b in range(256)]
    inputs += two if tier != 'quick' else rng.sample(two, 3000) + [b'\xff\xff', b'\x00\xff', b'\xff\x00', b'\x80\x01']
    for inp in inputs:
        d = F.FixedIO(inp)
        got = []
        eof_ok = False
        try:
            for _ in range(8 * len(inp)):
                got.append(d.read_bit())
            try:
                d.read_bit()
            except X.IOReadOnEOF:
                eof_ok = True
        except Exception as e:  # any exception of the real code is a contract violation, not a checker crash
            got.append(repr(e))
        want = [bool((inp[i // 8] >> (i % 8)) & 1) for i in range(8 * len(inp))]
        evals += 1
        distinct.add(('in', inp))
        if got != want or not eof_ok or any(type(g) is not bool for g in got):
            rep.violation(Violation('bounded:FixedIO.input_bits', f'FixedIO({inp!r}) read bits differ from lsb-first bits / EOF not signalled', dict(input=inp.hex()), True, key='FixedIO.input'))
            return
    # keyboard protocol: random event scripts x poll counts against an independent stream model
    n_scripts = 300 if tier == 'quick' else 5000
    for _ in range(n_scripts):
        events = [K.KeyEvent(rng.choice([0, 0, 1, 2, 3, 5, 8]), rng.random() < 0.5, rng.randrange(256)) for _ in range(rng.randrange(0, 6))]
        polls = rng.randrange(1, 14)
        d = K.KeyboardIO(K.ScriptedKeyEventSource(list(events)))
        pend = sorted(events, key=lambda e: e.tic)  # stable: ties keep script order
        want_bits: List[bool] = []
        for tic in range(polls):
            if pend and pend[0].tic <= tic:
                e = pend.pop(0)
                status = 9 if e.is_down else 8
                want_bits += [bool((status >> i) & 1) for i in range(4)] + [bool((e.keycode >> i) & 1) for i in range(8)]
            else:
                want_bits += [False] * 4
        got = []
        try:
            for _ in range(len(want_bits)):
                got.append(d.read_bit())
        except Exception as e:  # never an EOF / any exception
            got.append(repr(e))
        evals += 1
        distinct.add(('kbd', tuple(events), polls))
        if got != want_bits or d.tic != polls:
            rep.violation(Violation('bounded:KeyboardIO.protocol_stream', 'keyboard stream differs from the polling protocol', dict(events=[list(e) for e in events], polls=polls, got=[int(x) if isinstance(x, bool) else x for x in got], want=[int(x) for x in want_bits]), True, key='KeyboardIO.protocol'))
            return
    rep.add_bounded('device streams on the real classes', f'all bit sequences <= {max_bits} bits (FixedIO, KeyboardIO output); inputs: all <=1 byte + {"all" if tier != "quick" else "3004 sampled"} 2-byte strings; {n_scripts} random keyboard scripts x poll counts', evals, len(distinct))
    rep.samples.append(dict(bounded_case='FixedIO(b"\\xff\\x01") -> bits lsb first then IOReadOnEOF'))


# ----------------------------------------------------------------------------- main


def body(tier: str, seed: int) -> int:
    rep = Report(PROP, tier if not tier.startswith('replay') else 'quick', seed, 'proof', f'./check {PROP} --tier {tier}')
    F, S, K, B, X = _mods()
    jobs = [
        (unit_read_bit, ('FixedIO',)),
        (unit_read_bit, ('StandardIO',)),
        (unit_write_bit, ('FixedIO', 'bool')),
        (unit_write_bit, ('FixedIO', 'int01')),
        (unit_write_bit, ('StandardIO', 'bool')),
        (unit_write_bit, ('KeyboardIO', 'bool')),
        (unit_get_output, ('FixedIO',)),
        (unit_get_output, ('StandardIO',)),
        (unit_get_output, ('KeyboardIO',)),
        (unit_broken, ()),
        (unit_keyboard_queue, ('hex',)),
        (unit_keyboard_queue, ('byte',)),
        (unit_keyboard_poll_read, ()),
        (unit_scripted_source, ()),
    ]
    run_and_discharge(rep, jobs)
    for cls, meths in ((F.FixedIO, ('read_bit', 'write_bit', 'get_output')), (S.StandardIO, ('read_bit', 'write_bit', 'get_output')), (K.KeyboardIO, ('_queue_input_hex', '_queue_input_byte', '_poll', 'read_bit', 'write_bit', 'get_output')), (K.ScriptedKeyEventSource, ('next_due_event',)), (B.BrokenIO, ('read_bit', 'write_bit', 'get_output'))):
        for m in meths:
            rep.add_function(cls.__module__, f'{cls.__name__}.{m}', Engine.func_lines(getattr(cls, m)))
    rep.assume('[A] sys.stdin.read(1) returns the next character of the input stream or "" at its end; str.encode maps it to one byte; stdout.write/flush have no effect on the device state')
    rep.assume('[A] collections.deque.append/popleft behave as a FIFO; KeyEventSource.next_due_event returns None or (bool, keycode in 0..255) (interface contract, proved for ScriptedKeyEventSource)')
    rep.assume('[A] sorted(events, key=tic) in ScriptedKeyEventSource.__init__ is a stable sort (python guarantee); from_text parsing is exercised by the bounded part only')
    rep.trust('pyvc symbolic executor (home-made; python ints as 64-bit vectors with per-term size bounds that exclude wrap-around)')
    rep.trust('z3 4.x/5.x, cvc5')
    rep.notes.append('induction over the call sequence: each call preserves the ghost-tied class invariant and returns the spec bit')
    bounded(rep, tier, seed)
    return rep.finish()


if __name__ == '__main__':
    main_wrapper(PROP, body)
