"""
C05 - bit library macros compute their documented function for every operand.

Level: exploration (bounded).  The macros are FlipJump source, not Python: no contract-based verifier reaches them
(DESIGN.md, section "STL").  What is decided here: each macro's CONTRACT (destination formula mod 2^n, branch taken,
frame = every other word of memory bit-identical, the private bit cells inside the macro's own expansion excepted) is
written from its documentation block in contracts/fj/bit.py and executed on the real library assembled by the real
assembler, on the executable machine definition, over exhaustive operand tuples where they are few (every unary macro up
to n = 8, every binary one up to n = 4 quick / n = 6 thorough, the linear-cost binary ones at n = 8 thorough), sampled
above, re-executing ONE assembled instance so that stale carry / private-cell state left by an execution is seen by the
next one, and in sequential compositions of 2-4 macros on shared variables (every composable macro first and later).
"""
from __future__ import annotations

from bounded import stl
from contracts.fj import bit as bitc
from vc.common import Report, main_wrapper

PROP = 'C05'


def body(tier: str, seed: int) -> int:
    rep = Report(PROP, 'quick' if tier.startswith('replay') else tier, seed, 'exploration', f'./check {PROP} --tier {tier}')
    tier = 'quick' if tier.startswith('replay') else tier
    bitc.install()  # BitHarness: stl.startup at w=16, helper macros, private cells of the macro's own footprint exempt from the frame
    cs = bitc.contracts(tier, seed)
    thorough = tier == 'thorough'
    seqs = bitc.covering_compositions(cs, seed, per='call' if thorough else 'name')
    pool = bitc.composable(cs)
    for k in (2, 3, 4):
        seqs += stl.random_compositions(pool, k, 60 if thorough else 12, seed * 7919 + k)
    bitc.one_width_each(seqs)
    allc = cs + seqs
    bitc.order_widths(allc)
    bitc.pin_domains(allc, tier, seed)
    allc.sort(key=lambda c: -c.max_ops)  # the expensive ones first: the pool hands out one contract at a time
    stl.run_contracts(rep, allc, tier, seed, PROP)
    cap = 4096 if thorough else 256
    rep.bounded[-1]['domain'] = (
        f'{len(cs)} macro applications + {len(seqs)} sequential compositions of 2-4 of them on shared variables (every composable one first and later); '
        f'operand tuples: all of them where <= {cap} (shuffled order, consecutive executions on ONE assembled instance so that leaked state shows), '
        f'corners + crc32-seeded random beyond, as many as {8.0 if thorough else 2.5} s per (application, width) allow (2 s per composition, at least 64)'
        + ('; every operand pair at n = 8 for add, sub, xor, or, and, mov, xor_zero, swap, cmp (one width each)' if thorough else '')
        + f'; vector lengths {sorted({v.n for c in cs for v in c.vars.values()})}; widths {sorted({w for c in allc for w in (c.widths if thorough else c.widths[:1])})}'
        + ' (a base application runs at ' + ('all three' if thorough else 'ONE width, chosen by n mod 3') + ', a composition at one; w = 16 is skipped where the application does not fit in 2^16 bits)'
    )
    rep.extra['macros_under_contract'] = sorted({c.name for c in cs})
    rep.extra['compositions'] = len(seqs)
    ev = bitc.width_events()
    rep.extra['does_not_fit_in_16_bits_of_memory'] = dict(skipped_at_w16=sum(1 for e in ev if e[0] == 'skip'), executed_at_another_width_instead=sum(1 for e in ev if e[0] == 'fallback'), applications=sorted({e[3] for e in ev})[:400])
    rep.assume('[B] bounded: operand tuples exhaustive only where the product of the operand ranges is small; vector lengths and widths are the listed ones')
    rep.assume('[B] compositions: sequences of 2-4 non-jumping applications (the conditional jumps through flag-setting wrappers) on shared variables of one length, not every order')
    rep.assume('reading of the documentation that is not literal: bit.inc1 / add1 / inc1_with_carry0_jump `{carry:dst}++`, `{carry:dst} += src` taken as {carry:dst} = dst + carry [+ src] ("carry is both input and output") - see contracts/fj/bit.py')
    rep.trust('spec/machine.py as the engine (C01 relates the real engines to it); the real assembler and reader produce the image (C02, C06, C15)')
    return rep.finish()


if __name__ == '__main__':
    main_wrapper(PROP, body)
