"""
C05 - bit library macros compute their documented function for every operand.

Level: exploration (bounded).  The macros are FlipJump source, not Python: no contract-based verifier reaches them
(DESIGN.md, section "STL").  What is decided here: each macro's CONTRACT (destination formula mod 2^n, branch taken,
frame = every other word of memory bit-identical, the private bit cells inside the macro's own expansion excepted) is
written from its documentation block in contracts/fj/bit.py and executed on the real library assembled by the real
assembler, on the executable machine definition, over exhaustive operand tuples where they are few (every unary macro up
to n = 8, every binary one up to n = 4 quick / n = 6 thorough, the linear-cost binary ones at n = 8 thorough), sampled
above, re-executing ONE assembled instance so that stale carry / private-cell state left by an execution is seen by the
next one, and in sequential compositions of 2-4 macros on shared variables (every composable macro first and later).
"""
from __future__ import annotations

from bounded import stl
from contracts.fj import bit as bitc
from vc.common import Report, main_wrapper

PROP = 'C05'


def body(tier: str, seed: int) -> int:
    rep = Report(PROP, 'quick' if tier.startswith('replay') else tier, seed, 'exploration', f'./check {PROP} --tier {tier}')
    tier = 'quick' if tier.startswith('replay') else tier
    bitc.install()  # BitHarness: stl.startup at w=16, helper macros, private cells of the macro's own footprint exempt from the frame
    cs = bitc.contracts(tier, seed)
    thorough = tier == 'thorough'
    seqs = bitc.covering_compositions(cs, seed, per='call' if thorough else 'name')
    pool = bitc.composable(cs)
    for k in (2, 3, 4):
        seqs += stl.random_compositions(pool, k, 60 if thorough else 12, seed * 7919 + k)
    bitc.one_width_each(seqs)
    allc = cs + seqs
    bitc.order_widths(allc)
    bitc.pin_domains(allc, tier, seed)
    allc.sort(key=lambda c: -c.max_ops)  # the expensive ones first: the pool hands out one contract at a time
    stl.run_contracts(rep, allc, tier, seed, PROP)
    rep.extra['macros_under_contract'] = sorted({c.name for c in cs})
    rep.extra['compositions'] = len(seqs)
    ev = bitc.width_events()
    rep.extra['does_not_fit_in_16_bits_of_memory'] = dict(skipped_at_w16=sum(1 for e in ev if e[0] == 'skip'), executed_at_another_width_instead=sum(1 for e in ev if e[0] == 'fallback'), applications=sorted({e[3] for e in ev})[:400])
    rep.assume('[B] bounded: operand tuples exhaustive only where the product of the operand ranges is small; vector lengths and widths are the listed ones')
    rep.assume('[B] compositions: sequences of 2-4 non-jumping applications (the conditional jumps through flag-setting wrappers) on shared variables of one length, not every order')
    rep.assume('readings of the documentation that are not literal: bit.neg (comment says x[:n]--), bit.inc1 / add1 ({carry:dst} = dst + carry [+ src]), bit.div10.cmp_sub_10 ("> 10" read as ">= 10") - see contracts/fj/bit.py')
    rep.trust('spec/machine.py as the engine (C01 relates the real engines to it); the real assembler and reader produce the image (C02, C06, C15)')
    return rep.finish()


if __name__ == '__main__':
    main_wrapper(PROP, body)
