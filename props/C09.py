"""
C09 - library input / print / cast / buffer macros are exact inverses of the byte encoding.

Level: exploration (bounded).  The macros are FlipJump source: no contract-based verifier reaches them (DESIGN.md,
section "STL").  What is decided here: each macro's CONTRACT - the value stored is the one the input stream spells
(bits, bytes, ASCII-hex digits, signed / unsigned decimal numerals with the documented terminator, error branch and
number of input bits consumed), the bytes printed are the documented rendering of the variable's value (raw, hex
digits with prefix and case, decimal with sign, no leading zeros), casts preserve the value, buffer helpers move exactly
the documented bytes, and every other word of memory is bit-identical afterwards - is written from the macro's
documentation line in contracts/fj/io.py and executed on the real library assembled by the real assembler, on the
executable machine definition, re-executing ONE assembled instance so that state left by one numeral (a sign flag, a
digit buffer, a zero flag) is seen by the next one.
"""
from __future__ import annotations

from bounded import stl_io
from contracts.fj import io as ioc
from vc.common import Report, main_wrapper

PROP = 'C09'

DESCR = {
    'input-raw': 'every byte value (bits lsb first) with a trailer after the documented bits; vectors of 1-4 (8) bytes, random; input ending inside a byte',
    'input-ascii-hex': 'every byte value for one digit; for n digits all pairs over 22 valid + 20 invalid bytes (n=2), random valid strings and an invalid byte at every position (n up to 8/16); input ending early',
    'input-decimal': 'n=1,2: every numeral 0..59 / 0..299(699) with both signs, every byte value as stop byte and as first byte; larger n: decimal/binary corner values, overflow beyond 16^n, leading zeros, empty numeral, sign alone, "+", invalid byte at every position, missing terminator (end of input); negative numerals followed by positive ones on the same instance',
    'print-raw': 'all values for <= 8 bits, corners + random above; strings with NUL at every position',
    'print-hex': 'all values for n <= 2 hexes / 8 bits, corners (single digits, inner zero digits, extremes, most negative) + random above; every prefix / case option',
    'print-decimal': 'all values for n <= 2 hexes / 8 bits; above: 0, 10^k and k*10^k +-1, 2^k +-1, extremes, most negative, the windows around 10*2^(n-q); negative followed by non-negative',
    'casts': 'all values for <= 8 bits (ascii2*: every byte value), corners + random above',
    'constants': 'constant arguments incl. values beyond one byte; executed twice',
    'buffers': 'lines / counts 0..6 (8, 10, 12) at random offsets inside a 12-byte buffer of random bytes, both terminators, bytes 0x01..0xff as content, whole buffer compared; missing terminator',
    'roundtrip': 'input macro followed by the matching print macro in ONE program',
}


def body(tier: str, seed: int) -> int:
    rep = Report(PROP, 'quick' if tier.startswith('replay') else tier, seed, 'exploration', f'./check {PROP} --tier {tier}')
    cs = ioc.contracts('quick' if tier.startswith('replay') else tier)
    stl_io.run_io_contracts(rep, cs, seed, PROP, DESCR)
    rep.extra['macros_not_under_contract'] = ioc.NOT_COVERED
    for st in stl_io.stale_contracts(cs):
        rep.undecide(f'obligation=bounded:{st.split(":")[0]}.contract reason=stale-contract ({st})')
    for nm in stl_io.uncovered_macros(cs, ioc.ANCHORED, ioc.NOT_COVERED):
        rep.undecide(f'obligation=bounded:{nm}.contract reason=no-contract (a def of the anchored library files has neither a contract nor a stated reason)')
    rep.assume('[B] bounded: values exhaustive only for n <= 2 hexes / 8 bits; vector lengths, buffer sizes, input strings and widths are the listed ones')
    rep.assume('frame: every word other than the destinations, the machine\'s IO bits, the private data cells of the macro instance under test and (buffer helpers) the documented pointer globals of stl.ptr_init is bit-identical before and after')
    rep.trust('spec/machine.py as the engine (C01 relates the real engines to it); the real assembler and reader produce the image (C02, C06, C15)')
    return rep.finish()


if __name__ == '__main__':
    main_wrapper(PROP, body)
