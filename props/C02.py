"""
C02 - assembled image equals the denotation of the macro-free source.
[D] address bookkeeping of the preprocessor (insert_label, align_current_address = `pad`, insert_reserve),
    assembler.validate_addresses / assert_address_in_memory (rejection of misaligned / out-of-range layouts),
    the writer's overlap rejection (Writer._is_collision, the two validate loops, add_segment - shared with C06).
[B] random primitive programs through the real assembler and reader against the denotation; every wflip
    statement executed from its own address on the machine definition (flips exactly the set bits of v once each in
    popcount(v) ops, arrives at r, never runs through user statements).  The wflip chain table invariant
    (BinaryData.insert_wflip_ops) is not under contract (dict-of-tuple keys): bounded only.
"""
from __future__ import annotations

from typing import List

from bounded import asm
from props import C06, asm_units
from vc.common import Report, main_wrapper, run_and_discharge

PROP = 'C02'


def body(tier: str, seed: int) -> int:
    rep = Report(PROP, 'quick' if tier.startswith('replay') else tier, seed, 'proof', f'./check {PROP} --tier {tier}')
    th = tier == 'thorough'
    W, C, X = C06.CW.mods()
    jobs: List[tuple] = [(asm_units.unit_insert_label, ()), (C06.unit_is_collision, ()), (C06.unit_validate, ('addr',)), (C06.unit_validate, ('data',))]
    jobs += [(asm_units.unit_validate_addresses, (w,)) for w in C06.WIDTHS]
    jobs += [(asm_units.unit_align, (w, k)) for w in ((8, 64) if not th else C06.WIDTHS) for k in (1, 2, 3, 8)]
    jobs += [(asm_units.unit_reserve_segment, (64,))]
    jobs += [(C06.unit_add_segment, (w, vi)) for w, vi in (((16, 0), (64, 2)) if not th else [(w, vi) for w in C06.WIDTHS for vi in range(4)])]
    results = run_and_discharge(rep, jobs)
    for r in results:
        C06._replay(rep, r, W)
    rep.add_function('flipjump.assembler.preprocessor', 'PreprocessorData.insert_label / align_current_address / insert_reserve', '', 'labels as symbolic ids; pad k in {1,2,3,8}')
    rep.add_function('flipjump.assembler.assembler', 'validate_addresses, assert_address_in_memory', '', 'w in {8,16,32,64}')
    rep.add_function('flipjump.fjm.fjm_writer', 'Writer._is_collision, _validate_segment_addresses_not_overlapping, _validate_segment_data_not_overlapping, add_segment', '', 'shared with C06')
    rep.assume('[B only] resolve_macro_aux primitive branches, BinaryData.insert_wflip_ops / get_wflip_spot / insert_padding / insert_new_segment / insert_reserve_bits, labels_resolve: end-to-end against the denotation (bounded)')
    rep.trust('pyvc symbolic executor; z3; the reference denotation spec/fjasm.py')
    asm.run_primitive(rep, 12000 if th else 700, seed)
    return rep.finish()


if __name__ == '__main__':
    main_wrapper(PROP, body)
