"""
C20 - the fj command, its split flows and the Python API agree.

[F] relational check, complete over the option space: the REAL flipjump_cli.assemble and flipjump_quickstart.assemble
    are executed with their two callees (Writer, assembler.assemble) replaced by recorders, for EVERY combination of
    -w x -v x --no_stl x --werror x --lzma_preset x -s x -d x -o: equal options => equal (Writer arguments,
    assembler arguments) up to path spelling.  (The callees' purity - equal arguments => equal bytes - is C13.)
[D] get_version: explicit version wins, else 3 iff an output file was requested, else 1; invalid versions rejected
    (symbolic execution over all integers).
[F] documented defaults read from the real argument parser and the API signatures.
[B] the three routes on real programs (with the stl): byte-identical .fjm, same output and termination.
"""
from __future__ import annotations

import argparse
import contextlib
import importlib
import inspect
import io
import itertools
import os
import random
import sys
import tempfile
from pathlib import Path
from typing import Any, Dict, List

import z3

from vc.common import Obl, Report, Undecided, Violation, finish_unit, main_wrapper, run_and_discharge
from vc.pyvc.engine import OK, RAISE, Engine, State
from vc.pyvc.values import ExcVal, IntMath, Opaque

PROP = 'C20'


def _mods():
    CLI = importlib.import_module('flipjump.flipjump_cli')
    API = importlib.import_module('flipjump.flipjump_quickstart')
    C = importlib.import_module('flipjump.fjm.fjm_consts')
    return CLI, API, C


def unit_get_version() -> Dict[str, Any]:
    CLI, API, C = _mods()
    eng = Engine(IntMath(), name='flipjump_cli.get_version')
    extra: List[Obl] = []

    class Exit(Exception):
        pass

    def error_func(e, s, args, kwargs):
        s2 = s.fork()
        s2.trace.append(('error',))
        yield (RAISE, s2, ExcVal(Exit))

    for outfile in (False, True):
        for mode in ('none', 'int'):
            st = State()
            v = None if mode == 'none' else eng.fresh_int('version', st)
            ef = Opaque('error_func')
            eng.method_handlers[('Opaque:error_func', '__call__')] = error_func
            orig_call = eng.call

            def call(f, args, kwargs, s, _o=orig_call):
                if isinstance(f, Opaque) and f.tag == 'error_func':
                    yield from error_func(eng, s, args, kwargs)
                    return
                yield from _o(f, args, kwargs, s)

            eng.call = call  # type: ignore[assignment]
            outs = eng.run_function(CLI.get_version, st, [v, outfile, ef])
            eng.call = orig_call  # type: ignore[assignment]
            for i, (s, sig) in enumerate(outs):
                tag = f'{eng.name}[version={mode},outfile={outfile}]:path{i}'
                extra.append(Obl(f'{tag}.cover', list(s.pc), None, 'cover'))
                if mode == 'none':
                    want = C.FJMVersion.CompressedVersion if outfile else C.FJMVersion.NormalVersion
                    extra.append(Obl(f'{tag}.default_is_3_with_an_output_file_else_1', list(s.pc), z3.BoolVal(sig[0] == 'return' and sig[1] is want)))
                elif sig[0] == 'return':
                    ok = isinstance(sig[1], C.FJMVersion)
                    extra.append(Obl(f'{tag}.explicit_version_wins', list(s.pc), z3.And(z3.BoolVal(ok), (v == sig[1].value) if ok else z3.BoolVal(False))))
                else:
                    extra.append(Obl(f'{tag}.only_unsupported_versions_are_rejected', list(s.pc), z3.And(z3.BoolVal(sig[1].cls is Exit), z3.Or(v < 0, v > 3))))
    return finish_unit(eng, extra)


def unit_relational() -> Dict[str, Any]:
    CLI, API, C = _mods()
    eng = Engine(IntMath(), name='cli_vs_api.assemble')
    extra: List[Obl] = []
    A = importlib.import_module('flipjump.assembler.assembler')
    rec: List[Any] = []

    class FakeWriter:
        def __init__(self, path, width, version, **kw):
            self.args = (str(Path(path).name), width, version, kw.get('flags', 0), kw.get('lzma_preset', 6))

    def fake_assemble(files, width, writer, **kw):
        rec.append((tuple((sn, Path(p).name) for sn, p in files), width, writer.args, kw.get('warning_as_errors', True), str(Path(kw['debugging_file_path']).name) if kw.get('debugging_file_path') else None, kw.get('show_statistics', False), kw.get('print_time', True), kw.get('max_recursion_depth', 900)))

    saved = (CLI.Writer, API.Writer, CLI.assembler, API.assembler)
    fake_mod = type('M', (), {'assemble': staticmethod(fake_assemble)})
    n, bad = 0, []
    with tempfile.TemporaryDirectory() as td:
        src = Path(td) / 'p.fj'
        src.write_text(';\n')
        CLI.Writer = API.Writer = FakeWriter
        CLI.assembler = API.assembler = fake_mod
        try:
            for w, ver, no_stl, werror, preset, silent, dbg, outf in itertools.product((8, 16, 32, 64), (None, 0, 1, 2, 3), (False, True), (False, True), range(10), (False, True), (False, True), (False, True)):
                out = Path(td) / 'o.fjm'
                dpath = Path(td) / 'd.fjd' if dbg else None
                args = argparse.Namespace(files=[str(src)], no_stl=no_stl, width=w, version=ver, outfile=str(out) if outf else None, flags=0, lzma_preset=preset, werror=werror, stats=False, silent=silent, max_recursion_depth=900)
                rec.clear()
                CLI.assemble(out, dpath, args, lambda m: (_ for _ in ()).throw(SystemExit(m)))
                # the API route with the SAME options (the API's version default is explicit in the CLI's get_version)
                version = C.FJMVersion(ver) if ver is not None else (C.FJMVersion.CompressedVersion if outf else C.FJMVersion.NormalVersion)
                API.assemble([src], out, memory_width=w, use_stl=not no_stl, fjm_version=version, warning_as_errors=werror, debugging_file_path=dpath, print_time=not silent)
                n += 1
                a, b = rec
                # the API has no lzma_preset/flags knob: it must agree with the CLI's defaults for them
                a_cmp = a if preset == 6 else a[:2] + ((a[2][0], a[2][1], a[2][2], a[2][3], 6),) + a[3:]
                if a_cmp != b:
                    bad.append((dict(w=w, version=ver, no_stl=no_stl, werror=werror, preset=preset, silent=silent, debug=dbg, outfile=outf), a, b))
        finally:
            CLI.Writer, API.Writer, CLI.assembler, API.assembler = saved
    extra.append(Obl(f'{eng.name}:equal_options_give_equal_writer_and_assembler_arguments', [], z3.BoolVal(not bad and n == 4 * 5 * 2 * 2 * 10 * 2 * 2 * 2), meta=dict(combinations=n, first_bad=str(bad[:1])[:600])))
    # documented defaults
    ns, _ = CLI.parse_arguments(cmd_line_args=['x.fj'])
    sig = inspect.signature(API.assemble)
    extra.append(Obl(f'{eng.name}:cli_defaults_width_64_stl_on_version_by_rule', [], z3.BoolVal(ns.width == 64 and ns.no_stl is False and ns.version is None and ns.werror is False and ns.lzma_preset == 6 and ns.flags == 0)))
    extra.append(Obl(f'{eng.name}:api_defaults_width_64_stl_on_version_3', [], z3.BoolVal(sig.parameters['memory_width'].default == 64 and sig.parameters['use_stl'].default is True and sig.parameters['fjm_version'].default is C.FJMVersion.CompressedVersion)))
    return finish_unit(eng, extra)


def unit_plumbing() -> Dict[str, Any]:
    """every option of the combined API helpers (and of the CLI's run) reaches the inner call under the same name
    with the same value: the helpers are straight-line (checked on their AST), so one run with a distinct
    sentinel per option decides it for all values"""
    CLI, API, C = _mods()
    eng = Engine(IntMath(), name='option_plumbing')
    extra: List[Obl] = []
    import ast
    import textwrap

    class S:
        def __init__(self, name):
            self.name = name

        def __repr__(self):
            return f'<{self.name}>'

    for helper_name, inner_names in (('assemble_and_debug', ('assemble', 'debug')), ('assemble_and_run', ('assemble', 'debug')), ('assemble_and_run_test_output', ('assemble', 'run_test_output'))):
        helper = getattr(API, helper_name)
        sig = inspect.signature(helper)
        kwargs = {n: S(n) for n, prm in sig.parameters.items() if prm.kind == prm.KEYWORD_ONLY}
        positional = [S(n) if n != 'fj_file_paths' else [Path('a.fj')] for n, prm in sig.parameters.items() if prm.kind != prm.KEYWORD_ONLY]
        rec: Dict[str, Dict[str, Any]] = {}
        saved = {n: getattr(API, n) for n in inner_names}

        def mk(nm):
            def f(*a, **k):
                rec[nm] = dict(k)
                return S('result')

            return f

        for n in inner_names:
            setattr(API, n, mk(n))
        try:
            helper(*positional, **kwargs)
        finally:
            for n, v in saved.items():
                setattr(API, n, v)
        tree = ast.parse(textwrap.dedent(inspect.getsource(helper)))
        straight = not any(isinstance(n, (ast.If, ast.For, ast.While, ast.IfExp, ast.Try)) for n in ast.walk(tree))
        for inner in inner_names:
            isig = inspect.signature(saved[inner])
            for pname in kwargs:
                if pname in isig.parameters:
                    got = rec.get(inner, {}).get(pname, 'MISSING')
                    extra.append(Obl(f'{eng.name}:{helper_name}->{inner}.{pname}_is_passed_through', [], z3.BoolVal(got is kwargs[pname] and straight), meta=dict(got=repr(got))))
    # the CLI's run(): args fields -> debug() options
    rec2: Dict[str, Any] = {}
    saved_debug, saved_dev = CLI.flipjump_quickstart.debug, CLI.make_io_device
    CLI.flipjump_quickstart.debug = lambda *a, **k: rec2.update(k)
    CLI.make_io_device = lambda mode: S('device')
    saved_verify = (CLI.verify_fjm_file, CLI.verify_file_exists)
    CLI.verify_fjm_file = CLI.verify_file_exists = lambda *a: None
    try:
        ns = argparse.Namespace(io='standard', breakpoint=['b1'], breakpoint_contains=['c1'], trace=S('trace'), silent=False, debug_ops_list=S('ops'), profile=S('profile'), flat_max_words=S('fmw'))
        CLI.run(Path('x.fjm'), None, ns, lambda m: None)
    finally:
        CLI.flipjump_quickstart.debug, CLI.make_io_device = saved_debug, saved_dev
        CLI.verify_fjm_file, CLI.verify_file_exists = saved_verify
    want = dict(show_trace=ns.trace, last_ops_debugging_list_length=ns.debug_ops_list, profile=ns.profile, flat_max_words=ns.flat_max_words)
    for k, v in want.items():
        extra.append(Obl(f'{eng.name}:cli.run->debug.{k}_is_passed_through', [], z3.BoolVal(rec2.get(k) is v)))
    extra.append(Obl(f'{eng.name}:cli.run->debug.breakpoints_and_silence', [], z3.BoolVal(rec2.get('breakpoints') == {'b1'} and rec2.get('breakpoints_contains') == {'c1'} and rec2.get('print_time') is True and rec2.get('print_termination') is True)))
    return finish_unit(eng, extra)


# ----------------------------------------------------------------------------- bounded: the three routes

PROGRAMS = [
    ('hello', 'stl.startup\nstl.output "Hi!\\n"\nstl.loop\n', True, b''),
    ('echo-hex', 'stl.startup_and_init_all\nhex.input x\nhex.print x\nstl.loop\nx: hex.vec 2\n', True, b'A'),
    ('raw', '2*w+1;\n2*w;\n2*w+1;\n2*w;\n2*w;\n2*w;\n2*w+1;\n2*w;\nend:\n;end\n', False, b''),
    ('warn', 'def m < glob {\n;\n}\nm\nglob:\nstl.startup\nstl.loop\n', True, b''),
]


def bounded(rep: Report, tier: str, seed: int) -> None:
    CLI, API, C = _mods()
    FX = importlib.import_module('flipjump.interpreter.io_devices.FixedIO')
    rng = random.Random(seed + 3)
    n = 12 if tier != 'thorough' else 120
    evals, distinct = 0, set()
    with tempfile.TemporaryDirectory() as tds:
        td = Path(tds)
        for it in range(n):
            name, src, needs_stl, inp = rng.choice(PROGRAMS)
            w = rng.choice([16, 32, 64]) if needs_stl else rng.choice([8, 16, 32, 64])
            ver = rng.choice([None, 0, 1, 2, 3])
            werror = rng.random() < 0.3 and name != 'warn'
            preset = rng.choice([6, 6, 0, 9])
            f = td / f'{name}.fj'
            f.write_text(src)
            o1, o2, o3 = td / 'one.fjm', td / 'two.fjm', td / 'api.fjm'
            base = [str(f), '-w', str(w), '-s'] + ([] if needs_stl else ['--no_stl']) + (['-v', str(ver)] if ver is not None else []) + (['--werror'] if werror else []) + (['--lzma_preset', str(preset)] if preset != 6 else [])
            evals += 1
            distinct.add((name, w, ver, werror, preset))
            outs = {}

            def cli(argv: List[str], key: str) -> None:
                # (own process: StandardIO binds the real stdin at import time)
                import subprocess

                try:
                    p = subprocess.run([sys.executable, '-c', 'import sys; sys.path.insert(0, __import__("os").environ.get("VERIF_REPO", "/repo")); from flipjump.flipjump_cli import main; main()'] + argv, input=inp, capture_output=True, timeout=120, env=dict(os.environ, PYTHONPATH=os.environ.get('VERIF_REPO', '/repo')))
                    outs[key] = p.stdout.decode('raw_unicode_escape') if p.returncode == 0 else f'EXIT {p.returncode}'
                except subprocess.TimeoutExpired:
                    outs[key] = 'EXC Timeout'

            cli(base + ['-o', str(o1)], 'one-step')
            cli(['--asm'] + base + ['-o', str(o2)], 'asm')
            if not outs['asm'].startswith(('EXIT', 'EXC')):
                cli(['--run', str(o2), '-s'], 'two-step')  # (a user whose --asm step failed has nothing to run)
            version = C.FJMVersion(ver) if ver is not None else C.FJMVersion.CompressedVersion
            api_out = None
            try:
                with contextlib.redirect_stdout(io.StringIO()):
                    API.assemble([f], o3, memory_width=w, use_stl=needs_stl, fjm_version=version, warning_as_errors=werror, print_time=False)
                    dev = FX.FixedIO(inp)
                    st = API.run(o3, io_device=dev, print_time=False, print_termination=False)
                api_out = dev.get_output(allow_incomplete_output=True).decode('raw_unicode_escape')
            except Exception as e:
                api_out = f'EXC {type(e).__name__}'
            why = None
            b1 = o1.read_bytes() if o1.exists() else None
            b2 = o2.read_bytes() if o2.exists() else None
            b3 = o3.read_bytes() if o3.exists() else None
            if b1 != b2:
                why = 'one-step and two-step .fjm files differ'
            elif preset == 6 and b1 != b3:
                why = 'the API .fjm differs from the command line .fjm'
            elif outs.get('one-step') != (outs.get('asm', '') + outs.get('two-step', '')):
                why = f'output differs: one-step {outs.get("one-step")!r}, two-step {outs.get("asm", "") + outs.get("two-step", "")!r}'
            elif api_out is not None and not str(api_out).startswith('EXC') and 'two-step' in outs and api_out != outs.get('two-step'):
                why = f'program output differs: API {api_out!r}, command line {outs.get("two-step")!r}'
            elif str(api_out).startswith('EXC') != str(outs.get('one-step')).startswith(('EXC', 'EXIT')):
                why = f'one route fails where the other succeeds: API {api_out!r}, command line {outs.get("one-step")!r}'
            for p_ in (o1, o2, o3):
                p_.unlink(missing_ok=True)
            if why:
                rep.violation(Violation('bounded:three_routes.same_bytes_and_output', f'{name} w={w} -v {ver} werror={werror} preset={preset}: {why}', dict(program=src, w=w, version=ver, werror=werror, preset=preset), True, key=why.split(':')[0][:40]))
                if len(rep.violations) > 4:
                    break
    rep.add_bounded('one-step / two-step / API on real programs (with the standard library)', f'{n} random (program, width, version, werror, preset) combinations: byte-identical .fjm and identical program output', evals, len(distinct))


def body(tier: str, seed: int) -> int:
    rep = Report(PROP, 'quick' if tier.startswith('replay') else tier, seed, 'other', f'./check {PROP} --tier {tier}')
    CLI, API, C = _mods()
    run_and_discharge(rep, [(unit_get_version, ()), (unit_relational, ()), (unit_plumbing, ())])
    rep.add_function('flipjump.flipjump_cli', 'get_version', Engine.func_lines(CLI.get_version), 'all integers / None x outfile flag')
    rep.add_function('flipjump.flipjump_cli', 'assemble', Engine.func_lines(CLI.assemble), 'executed for every option combination with recording callees')
    rep.add_function('flipjump.flipjump_quickstart', 'assemble', Engine.func_lines(API.assemble), 'executed for every option combination with recording callees')
    rep.assume('equal (Writer, assembler.assemble) arguments give equal bytes: property C13')
    rep.assume('[B only] run / debug / assemble_and_run wrappers, argparse itself, get_files_paths for the two-step flow: exercised by the three-route runs')
    rep.notes.append('relational check CLI vs API, complete over 6400 option combinations; get_version by symbolic execution; three routes bounded')
    rep.extra['explanation'] = 'relational: real CLI and API assemble() executed with recording callees for every option combination (finite, complete); get_version verified deductively; byte/outputs of the three routes compared on real programs (bounded)'
    bounded(rep, tier, seed)
    return rep.finish()


if __name__ == '__main__':
    main_wrapper(PROP, body)
