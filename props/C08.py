"""
C08 - pointer, stack and call/return macros address exactly the pointed cell.

Level: exploration (bounded).  The macros are FlipJump source: no contract-based verifier reaches them (DESIGN.md,
section "STL").  What is decided here: every documented macro of stl/ptrlib.fj, stl/hex/pointers/*.fj and
stl/bit/pointers.fj has a contract written from its documentation line (contracts/fj/pointers.py) and is executed on
the real library, assembled by the real assembler, on the executable machine definition:

  * dereferencing macros: pointer poked with the address of every cell of a near and of a far buffer (every ordered
    pair of cells consecutively on ONE assembled instance), all cells refilled, values cycled; compared: operands,
    every bit of every buffer cell, pointer (unchanged / moved by whole cells), whole-memory frame;
  * ptr_jump: table of marker ops, the marker reached;
  * pointer arithmetic: inc / dec / add / sub / index (negative and full-range indices) mod 2^w;
  * stack macros one by one at every depth over stale cells, then random balanced push/pop programs and random
    nestings of stl.call/stl.return and stl.fcall/stl.fret, re-executed from `again` with fresh values;
  * random sequences of dereferencing macros on shared buffers (state left in to_flip/to_jump by one macro is what
    the next one starts from).
"""

from __future__ import annotations

from typing import List

from bounded import stl_ptr
from contracts.fj import pointers as P
from vc.common import Report, main_wrapper

PROP = 'C08'


def programs(tier: str, seed: int) -> List[stl_ptr.Program]:
    return (
        P.hex_deref_programs()
        + P.bit_deref_programs()
        + P.jump_programs()
        + P.arith_programs()
        + P.stack_programs()
        + P.sequence_programs(tier, seed)
        + P.mixed_programs(tier, seed)
    )


def body(tier: str, seed: int) -> int:
    rep = Report(PROP, 'quick' if tier.startswith('replay') else tier, seed, 'exploration', f'./check {PROP} --tier {tier}')
    t = 'quick' if tier.startswith('replay') else tier
    ps = programs(t, seed)
    stl_ptr.run_programs(rep, ps, t, seed, PROP, widths=lambda p: p.widths)
    rep.extra['not_under_contract'] = P.NOT_COVERED
    rep.assume(
        '[B] bounded: buffers of 8 (near) + 4 (far segment) cells, a 12-cell stack for the single applications, vector lengths n <= 6, '
        'random programs of the listed sizes; widths 64 and 32 (bit namespace also 16, there with stl.startup + bit.pointers.ptr_init)'
    )
    rep.assume(
        'cells pointed to by the reading macros hold a hex / byte / bit value with first word 0 (what hex.vec / bit.vec declare); '
        'the flip / wflip macros are run on cells holding arbitrary words'
    )
    rep.trust(
        'spec/machine.py as the engine (C01 relates the real engines to it); the real assembler and reader produce the image (C02, C06, C15)'
    )
    return rep.finish()


if __name__ == '__main__':
    main_wrapper(PROP, body)
