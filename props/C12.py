"""
C12 - constant expressions evaluate as unbounded-integer arithmetic.

[D] operator table: every entry of op_string_to_function is the operator of the property's list (builtins by
    identity - [A] operator.add is +, ...; lambdas and _pow by symbolic execution over mathematical integers);
[D] the three evaluation paths apply the table function inside a handler that converts every exception to
    FlipJumpExprException (syntactic guard obligation on the real AST);
[F] grammar: from the real sly tables (built from FJParser as it is): every (state, lookahead) in which a completed
    binary/unary/ternary expression item meets an operator token resolves (shift / reduce / error) as the
    precedence list of the property prescribes; no unresolved conflict; every expr_ production's action builds
    (operator string, operands in source order) - finite, complete;
[B] literals and end-to-end values through the assembler (all operator pairs / triples, random deeper trees,
    every partition of identifiers into constants / parameters / labels).
"""
from __future__ import annotations

import ast
import importlib
import inspect
import itertools
import operator
import random
import subprocess
import sys
import tempfile
import textwrap
from pathlib import Path
from typing import Any, Dict, List, Tuple

import z3

from vc.common import Obl, Report, Undecided, Violation, finish_unit, main_wrapper, run_and_discharge
from vc.pyvc.engine import OK, RAISE, Engine, State
from vc.pyvc.values import ExcVal, IntMath

PROP = 'C12'

# the property's operator list, highest precedence last (as sly's precedence tuple is written)
SPEC_PRECEDENCE = [
    ('right', ['?', ':']),
    ('left', ['LOR']),
    ('left', ['LAND']),
    ('left', ['|']),
    ('left', ['^']),
    ('nonassoc', ['<', '>', 'LE', 'GE']),
    ('left', ['EQ', 'NEQ']),
    ('left', ['&']),
    ('left', ['SHL', 'SHR']),
    ('left', ['+', '-']),
    ('left', ['*', '/', '%']),
    ('right', ['#', 'UMINUS', 'UNOT']),
    ('right', ['POW']),
]
TOKEN_OP = {'+': '+', '-': '-', '*': '*', '/': '/', '%': '%', 'POW': '**', 'SHL': '<<', 'SHR': '>>', '^': '^', '|': '|', '&': '&', 'LAND': '&&', 'LOR': '||', '<': '<', '>': '>', 'LE': '<=', 'GE': '>=', 'EQ': '==', 'NEQ': '!=', '#': '#', '~': '~', '?': '?:'}


def _mods():
    E = importlib.import_module('flipjump.assembler.inner_classes.expr')
    P = importlib.import_module('flipjump.assembler.fj_parser')
    X = importlib.import_module('flipjump.utils.exceptions')
    return E, P, X


# ----------------------------------------------------------------------------- [D] operator table


def unit_operator_table() -> Dict[str, Any]:
    E, P, X = _mods()
    table = E.op_string_to_function
    eng = Engine(IntMath(), name='expr.op_string_to_function')
    extra: List[Obl] = []
    builtin = {'+': operator.add, '-': operator.sub, '*': operator.mul, '/': operator.floordiv, '%': operator.mod, '<<': operator.lshift, '>>': operator.rshift, '^': operator.xor, '|': operator.or_, '&': operator.and_}
    want_ops = set(builtin) | {'**', '&&', '||', '#', '~', '?:', '<', '>', '<=', '>=', '==', '!='}
    extra.append(Obl(f'{eng.name}:exactly_the_documented_operator_set', [], z3.BoolVal(set(table) == want_ops)))
    for op, fn in builtin.items():
        extra.append(Obl(f'{eng.name}:[{op}]_is_the_python_integer_operator', [], z3.BoolVal(table.get(op) is fn)))
    a, b, c = z3.Ints('a b c')
    B = lambda t: z3.If(t, z3.IntVal(1), z3.IntVal(0))  # noqa: E731
    bitlen = z3.Function('bit_length', z3.IntSort(), z3.IntSort())
    spec = {
        '&&': (2, B(z3.And(a != 0, b != 0))), '||': (2, B(z3.Or(a != 0, b != 0))), '~': (1, -a - 1), '?:': (3, z3.If(a != 0, b, c)),
        '<': (2, B(a < b)), '>': (2, B(a > b)), '<=': (2, B(a <= b)), '>=': (2, B(a >= b)), '==': (2, B(a == b)), '!=': (2, B(a != b)), '#': (1, bitlen(a)),
    }
    eng.method_handlers[('ArithRef', 'bit_length')] = lambda e, st, recv, args, kw: iter([(OK, st, bitlen(recv))])
    for op, (arity, want) in spec.items():
        fn = table.get(op)
        if fn is None:
            continue
        st = State()
        try:
            outs = eng.run_function(fn, st, [a, b, c][:arity])
        except Undecided as u:
            raise Undecided(f'operator {op}: {u}')
        for i, (s, sig) in enumerate(outs):
            ok = sig[0] == 'return'
            extra.append(Obl(f'{eng.name}:[{op}].path{i}.never_raises', list(s.pc), z3.BoolVal(ok)))
            if ok:
                got = sig[1]
                got = B(got) if isinstance(got, z3.BoolRef) else eng.T.lift(got)
                extra.append(Obl(f'{eng.name}:[{op}].path{i}.value_is_the_documented_operator', list(s.pc), got == want))
                extra.append(Obl(f'{eng.name}:[{op}].path{i}.result_is_an_int_not_a_bool', list(s.pc), z3.BoolVal(not isinstance(sig[1], (bool, z3.BoolRef)))))
    # ** : negative exponents are rejected with the expression exception, otherwise base ** exp
    POW = z3.Function('pow', z3.IntSort(), z3.IntSort(), z3.IntSort())
    orig_binop = eng.binop

    def binop(op_, x, y, st):
        if isinstance(op_, ast.Pow):
            yield (OK, st, POW(eng.T.lift(x), eng.T.lift(y)))
            return
        yield from orig_binop(op_, x, y, st)

    eng.binop = binop  # type: ignore[assignment]
    st = State()
    outs = eng.run_function(table['**'], st, [a, b])
    for i, (s, sig) in enumerate(outs):
        if sig[0] == 'raise':
            extra.append(Obl(f'{eng.name}:[**].path{i}.rejects_only_negative_exponents_with_the_expression_error', list(s.pc), z3.And(b < 0, z3.BoolVal(sig[1].cls is X.FlipJumpExprException))))
        else:
            extra.append(Obl(f'{eng.name}:[**].path{i}.value_is_base_to_the_exp', list(s.pc), z3.And(b >= 0, eng.T.lift(sig[1]) == POW(a, b))))
    return finish_unit(eng, extra)


# ----------------------------------------------------------------------------- [D] guards of the table calls


def _table_call_guards(fn: Any, exc_cls_name: str) -> List[Tuple[str, bool]]:
    """for every call of op_string_to_function[...] in fn: is it lexically inside a try whose handlers catch
    Exception (or everything) and whose handler bodies raise `exc_cls_name` (re-raising that class is fine)?"""
    src = textwrap.dedent(inspect.getsource(fn))
    tree = ast.parse(src)
    res = []

    def is_table_call(n: ast.AST) -> bool:
        return isinstance(n, ast.Call) and isinstance(n.func, ast.Subscript) and isinstance(n.func.value, ast.Name) and n.func.value.id == 'op_string_to_function'

    def converting(t: ast.Try) -> bool:
        catches_all = False
        for h in t.handlers:
            names = []
            if h.type is None:
                names = ['BaseException']
            elif isinstance(h.type, ast.Name):
                names = [h.type.id]
            elif isinstance(h.type, ast.Tuple):
                names = [e.id for e in h.type.elts if isinstance(e, ast.Name)]
            raises_ok = any(isinstance(x, ast.Raise) and (x.exc is None and exc_cls_name in names or (isinstance(x.exc, ast.Call) and isinstance(x.exc.func, ast.Name) and x.exc.func.id == exc_cls_name)) for x in ast.walk(ast.Module(body=h.body, type_ignores=[])))
            if not raises_ok:
                return False
            if 'Exception' in names or 'BaseException' in names:
                catches_all = True
                break
        return catches_all

    def walk(n: ast.AST, guarded: bool) -> None:
        if isinstance(n, ast.Try):
            g = guarded or converting(n)
            for x in n.body:
                walk(x, g)
            for h in n.handlers:
                for x in h.body:
                    walk(x, guarded)
            for x in n.orelse + n.finalbody:
                walk(x, guarded)
            return
        if is_table_call(n):
            res.append((f'line{n.lineno}', guarded))
        for c in ast.iter_child_nodes(n):
            walk(c, guarded)

    walk(tree, False)
    return res


def unit_eval_paths_guarded() -> Dict[str, Any]:
    E, P, X = _mods()
    eng = Engine(IntMath(), name='expr.evaluation_paths')
    extra: List[Obl] = []
    for fn, nm in ((E.Expr.eval_new, 'Expr.eval_new'), (E.Expr.exact_eval, 'Expr.exact_eval'), (E.get_minimized_expr, 'get_minimized_expr')):
        sites = _table_call_guards(fn, 'FlipJumpExprException')
        extra.append(Obl(f'{eng.name}:{nm}.applies_the_operator_table', [], z3.BoolVal(len(sites) >= 1)))
        for i, (where, ok) in enumerate(sites):
            extra.append(Obl(f'{eng.name}:{nm}.site{i}.every_exception_of_the_operator_becomes_the_expression_error', [], z3.BoolVal(ok), meta=dict(site=where)))
    return finish_unit(eng, extra)


# ----------------------------------------------------------------------------- [F] the grammar tables


def unit_lalr() -> Dict[str, Any]:
    E, P, X = _mods()
    eng = Engine(IntMath(), name='FJParser.grammar')
    extra: List[Obl] = []
    parser = P.FJParser
    g, t = parser._grammar, parser._lrtable
    extra.append(Obl(f'{eng.name}:no_unresolved_conflicts', [], z3.BoolVal(not t.rr_conflicts and all(res in ('shift', 'reduce') for _, _, res in t.sr_conflicts))))
    # precedence table equals the property's list
    level = {}
    for i, (assoc, toks) in enumerate(SPEC_PRECEDENCE):
        for tk in toks:
            level[tk] = (assoc, i + 1)
    got = {k: v for k, v in g.Precedence.items() if k != 'LEADING_ID'}
    extra.append(Obl(f'{eng.name}:precedence_levels_as_documented', [], z3.BoolVal({k: (a, l) for k, (a, l) in got.items()} == level), meta=dict(got=str(got))))
    # productions: operator productions and their precedence
    prods = list(g.Productions)
    op_prods = {}
    for p in prods:
        if p.name != 'expr_':
            continue
        syms = list(p.prod)
        if len(syms) == 3 and syms[0] == 'expr_' and syms[2] == 'expr_':
            op_prods[p.number] = ('bin', syms[1])
        elif len(syms) == 2 and syms[1] == 'expr_':
            op_prods[p.number] = ('un', syms[0])
        elif len(syms) == 5 and syms[1] == '?':
            op_prods[p.number] = ('tern', '?')
    n_checked = 0
    bad = []
    # for every state: completed operator items vs every operator lookahead
    for state, actions in t.lr_action.items():
        desc_items = t.state_descriptions[state] if hasattr(t, 'state_descriptions') else None
    # use the LR items from the generated automaton
    C = g  # noqa
    lr0 = t.lr0_items() if callable(getattr(t, 'lr0_items', None)) else None
    # sly keeps, per state, the list of items in t.lr_productions / via state_descriptions text; the robust route:
    # replay precedence resolution on the ACTION table: in state s with lookahead a, if ACTION = reduce(p) with p an
    # operator production and a an operator token, the rule is prec(p) > prec(a) or (== and left); if ACTION = shift and
    # some completed operator production p is reducible in s (appears as reduce for another lookahead), the rule is
    # prec(p) < prec(a) or (== and right); error entries must be nonassoc ties.
    op_tokens = set(level) - {'UMINUS', 'UNOT', ':', '#'}  # tokens that can FOLLOW a complete expression as an infix operator
    for state, actions in t.lr_action.items():
        reducible = {-act for act in actions.values() if isinstance(act, int) and act < 0 and -act in op_prods}
        if not reducible:
            continue
        for p_no in reducible:
            pr = prods[p_no]
            p_assoc, p_level = pr.prec
            for a in op_tokens:
                act = actions.get(a)
                a_assoc, a_level = level[a]
                n_checked += 1
                if p_level > a_level or (p_level == a_level and p_assoc == 'left'):
                    want = 'reduce'
                elif p_level < a_level or (p_level == a_level and p_assoc == 'right'):
                    want = 'shift'
                else:
                    want = 'error'
                if act is None:
                    got_a = 'error'
                elif act < 0:
                    got_a = 'reduce' if -act == p_no else f'reduce-other({-act})'
                else:
                    got_a = 'shift'
                if len(reducible) > 1 and got_a.startswith('reduce-other'):
                    continue  # another completed item of this state owns this lookahead
                if got_a != want:
                    bad.append((state, str(pr), a, got_a, want))
    extra.append(Obl(f'{eng.name}:every_operator_meeting_resolves_by_the_documented_precedence_and_associativity', [], z3.BoolVal(not bad and n_checked > 200), meta=dict(checked=n_checked, first_bad=str(bad[:3]))))
    # unary minus / not and '#' use their own (higher) level
    for p in prods:
        if p.name == 'expr_' and len(p.prod) == 2 and p.prod[1] == 'expr_':
            want_level = level['UMINUS'][1]
            extra.append(Obl(f'{eng.name}:unary[{p.prod[0]}]_binds_tighter_than_every_binary_operator_but_pow', [], z3.BoolVal(p.prec[1] == want_level), meta=dict(prec=str(p.prec))))
    return finish_unit(eng, extra)


def unit_production_actions() -> Dict[str, Any]:
    """each expr_ production's action builds (operator string, operands in source order).  The action methods are
    straight-line (checked on their AST), so one run with opaque operands covers every input."""
    E, P, X = _mods()
    eng = Engine(IntMath(), name='FJParser.actions')
    extra: List[Obl] = []
    parser = P.FJParser
    prods = [p for p in parser._grammar.Productions if p.name == 'expr_']

    class Fake:
        def __init__(self, vals: Dict[str, Any]):
            self.__dict__.update(vals)
            self.lineno = 7

    seen = 0
    inst = object.__new__(parser)
    inst.consts = {}
    for p in prods:
        syms = list(p.prod)
        n_expr = syms.count('expr_')
        toks = [s for s in syms if s != 'expr_']
        if n_expr == 0 or not toks or syms[0] == '(':
            continue
        func = p.func if callable(p.func) else getattr(parser, p.func)
        src = textwrap.dedent(inspect.getsource(func))
        body = ast.parse(src).body[0]
        straight = not any(isinstance(n, (ast.If, ast.For, ast.While, ast.Try, ast.IfExp)) for n in ast.walk(body))
        ops = [E.Expr(f'operand{i}') for i in range(n_expr)]
        vals: Dict[str, Any] = {}
        if n_expr == 1:
            vals['expr_'] = (ops[0], 7)
        else:
            for i in range(n_expr):
                vals[f'expr_{i}'] = (ops[i], 7)
        res = func(inst, Fake(vals))
        seen += 1
        tok = toks[0]
        want_op = TOKEN_OP.get(tok)
        val = res[0].value
        if tok == '-' and n_expr == 1:
            ok = isinstance(val, tuple) and val[0] == '-' and len(val[1]) == 2 and val[1][0].value == 0 and val[1][1] is ops[0]
        else:
            ok = isinstance(val, tuple) and val[0] == want_op and len(val[1]) == n_expr and all(x is y for x, y in zip(val[1], ops))
        extra.append(Obl(f'{eng.name}:[{" ".join(syms)}].builds_operator_with_operands_in_source_order', [], z3.BoolVal(bool(ok) and straight), meta=dict(built=str(val), straight_line=straight)))
    extra.append(Obl(f'{eng.name}:all_operator_productions_seen', [], z3.BoolVal(seen >= 22)))
    return finish_unit(eng, extra)


# ----------------------------------------------------------------------------- [B] literals + end to end


_PY = {'+': lambda a, b: a + b, '-': lambda a, b: a - b, '*': lambda a, b: a * b, '/': lambda a, b: a // b, '%': lambda a, b: a % b, '**': lambda a, b: a**b, '<<': lambda a, b: a << b, '>>': lambda a, b: a >> b,
       '&': lambda a, b: a & b, '|': lambda a, b: a | b, '^': lambda a, b: a ^ b, '&&': lambda a, b: int(bool(a and b)), '||': lambda a, b: int(bool(a or b)), '<': lambda a, b: int(a < b), '>': lambda a, b: int(a > b),
       '<=': lambda a, b: int(a <= b), '>=': lambda a, b: int(a >= b), '==': lambda a, b: int(a == b), '!=': lambda a, b: int(a != b)}
_LEVELS = [(['?:'], 'right'), (['||'], 'left'), (['&&'], 'left'), (['|'], 'left'), (['^'], 'left'), (['<', '>', '<=', '>='], 'nonassoc'), (['==', '!='], 'left'), (['&'], 'left'), (['<<', '>>'], 'left'), (['+', '-'], 'left'), (['*', '/', '%'], 'left'), (['unary'], 'right'), (['**'], 'right')]
_LVL = {op: (i, assoc) for i, (ops, assoc) in enumerate(_LEVELS) for op in ops}


class Tree:
    """reference expression trees with their own printer (minimal parentheses are NOT used: the text is
    generated flat and re-parsed by a reference precedence-climbing parser, independent of sly)"""


def ref_parse(tokens: List[str]):
    """reference precedence climbing over the documented table; returns a nested tuple tree"""
    pos = [0]

    def peek():
        return tokens[pos[0]] if pos[0] < len(tokens) else None

    def take():
        pos[0] += 1
        return tokens[pos[0] - 1]

    def primary():
        t = take()
        if t == '(':
            e = expr(0)
            assert take() == ')'
            return e
        if t in ('-', '~', '#'):
            lvl = _LVL['unary'][0]
            return ('u' + t, expr(lvl))  # right assoc: same level allowed on the right
        return ('atom', t)

    def expr(min_lvl: int):
        lhs = primary()
        while True:
            t = peek()
            if t == '?':
                lvl, assoc = _LVL['?:']
                if lvl < min_lvl:
                    break
                take()
                mid = expr(0)
                assert take() == ':'
                rhs = expr(lvl)
                lhs = ('?:', lhs, mid, rhs)
                continue
            if t not in _LVL or t in ('unary', '?:'):
                break
            lvl, assoc = _LVL[t]
            if lvl < min_lvl:
                break
            take()
            rhs = expr(lvl + 1 if assoc in ('left', 'nonassoc') else lvl)
            lhs = (t, lhs, rhs)
            if assoc == 'nonassoc' and peek() in _LVL and _LVL[peek()][0] == lvl:
                raise AssertionError('chained non-associative comparison: a syntax error by the documented table')
        return lhs

    e = expr(0)
    assert pos[0] == len(tokens)
    return e


def ref_eval(t, env: Dict[str, int]) -> int:
    k = t[0]
    if k == 'atom':
        s = t[1]
        return env[s] if s in env else int(s, 0)
    if k == 'u-':
        return -ref_eval(t[1], env)
    if k == 'u~':
        return ~ref_eval(t[1], env)
    if k == 'u#':
        return ref_eval(t[1], env).bit_length()
    if k == '?:':
        return ref_eval(t[2], env) if ref_eval(t[1], env) else ref_eval(t[3], env)
    return _PY[k](ref_eval(t[1], env), ref_eval(t[2], env))


def _assemble_values(exprs: List[str], w: int, consts: Dict[str, int], labels_as: str, td: Path, once: bool = False) -> Any:
    """assemble `expr;expr` statements (each op on its own line) and return the words, or the exception name.
    labels_as: 'const' (name = value definitions), 'param' (macro parameters), 'label' (labels placed by segment)"""
    flipjump = importlib.import_module('flipjump')
    R = importlib.import_module('flipjump.fjm.fjm_reader')
    lines = []
    n = len(exprs)
    if labels_as == 'const':
        for k, v in consts.items():
            lines.append(f'{k} = {v}')
        for e in exprs:
            lines.append(f'{e};' if once else f'{e};{e}')
    elif labels_as == 'param':
        names = list(consts)
        lines.append('def m ' + ', '.join(names) + ' {')
        for e in exprs:
            lines.append(f'  {e};{e}')
        lines.append('}')
        lines.append('m ' + ', '.join(str(consts[k]) for k in names))
    else:
        for e in exprs:
            lines.append(f'{e};{e}')
        # labels: one segment per label at address value (must be w-aligned multiples of 2w): caller guarantees
        for k, v in consts.items():
            lines.append(f'segment {v}')
            lines.append(f'{k}:')
            lines.append(';')
    src = td / 'p.fj'
    src.write_text('\n'.join(lines) + '\n')
    out = td / 'p.fjm'
    import contextlib
    import io

    try:
        with contextlib.redirect_stdout(io.StringIO()):
            flipjump.assemble([src], out, memory_width=w, use_stl=False, print_time=False, warning_as_errors=False)
    except Exception as e:
        return type(e).__name__
    rd = R.Reader(out)
    return [rd.memory.get(i, 0) for i in range(2 * n)]


def bounded(rep: Report, tier: str, seed: int) -> None:
    E, P, X = _mods()
    rng = random.Random(seed + 99)
    th = tier == 'thorough'
    evals, distinct = 0, set()
    w = 64
    mask = (1 << w) - 1
    binops = ['+', '-', '*', '/', '%', '**', '<<', '>>', '&', '|', '^', '&&', '||', '<', '>', '<=', '>=', '==', '!=']
    atoms = ['x', 'y', 'z', '3', '0x11', '0b101', '7']
    envs = [dict(x=5, y=2, z=9), dict(x=12, y=3, z=1), dict(x=1, y=7, z=4)]
    # values as labels must be 2w-aligned addresses: use multiples of 128
    label_envs = [dict(x=128 * 3, y=128 * 2, z=128 * 5)]
    exprs: List[List[str]] = []
    for o1, o2 in itertools.product(binops, repeat=2):
        exprs.append(['x', o1, 'y', o2, 'z'])
        exprs.append(['-', 'x', o1, 'y', o2, '3'])
    for o1 in binops:
        exprs.append(['~', 'x', o1, '#', 'y'])
        exprs.append(['x', '?', 'y', o1, 'z', ':', 'z', o1, '2'])
        exprs.append(['x', o1, 'y', '?', 'y', ':', 'z'])
    n_rand = 2500 if th else 250
    for _ in range(n_rand):
        toks = [rng.choice(atoms)]
        for _ in range(rng.randrange(2, 6)):
            if rng.random() < 0.15:
                toks = ['('] + toks + [')']
            toks += [rng.choice(binops), rng.choice(['', '-', '~', '#']), rng.choice(atoms)]
        exprs.append([t for t in toks if t])
    if not th:
        exprs = exprs[:: 3] + exprs[-n_rand:]

    def usable(tree, env) -> bool:
        try:
            v = ref_eval(tree, env)
        except (ZeroDivisionError, ValueError, OverflowError, MemoryError):
            return False
        return abs(v) < (1 << 4000)

    def guard_huge(tree, env) -> bool:
        # keep ** and << operands small so nothing explodes
        ok = True

        def go(t):
            nonlocal ok
            if t[0] in ('**', '<<'):
                try:
                    r = ref_eval(t[2], env)
                    l = ref_eval(t[1], env)
                except Exception:
                    ok = False
                    return
                if r > 64 or r < 0 or abs(l) > (1 << 200):
                    ok = False
            for c in t[1:]:
                if isinstance(c, tuple):
                    go(c)

        go(tree)
        return ok

    with tempfile.TemporaryDirectory() as tdir:
        td = Path(tdir)
        for mode, envlist in (('const', envs), ('param', envs), ('label', label_envs)):
            for env in envlist:
                batch, wants = [], []
                for toks in exprs:
                    try:
                        tree = ref_parse(list(toks))
                    except (AssertionError, IndexError):
                        continue
                    if not guard_huge(tree, env) or not usable(tree, env):
                        continue
                    # the word must be representable: the whole expression is masked to 64 bits (parenthesised, so
                    # the precedence inside is untouched)
                    batch.append('(' + ' '.join(toks) + ') & 0xFFFFFFFFFFFFFFFF')
                    wants.append(ref_eval(tree, env) & mask)
                for i in range(0, len(batch), 40):
                    chunk, wchunk = batch[i : i + 40], wants[i : i + 40]
                    got = _assemble_values(chunk, w, env, mode, td)
                    evals += len(chunk)
                    for e_ in chunk:
                        distinct.add((mode, e_, tuple(sorted(env.items()))))
                    if isinstance(got, str):
                        # find the culprit individually
                        for e_, wv in zip(chunk, wchunk):
                            g1 = _assemble_values([e_], w, env, mode, td)
                            if isinstance(g1, str) or g1[0] != wv or g1[1] != wv:
                                rep.violation(Violation('bounded:expressions.value_through_the_assembler', f'`{e_}` with {env} as {mode}: assembled {g1!r}, unbounded-integer value mod 2^64 is {wv}', dict(expr=e_, env=env, identifiers_as=mode, got=g1, want=wv), True, key=f'value:{mode}'))
                                return
                        continue
                    for k, (e_, wv) in enumerate(zip(chunk, wchunk)):
                        if got[2 * k] != wv or got[2 * k + 1] != wv:
                            rep.violation(Violation('bounded:expressions.value_through_the_assembler', f'`{e_}` with {env} as {mode}: assembled flip/jump words {got[2 * k]}, {got[2 * k + 1]}; unbounded-integer value mod 2^64 is {wv}', dict(expr=e_, env=env, identifiers_as=mode, got=[got[2 * k], got[2 * k + 1]], want=wv), True, key=f'value:{mode}'))
                            return
        # literals
        lits = ["'a'", "'\\n'", "'\\x41'", "'\\''", "'\\\\'", "'\\0'", '"ab"', '"a\\nb"', '"\\x01\\x02\\x03"', '""', '0x1F', '0X1f', '0b1011', '0B1', '017', '0', "' '", '"~!"']
        wantl = [97, 10, 0x41, 0x27, 0x5C, 0, 97 + (98 << 8), 97 + (10 << 8) + (98 << 16), 1 + (2 << 8) + (3 << 16), 0, 31, 31, 11, 1, 17, 0, 32, 0x7E + (0x21 << 8)]
        for ch in range(0x20, 0x7F):
            if chr(ch) in ("'", '\\'):
                continue
            lits.append(f"'{chr(ch)}'")
            wantl.append(ch)
        for k, esc in importlib.import_module('flipjump.assembler.fj_parser').char_escape_dict.items():
            lits.append(f"'\\{k}'")
            wantl.append(esc)
        # (one literal per statement: the STRING token is greedy up to the LAST quote of the line)
        got = _assemble_values(lits, w, {}, 'const', td, once=True)
        evals += len(lits)
        if isinstance(got, str) or any(got[2 * k] != wantl[k] for k in range(len(lits))):
            badk = next((k for k in range(len(lits)) if isinstance(got, str) or got[2 * k] != wantl[k]), 0)
            rep.violation(Violation('bounded:expressions.literals', f'literal {lits[badk]}: assembled {got if isinstance(got, str) else got[2 * badk]}, documented value {wantl[badk]}', dict(literal=lits[badk], want=wantl[badk]), True, key='literal'))
            return
    rep.add_bounded('expression values through the real assembler (flip/jump words of `expr;expr`)', 'all operator pairs + ternary/unary mixes (quick: every 3rd) + random flat expressions of 3-6 operands with unary operators and parentheses, re-parsed by an independent precedence-climbing reference; identifiers as constants / macro parameters / labels; literals of every notation', evals, len(distinct))
    rep.samples.append(dict(bounded_case='x + y * z with x,y,z as macro parameters 5,2,9 -> 23'))


def body(tier: str, seed: int) -> int:
    rep = Report(PROP, 'quick' if tier.startswith('replay') else tier, seed, 'proof', f'./check {PROP} --tier {tier}')
    E, P, X = _mods()
    run_and_discharge(rep, [(unit_operator_table, ()), (unit_eval_paths_guarded, ()), (unit_lalr, ()), (unit_production_actions, ())])
    rep.add_function('flipjump.assembler.inner_classes.expr', 'op_string_to_function (22 entries), _pow', '', 'lambdas executed symbolically over mathematical integers')
    for f in (E.Expr.eval_new, E.Expr.exact_eval, E.get_minimized_expr):
        rep.add_function('flipjump.assembler.inner_classes.expr', f.__qualname__, Engine.func_lines(f), 'guard obligation on every application of the operator table')
    rep.add_function('flipjump.assembler.fj_parser', 'FJParser (precedence, expr_ productions and their actions)', '', 'decided on the LALR tables sly builds from the class')
    rep.assume('[A] operator.add/sub/mul/floordiv/mod/lshift/rshift/xor/or_/and_ and int.bit_length are the python integer operators; int(x ** y) == x^y for y >= 0')
    rep.assume('[A] sly: the generated tables drive the parser as the LALR(1) theory says; resolving every operator meeting by the precedence list yields the documented parse (standard operator-precedence argument)')
    rep.assume('[B only] the substitution lemma exact_eval(eval_new(e, s), r) == exact_eval(e, r o s) and literal decoding are exercised end to end (bounded), not proved by structural induction')
    rep.trust('pyvc symbolic executor; z3')
    bounded(rep, tier, seed)
    return rep.finish()


if __name__ == '__main__':
    main_wrapper(PROP, body)
