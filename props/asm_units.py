"""deductive units over the assembler's address bookkeeping (shared by C02 / C16)"""
from __future__ import annotations

import importlib
from typing import Any, Dict, List

import z3

from vc.common import Obl, Undecided, finish_unit
from vc.pyvc.engine import OK, RAISE, Engine, State
from vc.pyvc.values import ExcVal, IntMath, Obj, Opaque, Ref, SDict, SList


def _mods():
    PP = importlib.import_module('flipjump.assembler.preprocessor')
    A = importlib.import_module('flipjump.assembler.assembler')
    X = importlib.import_module('flipjump.utils.exceptions')
    return PP, A, X


def _resolve_error_contract(X):
    def h(e, st, args, kwargs):
        yield (RAISE, st, ExcVal(X.FlipJumpPreprocessorException))

    return h


def unit_validate_addresses(w: int) -> Dict[str, Any]:
    PP, A, X = _mods()
    eng = Engine(IntMath(), name=f'assembler.validate_addresses[w{w}]')
    eng.inline.add(A.assert_address_in_memory)
    st = State()
    first, last = eng.fresh_int('first_address', st), eng.fresh_int('last_address', st)
    outs = eng.run_function(A.validate_addresses, st, [w, first, last])
    ok = z3.And(first % w == 0, last % w == 0, 0 <= first, first < (1 << w), 0 <= last - 1, last - 1 < (1 << w))
    extra: List[Obl] = []
    for i, (s, sig) in enumerate(outs):
        tag = f'{eng.name}:path{i}'
        extra.append(Obl(f'{tag}.cover', list(s.pc), None, 'cover'))
        if sig[0] == 'raise':
            extra.append(Obl(f'{tag}.rejects_only_misaligned_or_out_of_range_with_the_assembler_exception', list(s.pc), z3.And(z3.BoolVal(sig[1].cls is X.FlipJumpAssemblerException), z3.Not(ok))))
        else:
            extra.append(Obl(f'{tag}.accepts_only_aligned_boundaries_inside_the_address_space', list(s.pc), ok))
    return finish_unit(eng, extra)


def unit_align(w: int, k: int) -> Dict[str, Any]:
    """pad k: the current address advances to the next multiple of k ops (never by a whole k), or is rejected when unaligned"""
    PP, A, X = _mods()
    eng = Engine(IntMath(), name=f'PreprocessorData.align_current_address[w{w},k{k}]')
    eng.contracts[PP.macro_resolve_error] = _resolve_error_contract(X)
    st = State()
    cur = eng.fresh_int('curr_address', st, 0, None)
    ops = st.alloc(Obj(type('Deque', (), {}), {}))
    eng.method_handlers[('Obj', 'append')] = lambda e, s, recv, args, kw: iter([(OK, _tr(s, ('append', args[0])), None)])
    ref = st.alloc(Obj(PP.PreprocessorData, dict(memory_width=w, curr_address=cur, curr_tree=Opaque('tree'), result_ops=ops)))
    outs = eng.run_function(PP.PreprocessorData.align_current_address, st, [ref, k])
    dw = 2 * w
    extra: List[Obl] = []
    for i, (s, sig) in enumerate(outs):
        tag = f'{eng.name}:path{i}'
        extra.append(Obl(f'{tag}.cover', list(s.pc), None, 'cover'))
        if sig[0] == 'raise':
            extra.append(Obl(f'{tag}.rejects_only_an_address_that_is_not_op_aligned', list(s.pc), cur % dw != 0))
            continue
        new = eng.T.lift(s.heap[ref.id].fields['curr_address'])
        pad = [t[1] for t in s.trace if t[0] == 'append']
        extra.append(Obl(f'{tag}.advances_to_the_next_multiple_of_k_ops', list(s.pc), z3.And(cur % dw == 0, new >= cur, new - cur < k * dw, (new - cur) % dw == 0, (new / dw) % k == 0)))
        if len(pad) == 1:
            cnt = s.heap[pad[0].id].fields['ops_count'] if isinstance(pad[0], Ref) else None
            extra.append(Obl(f'{tag}.emits_exactly_that_many_padding_ops', list(s.pc), (eng.T.lift(cnt) * dw == new - cur) if cnt is not None else z3.BoolVal(False)))
        else:
            extra.append(Obl(f'{tag}.emits_exactly_one_padding_record', list(s.pc), z3.BoolVal(False)))
    return finish_unit(eng, extra)


def _tr(s: State, ev: tuple) -> State:
    s2 = s.fork()
    s2.trace.append(ev)
    return s2


def unit_insert_label() -> Dict[str, Any]:
    """labels are identified by symbolic ids (the function uses the name only as a dictionary key): a label is
    recorded at the given address - or the current address when none is given - exactly once; a duplicate is an
    error and changes nothing; no other label moves"""
    PP, A, X = _mods()
    eng = Engine(IntMath(), name='PreprocessorData.insert_label')
    eng.contracts[PP.macro_resolve_error] = _resolve_error_contract(X)
    extra: List[Obl] = []
    I = z3.IntSort()
    for mode in ('default-address', 'explicit-address'):
        st = State()
        labels = SDict(z3.Array('labels_dom', I, z3.BoolSort()), z3.Array('labels_val', I, I))
        pos = SDict(z3.Array('pos_dom', I, z3.BoolSort()), z3.Array('pos_val', I, I))
        lref, pref = st.alloc(labels), st.alloc(pos)
        aset = st.alloc(Obj(type('Set', (), {}), {}))
        eng.method_handlers[('Obj', 'add')] = lambda e, s, recv, args, kw: iter([(OK, _tr(s, ('add', args[0])), None)])
        cur = eng.fresh_int('curr_address', st, 0, None)
        ref = st.alloc(Obj(PP.PreprocessorData, dict(curr_address=cur, curr_tree=Opaque('tree'), labels=lref, labels_code_positions=pref, addresses_with_labels=aset)))
        label, cp = eng.fresh_int('label_id', st), eng.fresh_int('code_position_id', st)
        # requires: a label that is already present has a recorded code position.  (True for every label that
        # insert_label itself recorded; the generated `_.wflip_area_start_N` names are written into `labels` without a
        # position by insert_segment - a source label spelled like that, `ns _ { wflip_area_start_0: }` after a
        # `segment`, would hit a KeyError here: noted in DESIGN.md as an observation, outside the generated programs.)
        st.assume(z3.Implies(z3.Select(labels.dom, label), z3.Select(pos.dom, label)))
        kw = {}
        want_addr = cur
        if mode == 'explicit-address':
            addr = eng.fresh_int('address', st, 0, None)  # includes 0: the address of the first statement
            kw = dict(address=addr)
            want_addr = addr
        outs = eng.run_function(PP.PreprocessorData.insert_label, st, [ref, label, cp], kw)
        x = z3.Int('other_label')
        for i, (s, sig) in enumerate(outs):
            tag = f'{eng.name}[{mode}]:path{i}'
            extra.append(Obl(f'{tag}.cover', list(s.pc), None, 'cover'))
            l2 = s.heap[lref.id]
            if sig[0] == 'raise':
                extra.append(Obl(f'{tag}.duplicate_is_rejected_and_nothing_changes', list(s.pc), z3.And(z3.Select(labels.dom, label), z3.BoolVal(sig[1].cls is X.FlipJumpPreprocessorException and l2 is labels))))
                continue
            extra.append(Obl(f'{tag}.accepted_only_when_new', list(s.pc), z3.Not(z3.Select(labels.dom, label))))
            extra.append(Obl(f'{tag}.recorded_at_the_requested_address', list(s.pc), z3.And(z3.Select(l2.dom, label), z3.Select(l2.val, label) == want_addr)))
            extra.append(Obl(f'{tag}.no_other_label_moves', list(s.pc), z3.ForAll([x], z3.Implies(x != label, z3.And(z3.Select(l2.dom, x) == z3.Select(labels.dom, x), z3.Select(l2.val, x) == z3.Select(labels.val, x))))))
            adds = [t[1] for t in s.trace if t[0] == 'add']
            extra.append(Obl(f'{tag}.address_marked_as_labelled', list(s.pc), z3.And(z3.BoolVal(len(adds) == 1), (eng.T.lift(adds[0]) == want_addr) if adds else z3.BoolVal(False))))
    return finish_unit(eng, extra)


def unit_reserve_segment(w: int) -> Dict[str, Any]:
    PP, A, X = _mods()
    eng = Engine(IntMath(), name=f'PreprocessorData.insert_reserve+insert_segment[w{w}]')
    extra: List[Obl] = []
    eng.method_handlers[('Obj', 'append')] = lambda e, s, recv, args, kw: iter([(OK, _tr(s, ('append', args[0])), None)])
    # insert_reserve
    st = State()
    cur, bits = eng.fresh_int('curr_address', st, 0, None), eng.fresh_int('reserved_bits', st, 0, None)
    ops = st.alloc(Obj(type('Deque', (), {}), {}))
    ref = st.alloc(Obj(PP.PreprocessorData, dict(curr_address=cur, result_ops=ops)))
    for i, (s, sig) in enumerate(eng.run_function(PP.PreprocessorData.insert_reserve, st, [ref, bits])):
        new = eng.T.lift(s.heap[ref.id].fields['curr_address'])
        rec = [t[1] for t in s.trace if t[0] == 'append']
        first_after = s.heap[rec[0].id].fields['first_address_after_reserved'] if rec and isinstance(rec[0], Ref) else None
        extra.append(Obl(f'{eng.name}:reserve.path{i}.address_advances_by_the_reserved_bits_and_the_record_names_the_first_address_after', list(s.pc), z3.And(z3.BoolVal(sig[0] == 'return'), new == cur + bits, (eng.T.lift(first_after) == cur + bits) if first_after is not None else z3.BoolVal(False))))
    return finish_unit(eng, extra)
