"""
C19 - devices see the same program memory under every engine.

[D] DeviceMemory.read_data_byte / write_data_byte over an abstract word store: the packed byte of the op at a
    dw-aligned address is bits #w..#w+7 of the op's jump word; a write changes exactly those 8 bits of exactly
    that word (w in 16/32/64; w = 8 is rejected);  ReaderDeviceMemory.read_word / write_word over the Reader
    model: reads return the current word (0 if never written), writes are masked and visible to the next read;
    InMemoryScreen._update_rectangle: every pixel index it touches is inside the frame buffer (no IndexError)
    and the box test rejects exactly the rectangles leaving the screen; command framing lengths.
    _fjcore Memory_get_word / Memory_set_word (cvc, from any state satisfying Rep): an in-segment address is routed
    to the storage the run loops use (get returns absM[a]; set makes absM[a] = value & mask and changes no other
    word), the device view (page-backed outside the segments) is the same in every storage mode, Rep is preserved;
    NativeDeviceMemory.read_word/write_word are exactly one such call with the masked value.
[B] programs interleaving ops with device reads/writes (words and packed bytes) at in-segment addresses on every
    engine and storage mode (bounded/devmem.py); random valid and malformed screen command streams against an
    independent decoder.
"""
from __future__ import annotations

import importlib
import random
from typing import Any, Dict, List, Optional, Tuple

import z3

from bounded import isolated
from contracts.py.reader_model import ReaderModel
from vc.common import Obl, Report, Undecided, Violation, finish_unit, main_wrapper, run_and_discharge
from vc.pyvc.engine import OK, RAISE, Engine, LoopSpec, State
from vc.pyvc.values import ExcVal, IntBV, IntMath, Obj, Opaque, Ref, SList

PROP = 'C19'
N = 160


def bv(v: int):
    return z3.BitVecVal(v, N)


def _mods():
    DM = importlib.import_module('flipjump.interpreter.io_devices.device_memory')
    SC = importlib.import_module('flipjump.interpreter.io_devices.ScreenIO')
    X = importlib.import_module('flipjump.utils.exceptions')
    return DM, SC, X


def unit_packed_byte(w: int) -> Dict[str, Any]:
    DM, SC, X = _mods()
    eng = Engine(IntBV(N), name=f'DeviceMemory.packed_byte[w{w}]')
    T = eng.T
    extra: List[Obl] = []
    store = z3.Array('words', z3.BitVecSort(N), z3.BitVecSort(N))
    ww = w.bit_length() - 1

    def read_word(e, st, args, kwargs):
        a = T.lift(args[1])
        s = st.fork()
        s.trace.append(('read', a))
        v = z3.Select(st.ghost['store'], a) & bv((1 << w) - 1)
        T.note(v, w, True)
        yield (OK, s, v)

    def write_word(e, st, args, kwargs):
        a, v = T.lift(args[1]), T.lift(args[2])
        s = st.fork()
        s.trace.append(('write', a, v))
        s.ghost['store'] = z3.Store(st.ghost['store'], a, v & bv((1 << w) - 1))
        yield (OK, s, None)

    eng.contracts[DM.DeviceMemory.read_word] = read_word
    eng.contracts[DM.DeviceMemory.write_word] = write_word
    for f in (DM.DeviceMemory._require_byte_capable_width, DM.DeviceMemory._jump_word_address):
        eng.inline.add(f)
    # _data_bit_offset is a property: model by field
    for op_kind in ('read', 'write'):
        st = State()
        st.ghost['store'] = store
        ref = st.alloc(Obj(DM.DeviceMemory, dict(memory_width=w, _data_bit_offset=w.bit_length())))
        op = eng.fresh_int('op_bit_address', st, 0, 1 << 64)
        args: List[Any] = [ref, op]
        if op_kind == 'write':
            val = eng.fresh_int('value', st, 0, 1 << 12)
            args.append(val)
        fn = DM.DeviceMemory.read_data_byte if op_kind == 'read' else DM.DeviceMemory.write_data_byte
        outs = eng.run_function(fn, st, args)
        jw = z3.LShR(op, bv(ww)) + 1
        dbit = w.bit_length()
        for i, (s, sig) in enumerate(outs):
            tag = f'{eng.name}:{op_kind}.path{i}'
            if w < 16:
                extra.append(Obl(f'{tag}.rejected_below_16_bits', list(s.pc), z3.BoolVal(sig[0] == 'raise' and sig[1].cls is ValueError)))
                continue
            extra.append(Obl(f'{tag}.never_raises', list(s.pc), z3.BoolVal(sig[0] == 'return')))
            if sig[0] != 'return':
                continue
            if op_kind == 'read':
                want = z3.LShR(z3.Select(store, jw) & bv((1 << w) - 1), bv(dbit)) & bv(0xFF)
                extra.append(Obl(f'{tag}.is_bits_dbit_to_dbit+7_of_the_jump_word', list(s.pc), T.lift(sig[1]) == want))
                extra.append(Obl(f'{tag}.reads_only', list(s.pc), z3.BoolVal(all(t[0] == 'read' for t in s.trace))))
            else:
                new = s.ghost['store']
                a = z3.BitVec('a_pb', N)
                old_w = z3.Select(store, jw) & bv((1 << w) - 1)
                want_w = (old_w & ~(bv(0xFF) << bv(dbit)) & bv((1 << w) - 1)) | ((val & bv(0xFF)) << bv(dbit))
                extra.append(Obl(f'{tag}.changes_exactly_the_8_data_bits_of_the_jump_word', list(s.pc), z3.And(z3.Select(new, jw) == want_w, z3.ForAll([a], z3.Implies(a != jw, z3.Select(new, a) == z3.Select(store, a))))))
    return finish_unit(eng, extra)


def unit_reader_adapter(w: int) -> Dict[str, Any]:
    DM, SC, X = _mods()
    eng = Engine(IntBV(N), name=f'ReaderDeviceMemory[w{w}]')
    T = eng.T
    st = State()
    rm = ReaderModel(eng, st, w)
    ref = st.alloc(Obj(DM.ReaderDeviceMemory, dict(_reader=rm.ref, memory_width=w)))
    a = eng.fresh_int('word_address', st, 0, 1 << 70)
    extra: List[Obl] = []
    mask = bv((1 << w) - 1)
    m0 = rm.mem(st)
    outs = eng.run_function(DM.ReaderDeviceMemory.read_word, st, [ref, a])
    for i, (s, sig) in enumerate(outs):
        tag = f'{eng.name}:read_word.path{i}'
        extra.append(Obl(f'{tag}.never_raises', list(s.pc), z3.BoolVal(sig[0] == 'return')))
        if sig[0] == 'return':
            want = z3.If(z3.Select(m0.dom, a & mask), z3.ZeroExt(N - w, z3.Select(m0.val, a & mask)), bv(0))
            got = sig[1] if not isinstance(sig[1], int) else bv(sig[1])
            extra.append(Obl(f'{tag}.returns_the_current_word_or_zero', list(s.pc), T.lift(got) == want))
            extra.append(Obl(f'{tag}.memory_untouched', list(s.pc), z3.BoolVal(rm.mem(s) is m0)))
    v = eng.fresh_int('value', st, 0, 1 << 70)
    outs = eng.run_function(DM.ReaderDeviceMemory.write_word, st, [ref, a, v])
    x = z3.BitVec('x_wa', N)
    for i, (s, sig) in enumerate(outs):
        tag = f'{eng.name}:write_word.path{i}'
        m1 = rm.mem(s)
        extra.append(Obl(f'{tag}.never_raises', list(s.pc), z3.BoolVal(sig[0] == 'return')))
        extra.append(Obl(f'{tag}.stores_the_masked_value_at_the_masked_address_only', list(s.pc), z3.And(z3.Select(m1.dom, a & mask), z3.ZeroExt(N - w, z3.Select(m1.val, a & mask)) == (v & mask), z3.ForAll([x], z3.Implies(x != (a & mask), z3.And(z3.Select(m1.dom, x) == z3.Select(m0.dom, x), z3.Select(m1.val, x) == z3.Select(m0.val, x)))))))
    return finish_unit(eng, extra)


def unit_native_adapter(w: int) -> Dict[str, Any]:
    """NativeDeviceMemory: read_word(a) is exactly ONE core.get_word(a); write_word(a, v) is exactly ONE
    core.set_word(a, v & (2^w - 1)) - with the accessor contracts (unit_native_accessor) the device sees and
    changes the program-visible word."""
    DM, SC, X = _mods()
    eng = Engine(IntBV(N), name=f'NativeDeviceMemory[w{w}]')
    T = eng.T
    st = State()

    class Core:  # stands for _fjcore.Memory: its two methods are the contracts proved in unit_native_accessor
        pass

    calls_key = 'core_calls'
    got = z3.BitVec('core_word', N)
    T.note(got, w, True)

    def get_word(e, s0, recv, args, kwargs):
        s = s0.fork()
        s.ghost[calls_key] = s.ghost.get(calls_key, ()) + (('get', args[0]),)
        yield (OK, s, got)

    def set_word(e, s0, recv, args, kwargs):
        s = s0.fork()
        s.ghost[calls_key] = s.ghost.get(calls_key, ()) + (('set', args[0], args[1]),)
        yield (OK, s, None)

    eng.method_handlers[('Obj', 'get_word')] = get_word
    eng.method_handlers[('Obj', 'set_word')] = set_word
    core = st.alloc(Obj(Core, {}))
    ref = st.alloc(Obj(DM.NativeDeviceMemory, dict(_core_memory=core, memory_width=w)))
    a = eng.fresh_int('word_address', st, 0, 1 << 64)
    v = eng.fresh_int('value', st, 0, 1 << 70)
    extra: List[Obl] = []
    for i, (s, sig) in enumerate(eng.run_function(DM.NativeDeviceMemory.read_word, st, [ref, a])):
        tag = f'{eng.name}:read_word.path{i}'
        calls = s.ghost.get(calls_key, ())
        shape = sig[0] == 'return' and len(calls) == 1 and calls[0][0] == 'get'
        extra.append(Obl(f'{tag}.is_one_get_word_of_that_address', list(s.pc), z3.And(T.lift(calls[0][1]) == a, T.lift(sig[1]) == got) if shape else z3.BoolVal(False)))
    for i, (s, sig) in enumerate(eng.run_function(DM.NativeDeviceMemory.write_word, st, [ref, a, v])):
        tag = f'{eng.name}:write_word.path{i}'
        calls = s.ghost.get(calls_key, ())
        shape = sig[0] == 'return' and len(calls) == 1 and calls[0][0] == 'set'
        extra.append(Obl(f'{tag}.is_one_set_word_of_the_masked_value', list(s.pc), z3.And(T.lift(calls[0][1]) == a, T.lift(calls[0][2]) == (v & bv((1 << w) - 1))) if shape else z3.BoolVal(False)))
    return finish_unit(eng, extra)


def unit_native_accessor(name: str, w: int, flat: Optional[bool]) -> Dict[str, Any]:
    """_fjcore Memory_get_word / Memory_set_word (what NativeDeviceMemory calls), from any state satisfying Rep:
    an address INSIDE the loaded segments is routed to the same storage the run loops use - get returns absM[a],
    set makes absM' = absM[a := value & mask] and changes no other abstract word - and Rep is preserved for every
    address (in or out of the segments), so a device access can never corrupt what the program reads next."""
    from contracts.c.fjcore import PAGE_BITS, NativeModel, i32, u64
    from props.C01c import _Unit
    from vc.cvc.cfg import Linear, load_functions
    from vc.cvc.exec import NULL, CExec, Ptr

    fns = load_functions()
    if name not in fns:
        raise Undecided(f'function {name} not found in _fjcore.c')
    nm = NativeModel(w, flat=flat)
    ex = CExec(Linear(fns[name]), name=f'{name}[w{w},{"flat" if flat else "paged"}]')
    nm.install(ex, ('flat_seg_contains', 'mem_get_page'))
    st = nm.st0.fork()
    for c in nm.rep(st):
        st.assume(c)
    a_in, v_in = z3.BitVec('api_word_address', 64), z3.BitVec('api_value', 64)

    def parse(e, s0, args, node):
        fail = s0.fork()
        fail.M['pyerr'] = z3.BoolVal(True)
        fail.path.append('PyArg_ParseTuple:fail')
        yield (fail, i32(0))
        ok = s0.fork()
        outs = [x for x in args[2:]]
        vals = [a_in, v_in][: len(outs)]
        for p, val in zip(outs, vals):
            if not (isinstance(p, Ptr) and isinstance(p.where, tuple) and p.where[0] == 'local'):
                raise Undecided(f'{name}: PyArg_ParseTuple out-parameter is not the address of a local')
            ok.vars[p.where[1]] = val
        ok.ghost['parsed'] = len(outs)
        yield (ok, i32(1))

    def from_ull(e, s0, args, node):
        fail = s0.fork()
        fail.M['pyerr'] = z3.BoolVal(True)
        yield (fail, NULL)
        ok = s0.fork()
        ok.ghost['returned_int'] = args[0]
        yield (ok, Ptr('pyobj', 'new-int'))

    ex.contracts['PyArg_ParseTuple'] = ex.contracts['_PyArg_ParseTuple_SizeT'] = parse
    ex.contracts['PyLong_FromUnsignedLongLong'] = from_ull
    ex.contracts['Py_INCREF'] = ex.contracts['_Py_INCREF'] = lambda e, s0, args, node: iter([(s0, None)])
    st.vars['args'] = Ptr('pyobj', 'args')
    extra: List[Obl] = [Obl(f'{ex.name}:cover.requires', list(st.pc), None, 'cover')]
    outs = ex.run(st, 0, stop=set())
    x = z3.BitVec('x_other', 64)
    inV = z3.Select(nm.V, a_in)
    is_set = name == 'Memory_set_word'
    PB, PM = u64(PAGE_BITS), u64((1 << PAGE_BITS) - 1)

    def dev(s0, a):
        """the device's view of word a: the program-visible word inside the segments, a page-backed word outside
        (the same in every storage mode - the flat array's filler is never visible to a device)"""
        paged = z3.Select(z3.Select(s0.M['pg_words'], z3.LShR(a, PB)), a & PM)
        return z3.If(z3.And(nm.in_flat(s0, a), z3.Select(nm.V, a)), z3.Select(s0.M['flat'], a), paged)

    for i, (sb, where) in enumerate(outs):
        if where[0] != 'return':
            raise Undecided(f'{name}: path ended at label {where[1]}')
        tag = f'{ex.name}:path{i}'
        ret = where[1]
        ret_null = isinstance(ret, Ptr) and ret.null is True or ret is NULL
        extra.append(Obl(f'{tag}.cover', list(sb.pc), None, 'cover'))
        for nm_, c in nm.rep_changed(st, sb):
            extra.append(Obl(f'{tag}.Rep_preserved.{nm_}', list(sb.pc), c))
        if ret_null:
            extra.append(Obl(f'{tag}.NULL_only_with_a_python_error_and_memory_unchanged', list(sb.pc), z3.And(sb.M['pyerr'], z3.ForAll([x], nm.absM(sb, x) == nm.absM(st, x)))))
            continue
        extra.append(Obl(f'{tag}.success_without_pending_error', list(sb.pc), z3.Not(sb.M['pyerr'])))
        if is_set:
            extra.append(Obl(f'{tag}.in_segment_write_is_the_program_visible_word', list(sb.pc) + [inV], nm.absM(sb, a_in) == (v_in & u64(nm.mask))))
            extra.append(Obl(f'{tag}.no_other_word_changes', list(sb.pc), z3.ForAll([x], z3.Implies(x != a_in, nm.absM(sb, x) == nm.absM(st, x)))))
            extra.append(Obl(f'{tag}.device_view_after_write', list(sb.pc), z3.And(dev(sb, a_in) == (v_in & u64(nm.mask)), z3.ForAll([x], z3.Implies(x != a_in, dev(sb, x) == dev(st, x))))))
            extra.append(Obl(f'{tag}.out_of_segment_write_leaves_every_program_visible_word', list(sb.pc) + [z3.Not(inV)], z3.ForAll([x], z3.Implies(z3.Select(nm.V, x), nm.absM(sb, x) == nm.absM(st, x)))))
        else:
            if 'returned_int' not in sb.ghost:
                extra.append(Obl(f'{tag}.returns_a_new_int', list(sb.pc), z3.BoolVal(False)))
                continue
            extra.append(Obl(f'{tag}.in_segment_read_is_the_program_visible_word', list(sb.pc) + [inV], sb.ghost['returned_int'] == nm.absM(st, a_in)))
            extra.append(Obl(f'{tag}.read_returns_the_device_view_in_every_storage_mode', list(sb.pc), sb.ghost['returned_int'] == dev(st, a_in)))
            extra.append(Obl(f'{tag}.read_changes_no_word', list(sb.pc), z3.ForAll([x], nm.absM(sb, x) == nm.absM(st, x))))
    if not outs:
        raise Undecided(f'{name}: no paths')
    extra.append(Obl(f'{ex.name}:canary', list(st.pc), None, 'canary'))
    return finish_unit(_Unit(ex), extra)


def unit_rectangle() -> Dict[str, Any]:
    """InMemoryScreen._update_rectangle over mathematical integers: box test and index bounds"""
    DM, SC, X = _mods()
    eng = Engine(IntMath(), name='InMemoryScreen._update_rectangle')
    st = State()
    width, height = eng.fresh_int('width', st, 1, 1 << 16), eng.fresh_int('height', st, 1, 1 << 16)
    pix = eng.fresh_list('pixel_indices', st)
    st.assume(pix.length == width * height)
    pref = st.alloc(pix)
    dm = st.alloc(Obj(DM.DeviceMemory, dict(memory_width=32)))
    ref = st.alloc(Obj(SC.InMemoryScreen, dict(width=width, height=height, bpp=8, pixel_indices=pref, device_memory=dm)))
    x, y, rw, rh = [eng.fresh_int(n, st, 0, 1 << 16) for n in ('x', 'y', 'rect_width', 'rect_height')]
    addr = eng.fresh_int('screen_bit_address', st, 0, None)

    def read_packed(e, s, args, kwargs):
        cnt = args[2]
        lst = e.fresh_list('line', s)
        s2 = s.fork()
        s2.assume(lst.length == e.T.lift(cnt))
        yield (OK, s2, s2.alloc(lst))

    eng.contracts[SC.InMemoryScreen._read_packed_bytes] = read_packed
    eng.contracts[SC.InMemoryScreen._present] = lambda e, s, a, k: iter([(OK, s, None)])
    eng.inline.add(SC.InMemoryScreen._require_initialized_screen)
    fn = SC.InMemoryScreen._update_rectangle
    qn = fn.__qualname__

    def havoc(s: State, e: Engine):  # outer loop: everything assigned in its body
        s.heap[pref.id] = SList(pix.length, (e.fresh_array('pix_h'),), 0)
        for nm in ('row', 'col', 'line_first_pixel', 'line'):
            s.locals.pop(nm, None)

    def havoc_inner(s: State, e: Engine):  # inner loop: only the pixels and its own index change
        s.heap[pref.id] = SList(pix.length, (e.fresh_array('pix_hi'),), 0)
        s.locals.pop('col', None)

    inv = lambda s, k: [s.heap[pref.id].length == width * height]  # noqa: E731
    eng.loop_specs[(qn, 0)] = LoopSpec(invariant=inv, havoc=havoc)
    eng.loop_specs[(qn, 1)] = LoopSpec(invariant=inv, havoc=havoc_inner)
    outs = eng.run_function(fn, st, [ref, x, y, rw, rh, addr])
    inside = z3.And(x + rw <= width, y + rh <= height)
    extra: List[Obl] = []
    n_ret = 0
    for i, (s, sig) in enumerate(outs):
        tag = f'{eng.name}:path{i}'
        extra.append(Obl(f'{tag}.cover', list(s.pc), None, 'cover'))
        if sig[0] == 'raise':
            if sig[1].cls is X.IODeviceException:
                extra.append(Obl(f'{tag}.rejects_only_rectangles_leaving_the_screen', list(s.pc), z3.Not(inside)))
            else:
                # an IndexError path: must be infeasible
                extra.append(Obl(f'{tag}.no_{sig[1].cls.__name__}_every_touched_pixel_is_inside_the_frame_buffer', list(s.pc), z3.BoolVal(False), meta=dict(path='/'.join(s.path[-6:]))))
        else:
            n_ret += 1
            extra.append(Obl(f'{tag}.accepts_only_rectangles_inside_the_screen', list(s.pc), inside))
    if n_ret == 0:
        raise Undecided('no accepting path')
    return finish_unit(eng, extra)


def unit_framing() -> Dict[str, Any]:
    """command lengths as documented, for every address width"""
    DM, SC, X = _mods()
    eng = Engine(IntMath(), name='InMemoryScreen._command_length')
    extra: List[Obl] = []
    for w in (16, 32, 64):
        scr = SC.InMemoryScreen()
        scr.attach_memory(type('M', (), {'memory_width': w})())
        scr.width, scr.height = 7, 5
        want = {1: 8, 2: 1 + w // 8, 3: 1 + w // 8, 4: 9 + w // 8, 5: 1 + 35}
        got = {c: scr._command_length(c) for c in want}
        extra.append(Obl(f'{eng.name}[w{w}]:documented_lengths', [], z3.BoolVal(got == want), meta=dict(got=str(got))))
        bad = []
        for c in list(range(6, 256)) + [0]:
            try:
                scr._command_length(c)
                bad.append(c)
            except X.IODeviceException:
                pass
            except Exception as e:
                bad.append((c, type(e).__name__))
        extra.append(Obl(f'{eng.name}[w{w}]:every_other_command_byte_is_a_device_error', [], z3.BoolVal(not bad), meta=dict(bad=str(bad[:5]))))
    return finish_unit(eng, extra)


# ----------------------------------------------------------------------------- bounded: screen command streams


class FakeMem:
    def __init__(self, w: int, rng: random.Random):
        self.memory_width = w
        self.rng = rng
        self.bytes: Dict[int, int] = {}

    def read_data_byte(self, op_addr: int) -> int:
        return self.bytes.setdefault(op_addr, self.rng.randrange(256))


def model_screen(stream: List[int], w: int, mem: 'FakeMem'):
    """independent decoder of the documented layout; returns (frames, error?)"""
    ab = w // 8
    dw = 2 * w
    width = height = 0
    bpp, psize = 8, 0
    palette: List[Tuple[int, int, int]] = []
    pix: List[int] = []
    frames = []
    i = 0

    def u16(o):
        return stream[o] | (stream[o + 1] << 8)

    def addr(o):
        return sum(stream[o + k] << (8 * k) for k in range(ab))

    while i < len(stream):
        c = stream[i]
        if c == 1:
            ln = 8
        elif c in (2, 3):
            ln = 1 + ab
        elif c == 4:
            ln = 9 + ab
        elif c == 5:
            if width == 0:
                return frames, 'error'
            ln = 1 + width * height
        else:
            return frames, 'error'
        if i + ln > len(stream):
            return frames, None  # incomplete trailing command: buffered, nothing happens
        p = i + 1
        if c == 1:
            wd, hg, bp, ps = u16(p), u16(p + 2), stream[p + 4], u16(p + 5)
            if bp not in (4, 8) or wd == 0 or hg == 0:
                return frames, 'error'
            width, height, bpp, psize = wd, hg, bp, ps
            palette = [(0, 0, 0)] * ps
            pix = [0] * (wd * hg)
        elif c == 2:
            a = addr(p)
            b = [mem.read_data_byte(a + k * dw) for k in range(3 * psize)]
            palette = [(b[3 * k], b[3 * k + 1], b[3 * k + 2]) for k in range(psize)]
        elif c == 3:
            if width == 0:
                return frames, 'error'
            a = addr(p)
            pix = [mem.read_data_byte(a + k * dw) & ((1 << bpp) - 1) for k in range(width * height)]
            frames.append((list(pix), list(palette)))
        elif c == 4:
            if width == 0:
                return frames, 'error'
            x, y, rw, rh, a = u16(p), u16(p + 2), u16(p + 4), u16(p + 6), addr(p + 8)
            if x + rw > width or y + rh > height:
                return frames, 'error'
            for r in range(rh):
                for cc in range(rw):
                    pix[(y + r) * width + x + cc] = mem.read_data_byte(a + ((y + r) * width + x + cc) * dw) & ((1 << bpp) - 1)
            frames.append((list(pix), list(palette)))
        else:
            pix = [b & ((1 << bpp) - 1) for b in stream[p : p + width * height]]
            frames.append((list(pix), list(palette)))
        i += ln
    return frames, None


def bounded_screen(rep: Report, tier: str, seed: int) -> None:
    DM, SC, X = _mods()
    rng = random.Random(seed + 41)
    n = 400 if tier != 'thorough' else 8000
    evals, distinct = 0, set()
    for it in range(n):
        w = rng.choice([16, 32, 64])
        ab = w // 8
        stream: List[int] = []
        wd, hg = rng.randrange(1, 6), rng.randrange(1, 5)
        for _ in range(rng.randrange(1, 7)):
            r = rng.random()
            if r < 0.3:
                wd, hg = rng.choice([wd, rng.randrange(0, 6)]), rng.choice([hg, rng.randrange(0, 5)])
                stream += [1, wd & 255, wd >> 8, hg & 255, hg >> 8, rng.choice([8, 8, 4, 3]), rng.randrange(0, 5), 0]
            elif r < 0.4:
                stream += [2] + list((rng.randrange(64) * 2 * w).to_bytes(ab, 'little'))
            elif r < 0.55:
                stream += [3] + list((rng.randrange(64) * 2 * w).to_bytes(ab, 'little'))
            elif r < 0.8:
                x, y = rng.randrange(0, 6), rng.randrange(0, 5)
                rw, rh = rng.randrange(0, 7), rng.randrange(0, 6)
                stream += [4, x, 0, y, 0, rw, 0, rh, 0] + list((rng.randrange(64) * 2 * w).to_bytes(ab, 'little'))
            elif r < 0.9:
                stream += [5] + [rng.randrange(256) for _ in range(max(0, wd * hg))]
            else:
                stream += [rng.choice([0, 6, 9, 255])]
        if rng.random() < 0.2 and stream:
            stream = stream[: rng.randrange(len(stream))]
        seedm = rng.randrange(1 << 30)
        want_frames, want_err = model_screen(stream, w, FakeMem(w, random.Random(seedm)))
        scr = SC.InMemoryScreen()
        fm = FakeMem(w, random.Random(seedm))
        scr.attach_memory(fm)
        got_err = None
        got_frames = []
        orig_present = scr._present

        def present(scr=scr, got_frames=got_frames, orig=orig_present):
            orig()
            got_frames.append((list(scr.pixel_indices), list(scr.palette)))

        scr._present = present  # type: ignore[assignment]
        try:
            for b in stream:
                for k in range(8):
                    scr.write_bit(bool((b >> k) & 1))
        except X.IODeviceException:
            got_err = 'error'
        except Exception as e:
            got_err = 'RAW ' + type(e).__name__
        evals += 1
        distinct.add((w, tuple(stream)))
        why = None
        if got_err != want_err:
            why = f'decoder outcome {got_err!r}, documented layout gives {want_err!r}'
        elif got_frames != want_frames:
            why = f'{len(got_frames)} frames presented, expected {len(want_frames)} (or pixel/palette contents differ)'
        elif len(scr.frame_hashes) != len(want_frames):
            why = 'frame hash log length differs from the frames presented'
        if why:
            rep.violation(Violation('bounded:screen_streams.decoded_as_documented', f'w={w} stream={stream[:40]}: {why}', dict(w=w, stream=stream), True, key=why.split(' ')[0]))
            if len(rep.violations) > 4:
                break
    rep.add_bounded('screen command streams (valid and malformed) against an independent decoder of the documented layout', f'{n} random streams x w in 16/32/64 (init, palette, full/rectangle/raw updates, unknown commands, truncation)', evals, len(distinct))


def body(tier: str, seed: int) -> int:
    rep = Report(PROP, 'quick' if tier.startswith('replay') else tier, seed, 'proof', f'./check {PROP} --tier {tier}')
    DM, SC, X = _mods()
    jobs: List[tuple] = [(unit_packed_byte, (w,)) for w in (8, 16, 32, 64)] + [(unit_reader_adapter, (w,)) for w in (16, 64)] + [(unit_rectangle, ()), (unit_framing, ())]
    th = tier == 'thorough'
    native = [(32, True), (64, False)] if not th else [(w, fl) for w in (8, 16, 32, 64) for fl in (True, False)]
    jobs += [(unit_native_accessor, (nm, w, fl)) for nm in ('Memory_get_word', 'Memory_set_word') for w, fl in native]
    jobs += [(unit_native_adapter, (w,)) for w in (16, 32, 64)]
    run_and_discharge(rep, jobs)
    for f in (DM.DeviceMemory.read_data_byte, DM.DeviceMemory.write_data_byte, DM.ReaderDeviceMemory.read_word, DM.ReaderDeviceMemory.write_word, DM.NativeDeviceMemory.read_word, DM.NativeDeviceMemory.write_word, SC.InMemoryScreen._update_rectangle, SC.InMemoryScreen._command_length):
        rep.add_function(f.__module__, f.__qualname__, Engine.func_lines(f))
    rep.add_function('flipjump/interpreter/_fjcore.c', 'Memory_get_word, Memory_set_word', '', f'from any state satisfying Rep; instantiations (width, flat storage) {native}; callees by contract: flat_seg_contains, mem_get_page [A]')
    rep.assume('[A] PyArg_ParseTuple("K"/"KK") fails with an exception set or stores arbitrary 64-bit values in its out-parameters; PyLong_FromUnsignedLongLong returns a new int of that value or NULL with an exception set; mem_get_page as in C01/C07')
    rep.assume('[B only] InMemoryScreen._execute_command / _present / _set_palette / _update_screen and Memory_get_words/set_words (bulk load): exercised on every engine and on random command streams')
    rep.assume('same frames on every engine = C07 (same memory) + these adapter contracts')
    rep.trust('pyvc symbolic executor; z3 / cvc5')
    isolated.run(rep, 'devmem', 2500 if th else 200, seed)
    bounded_screen(rep, tier, seed)
    return rep.finish()


if __name__ == '__main__':
    main_wrapper(PROP, body)
