"""
C01 / C07 / C11 / C18 (native side): verification units over the clang AST of the current _fjcore.c.

  unit_helper(name, w)      the body of a helper refines its contract (contracts/c/fjcore.py), preserves
                            Rep, and every memory access / shift / signed operation in it is safe
  unit_validity(name)       flat_seg_contains / word_is_valid compute V (loop invariants over the segments)
  unit_loop(loop, w, ring)  one op of a run loop, cut at the code's own join labels, against spec.machine
"""
from __future__ import annotations

from typing import Any, Dict, List, Optional, Tuple

import z3

from contracts.c.fjcore import PAGE_BITS, PAGE_MASK, PAGE_WORDS, NativeModel, i32
from vc.common import Obl, Undecided, finish_unit
from vc.cvc.cfg import Linear, load_functions
from vc.cvc.exec import NULL, CExec, CState, Ptr, u64

WIDTHS = (8, 16, 32, 64)

HELPER_CALLEES = {
    'flat_is_garbage': (),
    'flat_garbage': (),
    'flat_garbage_check': ('flat_seg_contains', 'flat_garbage'),
    'access_check': ('word_is_valid',),
    'mem_read_word': ('flat_is_garbage', 'flat_garbage_check', 'mem_get_page', 'access_check'),
    'mem_flip_bit': ('flat_is_garbage', 'flat_garbage_check', 'mem_get_page', 'access_check'),
    'mem_write_bit': ('flat_is_garbage', 'flat_garbage_check', 'mem_get_page', 'access_check'),
    'mem_get_word_unaligned': ('mem_read_word',),
}


class _Unit:
    """adapter so finish_unit() can serialize a CExec's obligations"""

    def __init__(self, ex: CExec):
        self.obligations = ex.obligations
        self.dropped = ['fprintf/fflush diagnostics', 'double arithmetic (timing only; opaque)']


def _ret_eq(a: Any, b: Any) -> Any:
    if isinstance(a, Ptr) or isinstance(b, Ptr):
        if not (isinstance(a, Ptr) and isinstance(b, Ptr)):
            return z3.BoolVal(False)
        if a.kind == 'null' or b.kind == 'null':
            return a.null == b.null
        return z3.And(a.null == b.null, z3.Or(a.null, a.where == b.where)) if a.kind == b.kind == 'page' else z3.BoolVal(a.kind == b.kind)
    if a is None or b is None:
        return z3.BoolVal(a is None and b is None)
    if isinstance(a, z3.BoolRef):
        a = z3.If(a, i32(1), i32(0))
    if isinstance(b, z3.BoolRef):
        b = z3.If(b, i32(1), i32(0))
    return a == b


def unit_helper(name: str, w: int) -> Dict[str, Any]:
    fns = load_functions()
    if name not in fns:
        raise Undecided(f'function {name} not found in _fjcore.c')
    nm = NativeModel(w)
    ex = CExec(Linear(fns[name]), name=f'{name}[w{w}]')
    nm.install(ex, HELPER_CALLEES[name])
    st = nm.st0.fork()
    for c in nm.rep(st):
        st.assume(c)
    params = [p for p, _ in ex.lin.params]
    args: List[Any] = []
    for p, t in ex.lin.params:
        q = t['qualType']
        if 'MemoryObject' in q:
            v: Any = Ptr('mem')
        elif q.startswith('Page'):
            pidx = z3.BitVec('arg_' + p, 64)
            v = Ptr('page', pidx)
            a_name = [x for x, _ in ex.lin.params if x == 'word_address'][0]
        elif q.replace('const ', '').startswith('uint64_t *'):
            st.vars['@out'] = z3.BitVec('out_before', 64)
            v = Ptr('u64', ('local', '@out'))
        elif q == 'int':
            v = z3.BitVec('arg_' + p, 32)
        else:
            v = z3.BitVec('arg_' + p, 64)
        st.vars[p] = v
        args.append(v)
    if name == 'access_check':
        pg, a = st.vars['page'], st.vars['word_address']
        st.assume(pg.where == z3.LShR(a, u64(PAGE_BITS)))
        st.assume(z3.Select(st.M['pg_exists'], pg.where))
    extra: List[Obl] = [Obl(f'{ex.name}:cover.requires', list(st.pc), None, 'cover')]
    outs = ex.run(st, 0, stop=set())
    n_before = len(ex.obligations)
    c_outs = list(nm.contracts()[name](ex, st, args, None))
    del ex.obligations[n_before:]
    npc = len(st.pc)
    for i, (sb, where) in enumerate(outs):
        if where[0] != 'return':
            raise Undecided(f'{name}: path ended at label {where[1]}')
        rb = where[1]
        alts = []
        for sc, rc in c_outs:
            conds = list(sc.pc[npc:]) + [_ret_eq(rb, rc), nm.same_state(sb, sc)]
            if '@out' in st.vars:
                conds.append(sb.vars['@out'] == sc.vars['@out'])
            alts.append(z3.And(*conds))
        tag = f'{ex.name}:path{i}'
        extra.append(Obl(f'{tag}.behaves_as_the_contract_says', list(sb.pc), z3.Or(*alts) if alts else z3.BoolVal(False), meta=dict(path='/'.join(sb.path[-6:]))))
        extra.append(Obl(f'{tag}.cover', list(sb.pc), None, 'cover'))
        for nm_, c in nm.rep_changed(st, sb):
            extra.append(Obl(f'{tag}.Rep_preserved.{nm_}', list(sb.pc), c))
    if not outs:
        raise Undecided(f'{name}: no paths')
    extra.append(Obl(f'{ex.name}:canary', list(st.pc), None, 'canary'))
    return finish_unit(_Unit(ex), extra)


# ----------------------------------------------------------------------------- the segment list (ghost V)

SEG_BOUND = 1 << 40  # [A] the segment array is an allocation: segment_count <= segment_capacity < 2^40 entries


class SegModel:
    """the link between the ghost valid-set V and the segment array: V is DEFINED as the union of the listed
    ranges (H1: every listed range is inside V;  H2: every word of V is in some listed range, with a ghost
    witness function), ranges are well formed (start <= end);  after mem_ensure_segments_sorted they are
    pairwise disjoint and ordered."""

    def __init__(self, nm: NativeModel):
        self.nm = nm
        self.wit = z3.Function('seg_witness', z3.BitVecSort(64), z3.BitVecSort(64))

    @staticmethod
    def inside(st: CState, k, a):
        return z3.And(z3.ULE(z3.Select(st.M['seg_start'], k), a), z3.ULT(a, z3.Select(st.M['seg_end'], k)))

    @staticmethod
    def idx(st: CState, k):
        return z3.And(k >= 0, k < st.M['f:segment_count'])

    def H1(self, st: CState):
        k, a = z3.BitVec('k_h1', 64), z3.BitVec('a_h1', 64)
        return z3.ForAll([k, a], z3.Implies(z3.And(self.idx(st, k), self.inside(st, k, a)), z3.Select(self.nm.V, a)))

    def H2(self, st: CState, wit=None):
        a = z3.BitVec('a_h2', 64)
        wit = self.wit if wit is None else wit
        return z3.ForAll([a], z3.Implies(z3.Select(self.nm.V, a), z3.And(self.idx(st, wit(a)), self.inside(st, wit(a), a))))

    def WF(self, st: CState):
        k = z3.BitVec('k_wf', 64)
        return z3.ForAll([k], z3.Implies(self.idx(st, k), z3.ULE(z3.Select(st.M['seg_start'], k), z3.Select(st.M['seg_end'], k))))

    def disjoint(self, st: CState):
        i, j = z3.BitVec('i_dj', 64), z3.BitVec('j_dj', 64)
        return z3.ForAll([i, j], z3.Implies(z3.And(i >= 0, i < j, j < st.M['f:segment_count']), z3.ULE(z3.Select(st.M['seg_end'], i), z3.Select(st.M['seg_start'], j))))

    def assume_defined(self, st: CState) -> None:
        st.assume(st.M['f:segment_count'] >= 0)
        st.assume(st.M['f:segment_count'] <= z3.BitVecVal(SEG_BOUND, 64))
        st.assume(st.M['f:segment_count'] <= st.M['f:segment_capacity'])  # Rep of the list (kept by Memory_add_segment)
        for c in (self.H1(st), self.H2(st), self.WF(st)):
            st.assume(c)

    def ensure_sorted_contract(self, ex: CExec, st: CState, args, node):
        """mem_ensure_segments_sorted (qsort [A] + the merge loop, verified in unit_validity('mem_ensure_segments_sorted')):
        the list may be rewritten; V's definition, well-formedness are kept, the ranges are now disjoint and ordered"""
        s = st.fork()
        n = ex.fresh_counter = getattr(ex, 'fresh_counter', 0) + 1
        s.M['seg_start'] = z3.Array(f'seg_start_sorted{n}', z3.BitVecSort(64), z3.BitVecSort(64))
        s.M['seg_end'] = z3.Array(f'seg_end_sorted{n}', z3.BitVecSort(64), z3.BitVecSort(64))
        s.M['f:segment_count'] = z3.BitVec(f'segment_count_sorted{n}', 64)
        s.M['f:segments_sorted'] = i32(1)
        wit2 = z3.Function(f'seg_witness_sorted{n}', z3.BitVecSort(64), z3.BitVecSort(64))
        s.ghost['seg_wit'] = wit2
        s.assume(s.M['f:segment_count'] >= 0)
        s.assume(s.M['f:segment_count'] <= st.M['f:segment_count'])
        for c in (self.H1(s), self.H2(s, wit2), self.WF(s), self.disjoint(s)):
            s.assume(c)
        yield (s, None)


def _loop_paths(ex: CExec, st0: CState, head: str, inv, havoc, tag: str, extra: List[Obl]):
    """Floyd/Hoare for one loop cut at its head label: returns the list of (state, return value) of every path
    that returns (before the loop, from an arbitrary iteration); emits invariant init / preservation obligations."""
    rets = []
    for i, (s, where) in enumerate(ex.run(st0, 0, stop={head})):
        if where[0] == 'return':
            rets.append((s, where[1], f'{tag}:before_loop.path{i}'))
        else:
            for nm_, c in inv(s):
                extra.append(Obl(f'{tag}:loop.invariant_holds_on_entry.{nm_}.path{i}', list(s.pc), c))
    sh = st0.fork()
    havoc(sh)
    for nm_, c in inv(sh):
        sh.assume(c)
    extra.append(Obl(f'{tag}:loop.cover.invariant_satisfiable', list(sh.pc), None, 'cover'))
    for i, (s, where) in enumerate(ex.run(sh, head, stop={head})):
        if where[0] == 'return':
            rets.append((s, where[1], f'{tag}:from_an_iteration.path{i}'))
        else:
            for nm_, c in inv(s):
                extra.append(Obl(f'{tag}:loop.invariant_preserved.{nm_}.path{i}', list(s.pc), c))
    return rets


def unit_validity(name: str) -> Dict[str, Any]:
    """flat_seg_contains, word_is_valid, page_compute_validity against the definition of the ghost valid-set V
    (loop invariants over the segment array; width-independent)"""
    fns = load_functions()
    if name not in fns:
        raise Undecided(f'function {name} not found in _fjcore.c')
    nm = NativeModel(64)
    sm = SegModel(nm)
    ex = CExec(Linear(fns[name]), name=name)
    ex.contracts['mem_ensure_segments_sorted'] = sm.ensure_sorted_contract
    st = nm.st0.fork()
    sm.assume_defined(st)
    a = z3.BitVec('arg_word_address', 64)
    extra: List[Obl] = [Obl(f'{name}:cover.requires', list(st.pc), None, 'cover')]
    heads = [lab for lab in ex.lin.labels if lab.endswith('.head')]
    if len(heads) != 1:
        raise Undecided(f'{name}: expected exactly one loop, found {len(heads)}')
    k = z3.BitVec('k_inv', 64)
    if name == 'flat_seg_contains':
        st.vars['m'], st.vars['word_address'] = Ptr('mem'), a

        def inv(s):
            seg = s.vars['seg']
            yield ('index_in_range', z3.And(seg >= 0, seg <= s.M['f:segment_count']))
            yield ('no_earlier_range_contains_the_word', z3.ForAll([k], z3.Implies(z3.And(k >= 0, k < seg), z3.Not(sm.inside(s, k, a)))))

        def havoc(s):
            s.vars['seg'] = z3.BitVec('seg_any', 64)

        for s, v, tag in _loop_paths(ex, st, heads[0], inv, havoc, name, extra):
            extra.append(Obl(f'{tag}.returns_membership_in_V', list(s.pc), (v != 0) == z3.Select(nm.V, a)))
            extra.append(Obl(f'{tag}.returns_0_or_1', list(s.pc), z3.Or(v == 0, v == 1)))
            extra.append(Obl(f'{tag}.cover', list(s.pc), None, 'cover'))
    elif name == 'word_is_valid':
        st.vars['m'], st.vars['word_address'] = Ptr('mem'), a

        def inv(s):
            lo, hi, n = s.vars['lo'], s.vars['hi'], s.M['f:segment_count']
            yield ('bounds', z3.And(lo >= 0, hi < n, lo <= hi + 1, hi >= -1))
            yield ('ranges_left_of_lo_end_before_the_word', z3.ForAll([k], z3.Implies(z3.And(k >= 0, k < lo), z3.ULE(z3.Select(s.M['seg_end'], k), a))))
            yield ('ranges_right_of_hi_start_after_the_word', z3.ForAll([k], z3.Implies(z3.And(k > hi, k < n), z3.ULT(a, z3.Select(s.M['seg_start'], k)))))

        def havoc(s):
            s.vars['lo'], s.vars['hi'] = z3.BitVec('lo_any', 64), z3.BitVec('hi_any', 64)

        # the loop starts after the call of mem_ensure_segments_sorted: take that state as the loop's context
        pre = [s for s, w_ in ex.run(st, 0, stop={heads[0]}) if w_[0] == 'label']
        if len(pre) != 1:
            raise Undecided('word_is_valid: expected one path to the loop')
        ctx = pre[0]
        for nm_, c in inv(ctx):
            extra.append(Obl(f'{name}:loop.invariant_holds_on_entry.{nm_}', list(ctx.pc), c))
        sh = ctx.fork()
        havoc(sh)
        for nm_, c in inv(sh):
            sh.assume(c)
        extra.append(Obl(f'{name}:loop.cover.invariant_satisfiable', list(sh.pc), None, 'cover'))
        for i, (s, where) in enumerate(ex.run(sh, heads[0], stop={heads[0]})):
            tag = f'{name}:from_an_iteration.path{i}'
            if where[0] == 'return':
                v = where[1]
                extra.append(Obl(f'{tag}.returns_membership_in_V', list(s.pc), (v != 0) == z3.Select(nm.V, a)))
                extra.append(Obl(f'{tag}.returns_0_or_1', list(s.pc), z3.Or(v == 0, v == 1)))
                extra.append(Obl(f'{tag}.cover', list(s.pc), None, 'cover'))
            else:
                for nm_, c in inv(s):
                    extra.append(Obl(f'{name}:loop.invariant_preserved.{nm_}.path{i}', list(s.pc), c))
    elif name == 'page_compute_validity':
        p = z3.BitVec('arg_page_index', 64)
        st.assume(z3.ULT(p, u64(1 << 50)))
        st.assume(z3.Select(st.M['pg_exists'], p))
        st.vars['m'], st.vars['page_index'], st.vars['page'] = Ptr('mem'), p, Ptr('page', p)
        o = z3.BitVec('o_pcv', 64)

        def sound(s):
            vs, ve = z3.Select(s.M['pg_valid_start'], p), z3.Select(s.M['pg_valid_end'], p)
            return z3.And(z3.ULE(ve, u64(PAGE_WORDS)), z3.ForAll([o], z3.Implies(z3.And(z3.ULE(vs, o), z3.ULT(o, ve)), z3.Select(nm.V, (p << u64(PAGE_BITS)) + o))))

        pre = [s for s, w_ in ex.run(st, 0, stop={heads[0]}) if w_[0] == 'label']
        if len(pre) != 1:
            raise Undecided('page_compute_validity: expected one path to the loop')
        ctx = pre[0]

        def inv(s):
            i = s.vars['i']
            yield ('index_in_range', z3.And(i >= 0, i <= s.M['f:segment_count']))
            yield ('fast_range_still_empty', z3.And(z3.Select(s.M['pg_valid_start'], p) == 0, z3.Select(s.M['pg_valid_end'], p) == 0))

        for nm_, c in inv(ctx):
            extra.append(Obl(f'{name}:loop.invariant_holds_on_entry.{nm_}', list(ctx.pc), c))
        sh = ctx.fork()
        sh.vars['i'] = z3.BitVec('i_any', 64)
        for nm_, c in inv(sh):
            sh.assume(c)
        extra.append(Obl(f'{name}:loop.cover.invariant_satisfiable', list(sh.pc), None, 'cover'))
        for i_, (s, where) in enumerate(ex.run(sh, heads[0], stop={heads[0]})):
            tag = f'{name}:from_an_iteration.path{i_}'
            if where[0] == 'return':
                extra.append(Obl(f'{tag}.fast_valid_range_is_inside_the_page_and_inside_V', list(s.pc), sound(s)))
                extra.append(Obl(f'{tag}.only_this_page_record_changes', list(s.pc), z3.And(*[s.M[f] is ctx.M[f] or s.M[f] == ctx.M[f] for f in ('flat', 'pg_words', 'pg_exists')])))
                extra.append(Obl(f'{tag}.cover', list(s.pc), None, 'cover'))
            else:
                for nm_, c in inv(s):
                    extra.append(Obl(f'{name}:loop.invariant_preserved.{nm_}.path{i_}', list(s.pc), c))
    elif name == 'mem_ensure_segments_sorted':
        st.vars['m'] = Ptr('mem')
        n0 = st.M['f:segment_count']
        BV = z3.BitVecSort(64)
        S0, E0 = z3.Array('seg_start_qsorted', BV, BV), z3.Array('seg_end_qsorted', BV, BV)
        w0 = z3.Function('seg_witness_qsorted', BV, BV)
        x, j = z3.BitVec('x_es', 64), z3.BitVec('j_es', 64)

        def in0(jj, xx):
            return z3.And(z3.ULE(z3.Select(S0, jj), xx), z3.ULT(xx, z3.Select(E0, jj)))

        def qsort(e, s0, args, node):
            """[A] qsort with segment_compare: a permutation of the entries ordered by start - so every entry is
            still an original range (inside V, well formed) and every word of V is still in some entry"""
            s = s0.fork()
            s.M['seg_start'], s.M['seg_end'] = S0, E0
            i2 = z3.BitVec('i_sorted', 64)
            for tagq, c in (('q:inside_V', z3.ForAll([j, x], z3.Implies(z3.And(j >= 0, j < n0, in0(j, x)), z3.Select(nm.V, x)))),
                            ('q:covers_V', z3.ForAll([x], z3.Implies(z3.Select(nm.V, x), z3.And(w0(x) >= 0, w0(x) < n0, in0(w0(x), x))))),
                            ('q:well_formed', z3.ForAll([j], z3.Implies(z3.And(j >= 0, j < n0), z3.ULE(z3.Select(S0, j), z3.Select(E0, j))))),
                            ('q:sorted', z3.ForAll([i2, j], z3.Implies(z3.And(i2 >= 0, i2 < j, j < n0), z3.ULE(z3.Select(S0, i2), z3.Select(S0, j)))))):
                s.assume(c)
                tags[c.get_id()] = tagq
            s.ghost['qsorted'] = True
            yield (s, None)

        ex.contracts['qsort'] = qsort
        g_any = z3.Array('ghost_merged_into', BV, BV)
        tags: Dict[int, str] = {}
        # which quantified hypotheses each invariant clause's preservation argument uses (the others are hidden from
        # the solver: smaller queries are the stable ones); ground hypotheses are always kept
        NEEDS = {
            'indices': (),
            'merged_prefix_is_disjoint_and_ordered': ('merged_prefix_is_disjoint_and_ordered', 'merged_prefix_is_well_formed', 'rest_is_untouched'),
            'merged_prefix_is_well_formed': ('merged_prefix_is_well_formed', 'rest_is_untouched', 'q:well_formed'),
            'merged_prefix_is_inside_V': ('merged_prefix_is_inside_V', 'rest_is_untouched', 'q:inside_V', 'last_range_starts_before_the_rest'),
            'rest_is_untouched': ('rest_is_untouched',),
            'last_range_starts_before_the_rest': ('rest_is_untouched', 'last_range_starts_before_the_rest', 'q:sorted'),
            'processed_ranges_are_covered_by_the_prefix': ('processed_ranges_are_covered_by_the_prefix', 'rest_is_untouched', 'last_range_starts_before_the_rest', 'q:well_formed'),
            'post:sorted_flag_set': (),
            'post:count_does_not_grow': (),
            'post:ranges_are_disjoint_and_ordered': ('merged_prefix_is_disjoint_and_ordered',),
            'post:ranges_well_formed': ('merged_prefix_is_well_formed',),
            'post:every_range_is_inside_V': ('merged_prefix_is_inside_V',),
            'post:every_word_of_V_is_in_a_range': ('processed_ranges_are_covered_by_the_prefix', 'q:covers_V'),
        }

        def hyps_for(s, clause):
            keep = set(NEEDS[clause])
            out = []
            for c in s.pc:
                t = tags.get(c.get_id())
                if not z3.is_quantifier(c) or (t is not None and t in keep):
                    out.append(c)  # (untagged quantified hypotheses define V over the UNSORTED list: unused after qsort)
            return out

        def post(s, wit, tag):
            n = s.M['f:segment_count']
            yield ('sorted_flag_set', s.M['f:segments_sorted'] != 0)
            yield ('count_does_not_grow', z3.And(n >= 0, n <= n0))
            yield ('ranges_are_disjoint_and_ordered', sm.disjoint(s))
            yield ('ranges_well_formed', sm.WF(s))
            yield ('every_range_is_inside_V', sm.H1(s))
            yield ('every_word_of_V_is_in_a_range', z3.ForAll([x], z3.Implies(z3.Select(nm.V, x), z3.And(sm.idx(s, wit(x)), sm.inside(s, wit(x), x)))))

        def inv(s):
            last, i, g = s.vars['last'], s.vars['i'], s.ghost['g']
            yield ('indices', z3.And(last >= 0, last < i, i <= n0, s.M['f:segment_count'] == n0))
            p, q = z3.BitVec('p_es', 64), z3.BitVec('q_es', 64)
            yield ('merged_prefix_is_disjoint_and_ordered', z3.ForAll([p, q], z3.Implies(z3.And(p >= 0, p < q, q <= last), z3.ULT(z3.Select(s.M['seg_end'], p), z3.Select(s.M['seg_start'], q)))))
            yield ('merged_prefix_is_well_formed', z3.ForAll([p], z3.Implies(z3.And(p >= 0, p <= last), z3.ULE(z3.Select(s.M['seg_start'], p), z3.Select(s.M['seg_end'], p)))))
            yield ('merged_prefix_is_inside_V', z3.ForAll([p, x], z3.Implies(z3.And(p >= 0, p <= last, sm.inside(s, p, x)), z3.Select(nm.V, x))))
            yield ('rest_is_untouched', z3.ForAll([j], z3.Implies(z3.And(j >= i, j < n0), z3.And(z3.Select(s.M['seg_start'], j) == z3.Select(S0, j), z3.Select(s.M['seg_end'], j) == z3.Select(E0, j)))))
            yield ('last_range_starts_before_the_rest', z3.ForAll([j], z3.Implies(z3.And(j >= i, j < n0), z3.ULE(z3.Select(s.M['seg_start'], last), z3.Select(S0, j)))))
            yield ('processed_ranges_are_covered_by_the_prefix', z3.ForAll([j, x], z3.Implies(z3.And(j >= 0, j < i, in0(j, x)), z3.And(z3.Select(g, j) >= 0, z3.Select(g, j) <= last, sm.inside(s, z3.Select(g, j), x)))))

        n_ret = 0
        for i_, (s, where) in enumerate(ex.run(st, 0, stop={heads[0]})):
            tag = f'{name}:before_loop.path{i_}'
            if where[0] == 'return':
                if s.ghost.get('qsorted'):
                    # 0 or 1 entries: nothing to merge; witness of the sorted list
                    for nm_, c in post(s, w0, tag):
                        extra.append(Obl(f'{tag}.{nm_}', list(s.pc), c))
                else:
                    extra.append(Obl(f'{tag}.already_sorted_list_is_untouched', list(s.pc) + [st.M['f:segments_sorted'] != 0], z3.And(s.M['seg_start'] == st.M['seg_start'], s.M['seg_end'] == st.M['seg_end'], s.M['f:segment_count'] == n0)))
                extra.append(Obl(f'{tag}.cover', list(s.pc), None, 'cover'))
                n_ret += 1
            else:
                s.ghost['g'] = z3.Store(g_any, z3.BitVecVal(0, 64), z3.BitVecVal(0, 64))
                for nm_, c in inv(s):
                    extra.append(Obl(f'{name}:loop.invariant_holds_on_entry.{nm_}.path{i_}', list(s.pc), c))
                ctx = s
        sh = ctx.fork()
        sh.vars['last'], sh.vars['i'] = z3.BitVec('last_any', 64), z3.BitVec('i_any', 64)
        sh.M['seg_start'], sh.M['seg_end'] = z3.Array('seg_start_any', BV, BV), z3.Array('seg_end_any', BV, BV)
        sh.ghost['g'] = g_any
        for nm_, c in inv(sh):
            sh.assume(c)
            tags[c.get_id()] = nm_
        extra.append(Obl(f'{name}:loop.cover.invariant_satisfiable', list(sh.pc), None, 'cover'))
        i_h = sh.vars['i']
        for i_, (s, where) in enumerate(ex.run(sh, heads[0], stop={heads[0]})):
            tag = f'{name}:from_an_iteration.path{i_}'
            if where[0] == 'return':
                wit = lambda xx, s=s: z3.Select(g_any, w0(xx))
                for nm_, c in post(s, wit, tag):
                    extra.append(Obl(f'{tag}.{nm_}', hyps_for(s, 'post:' + nm_), c))
                extra.append(Obl(f'{tag}.cover', list(s.pc), None, 'cover'))
            else:
                s.ghost['g'] = z3.Store(g_any, i_h, s.vars['last'])  # ghost update: entry i was merged into / became `last`
                for nm_, c in inv(s):
                    extra.append(Obl(f'{name}:loop.invariant_preserved.{nm_}.path{i_}', hyps_for(s, nm_), c))
    else:
        raise Undecided(f'unit_validity: no specification for {name}')
    extra.append(Obl(f'{name}:canary', list(st.pc), None, 'canary'))
    return finish_unit(_Unit(ex), extra)


def unit_add_segment() -> Dict[str, Any]:
    """Memory_add_segment (before any page exists - the order _run_native uses): a rejected or failed call changes
    nothing; an accepted call appends exactly the range [start, start+length) - V' = V u range - keeps the list
    invariant (count <= capacity, ranges well formed: the overflow test) and clears the sorted flag."""
    fns = load_functions()
    name = 'Memory_add_segment'
    if name not in fns:
        raise Undecided(f'function {name} not found in _fjcore.c')
    nm = NativeModel(64)
    sm = SegModel(nm)
    ex = CExec(Linear(fns[name]), name=name)
    st = nm.st0.fork()
    sm.assume_defined(st)
    st.assume(st.M['f:segment_capacity'] >= 0)
    st.assume(st.M['f:segment_capacity'] <= z3.BitVecVal(SEG_BOUND, 64))
    st.M['slots_nonnull'] = z3.BoolVal(False)  # precondition: no page has been allocated yet
    st.vars['self'], st.vars['args'] = Ptr('mem'), Ptr('pyobj', 'args')
    st.vars['PyExc_ValueError'] = Ptr('pyobj', 'PyExc_ValueError')
    a0, l0 = z3.BitVec('api_start_word', 64), z3.BitVec('api_length_words', 64)

    def parse(e, s0, args, node):
        fail = s0.fork()
        fail.M['pyerr'] = z3.BoolVal(True)
        yield (fail, i32(0))
        ok = s0.fork()
        for p, val in zip(args[2:], (a0, l0)):
            if not (isinstance(p, Ptr) and isinstance(p.where, tuple) and p.where[0] == 'local'):
                raise Undecided('PyArg_ParseTuple out-parameter is not the address of a local')
            ok.vars[p.where[1]] = val
        ok.ghost['parsed'] = True
        yield (ok, i32(1))

    def set_error(e, s0, args, node):
        s = s0.fork()
        s.M['pyerr'] = z3.BoolVal(True)
        yield (s, None)

    def no_memory(e, s0, args, node):
        s = s0.fork()
        s.M['pyerr'] = z3.BoolVal(True)
        yield (s, NULL)

    def realloc(e, s0, args, node):
        """[A] realloc(segments, n): NULL (nothing changes) or a block of n bytes holding the old entries"""
        yield (s0.fork(), NULL)
        s = s0.fork()
        s.ghost['realloc_bytes'] = args[1]
        yield (s, Ptr('seg', ('segments', u64(0)), z3.BoolVal(False)))

    ex.contracts['PyArg_ParseTuple'] = ex.contracts['_PyArg_ParseTuple_SizeT'] = parse
    ex.contracts['PyErr_SetString'] = set_error
    ex.contracts['PyErr_NoMemory'] = no_memory
    ex.contracts['realloc'] = realloc
    ex.contracts['Py_INCREF'] = ex.contracts['_Py_INCREF'] = lambda e, s0, args, node: iter([(s0, None)])
    extra: List[Obl] = [Obl(f'{name}:cover.requires', list(st.pc), None, 'cover')]
    x, k = z3.BitVec('x_as', 64), z3.BitVec('k_as', 64)
    n0 = st.M['f:segment_count']
    for i, (s, where) in enumerate(ex.run(st, 0, stop=set())):
        if where[0] != 'return':
            raise Undecided(f'{name}: path ended at label {where[1]}')
        tag = f'{name}:path{i}'
        ret = where[1]
        extra.append(Obl(f'{tag}.cover', list(s.pc), None, 'cover'))
        if ret is NULL or (isinstance(ret, Ptr) and ret.kind == 'null'):
            extra.append(Obl(f'{tag}.failure_sets_an_error_and_leaves_the_list_unchanged', list(s.pc), z3.And(s.M['pyerr'], s.M['f:segment_count'] == n0, z3.ForAll([k], z3.Implies(z3.And(k >= 0, k < n0), z3.And(z3.Select(s.M['seg_start'], k) == z3.Select(st.M['seg_start'], k), z3.Select(s.M['seg_end'], k) == z3.Select(st.M['seg_end'], k)))))))
            continue
        n1 = s.M['f:segment_count']
        extra.append(Obl(f'{tag}.success_without_pending_error', list(s.pc), z3.Not(s.M['pyerr'])))
        extra.append(Obl(f'{tag}.appends_exactly_the_requested_range', list(s.pc), z3.And(n1 == n0 + 1, z3.Select(s.M['seg_start'], n0) == a0, z3.Select(s.M['seg_end'], n0) == a0 + l0, z3.ULE(a0, a0 + l0),
                                                                                     z3.ForAll([k], z3.Implies(z3.And(k >= 0, k < n0), z3.And(z3.Select(s.M['seg_start'], k) == z3.Select(st.M['seg_start'], k), z3.Select(s.M['seg_end'], k) == z3.Select(st.M['seg_end'], k)))))))
        extra.append(Obl(f'{tag}.list_invariant_kept', list(s.pc), z3.And(n1 <= s.M['f:segment_capacity'], s.M['f:segments_sorted'] == 0)))
        if 'realloc_bytes' in s.ghost:
            extra.append(Obl(f'{tag}.realloc_size_covers_the_new_capacity', list(s.pc), z3.And(s.ghost['realloc_bytes'] == s.M['f:segment_capacity'] * 16, s.M['f:segment_capacity'] > n0)))
    extra.append(Obl(f'{name}:canary', list(st.pc), None, 'canary'))
    return finish_unit(_Unit(ex), extra)


def unit_set_words(w: int) -> Dict[str, Any]:
    """Memory_set_words (the bulk load of _run_native; before the storage decision, i.e. page-backed): on success
    absM' = absM[start + j := values[j] & mask for 0 <= j < len(values)] and nothing else; on failure an error is
    set (words already stored stay stored - the caller discards the object); Rep is preserved either way; the
    reference taken on `values` and every item reference are released on every path."""
    fns = load_functions()
    name = 'Memory_set_words'
    if name not in fns:
        raise Undecided(f'function {name} not found in _fjcore.c')
    nm = NativeModel(w, flat=False)
    nh = NativeModel(w, tag='_head', flat=False)
    nh.V, nh.new_vstart, nh.new_vend = nm.V, nm.new_vstart, nm.new_vend
    ex = CExec(Linear(fns[name]), name=f'{name}[w{w}]')
    nm.install(ex, ('mem_get_page',))
    heads = [lab for lab in ex.lin.labels if lab.endswith('.head')]
    if len(heads) != 1:
        raise Undecided(f'{name}: expected exactly one loop')
    BV = z3.BitVecSort(64)
    start, n_items = z3.BitVec('api_start_word', 64), z3.BitVec('seq_len', 64)
    vals = z3.Array('seq_items', BV, BV)
    st = nm.st0.fork()
    for c in nm.rep(st):
        st.assume(c)
    st.vars['self'], st.vars['args'] = Ptr('mem'), Ptr('pyobj', 'args')
    st.vars['PyExc_ValueError'] = Ptr('pyobj', 'PyExc_ValueError')
    st.ghost['refs'] = 0

    def parse(e, s0, args, node):
        fail = s0.fork()
        fail.M['pyerr'] = z3.BoolVal(True)
        yield (fail, i32(0))
        ok = s0.fork()
        outs = args[2:]
        if len(outs) != 2 or not all(isinstance(p, Ptr) and isinstance(p.where, tuple) and p.where[0] == 'local' for p in outs):
            raise Undecided('PyArg_ParseTuple("KO") out-parameters are not two locals')
        ok.vars[outs[0].where[1]] = start
        ok.vars[outs[1].where[1]] = Ptr('pyobj', 'values')
        yield (ok, i32(1))

    def seq_size(e, s0, args, node):
        fail = s0.fork()
        fail.M['pyerr'] = z3.BoolVal(True)
        yield (fail, z3.BitVecVal(-1, 64))
        ok = s0.fork()
        ok.assume(n_items >= 0)
        yield (ok, n_items)

    def get_item(e, s0, args, node):
        fail = s0.fork()
        fail.M['pyerr'] = z3.BoolVal(True)
        yield (fail, NULL)
        ok = s0.fork()
        ok.ghost['refs'] = ok.ghost.get('refs', 0) + 1
        ok.ghost['item_index'] = args[1]
        yield (ok, Ptr('pyobj', 'item'))

    def as_ull(e, s0, args, node):
        ok = s0.fork()
        yield (ok, z3.Select(vals, s0.ghost['item_index']))
        fail = s0.fork()
        fail.M['pyerr'] = z3.BoolVal(True)
        yield (fail, z3.BitVecVal(-1, 64))

    def err_occurred(e, s0, args, node):
        yield (s0, Ptr('pyobj', 'exc', z3.Not(s0.M['pyerr'])))

    def incref(e, s0, args, node):
        s = s0.fork()
        s.ghost['refs'] = s.ghost.get('refs', 0) + 1
        yield (s, None)

    def decref(e, s0, args, node):
        s = s0.fork()
        s.ghost['refs'] = s.ghost.get('refs', 0) - 1
        yield (s, None)

    def set_error(e, s0, args, node):
        s = s0.fork()
        s.M['pyerr'] = z3.BoolVal(True)
        yield (s, None)

    for nme, h in (('PyArg_ParseTuple', parse), ('_PyArg_ParseTuple_SizeT', parse), ('PySequence_Size', seq_size), ('PySequence_GetItem', get_item),
                   ('PyLong_AsUnsignedLongLong', as_ull), ('PyErr_Occurred', err_occurred), ('Py_INCREF', incref), ('_Py_INCREF', incref),
                   ('Py_DECREF', decref), ('_Py_DECREF', decref), ('PyErr_SetString', set_error)):
        ex.contracts[nme] = h
    x = z3.BitVec('x_sw', 64)
    mask = u64(nm.mask)

    def loaded(s, model, upto):
        """abstract memory of s = entry memory with the first `upto` items stored"""
        return z3.ForAll([x], model.absM(s, x) == z3.If(z3.ULT(x - start, upto), z3.Select(vals, x - start) & mask, nm.absM(st, x)))

    extra: List[Obl] = [Obl(f'{ex.name}:cover.requires', list(st.pc), None, 'cover')]

    def at_return(s, ret, tag, base):
        extra.append(Obl(f'{tag}.cover', list(s.pc), None, 'cover'))
        extra.append(Obl(f'{tag}.every_reference_released', list(s.pc), z3.BoolVal(s.ghost.get('refs', 0) == 0)))
        for nm_, c in nm.rep_changed(base, s):
            extra.append(Obl(f'{tag}.Rep_preserved.{nm_}', list(s.pc), c))
        if ret is NULL or (isinstance(ret, Ptr) and ret.kind == 'null'):
            extra.append(Obl(f'{tag}.failure_sets_an_error', list(s.pc), s.M['pyerr']))
        else:
            extra.append(Obl(f'{tag}.success_without_pending_error', list(s.pc), z3.Not(s.M['pyerr'])))
            extra.append(Obl(f'{tag}.memory_is_the_entry_memory_with_every_item_stored_masked', list(s.pc), loaded(s, nm, n_items)))

    ctx = None
    for i, (s, where) in enumerate(ex.run(st, 0, stop={heads[0]})):
        if where[0] == 'return':
            at_return(s, where[1], f'{ex.name}:before_loop.path{i}', st)
            extra.append(Obl(f'{ex.name}:before_loop.path{i}.memory_untouched', list(s.pc), nm.same_state(st, s, tuple(k for k in nm.MEM_KEYS if k != 'pyerr'))))
        else:
            if ctx is not None:
                raise Undecided(f'{name}: more than one path reaches the loop')
            ctx = s
            extra.append(Obl(f'{ex.name}:loop.entry.holds_one_reference_and_no_error', list(s.pc), z3.And(z3.BoolVal(s.ghost.get('refs', 0) == 1), z3.Not(s.M['pyerr']), s.vars['i'] == 0, s.vars['count'] == n_items, s.vars['start_word'] == start)))
    if ctx is None:
        raise Undecided(f'{name}: the loop is not reached')
    # an arbitrary iteration: memory = any state satisfying Rep whose abstract memory is the entry memory + i items
    sh = nh.st0.fork()
    sh.pc = list(ctx.pc) + [c for c in sh.pc]
    sh.vars = dict(ctx.vars)
    sh.ghost = dict(ctx.ghost)
    sh.vars['i'] = z3.BitVec('i_any', 64)
    for c in nh.rep(sh):
        sh.assume(c)
    sh.assume(z3.And(sh.vars['i'] >= 0, sh.vars['i'] <= n_items))
    sh.assume(loaded(sh, nh, sh.vars['i']))
    sh.assume(z3.Not(sh.M['pyerr']))
    extra.append(Obl(f'{ex.name}:loop.cover.invariant_satisfiable', list(sh.pc), None, 'cover'))
    i_h = sh.vars['i']
    for i, (s, where) in enumerate(ex.run(sh, heads[0], stop={heads[0]})):
        if where[0] == 'return':
            tag = f'{ex.name}:from_an_iteration.path{i}'
            extra.append(Obl(f'{tag}.cover', list(s.pc), None, 'cover'))
            extra.append(Obl(f'{tag}.every_reference_released', list(s.pc), z3.BoolVal(s.ghost.get('refs', 0) == 0)))
            for nm_, c in nh.rep_changed(sh, s):
                extra.append(Obl(f'{tag}.Rep_preserved.{nm_}', list(s.pc), c))
            ret = where[1]
            if ret is NULL or (isinstance(ret, Ptr) and ret.kind == 'null'):
                extra.append(Obl(f'{tag}.failure_sets_an_error', list(s.pc), s.M['pyerr']))
            else:
                extra.append(Obl(f'{tag}.success_without_pending_error', list(s.pc), z3.Not(s.M['pyerr'])))
                extra.append(Obl(f'{tag}.memory_is_the_entry_memory_with_every_item_stored_masked', list(s.pc), loaded(s, nh, n_items)))
        else:
            tag = f'{ex.name}:loop.invariant_preserved.path{i}'
            extra.append(Obl(f'{tag}.index_advances_inside_the_sequence', list(s.pc), z3.And(s.vars['i'] == i_h + 1, s.vars['i'] <= n_items, s.vars['count'] == n_items, s.vars['start_word'] == start)))
            extra.append(Obl(f'{tag}.one_more_item_stored_nothing_else_changed', list(s.pc), loaded(s, nh, s.vars['i'])))
            extra.append(Obl(f'{tag}.no_error_and_one_reference_held', list(s.pc), z3.And(z3.Not(s.M['pyerr']), z3.BoolVal(s.ghost.get('refs', 0) == 1))))
            for nm_, c in nh.rep_changed(sh, s):
                extra.append(Obl(f'{tag}.Rep_preserved.{nm_}', list(s.pc), c))
            extra.append(Obl(f'{tag}.cover', list(s.pc), None, 'cover'))
    extra.append(Obl(f'{ex.name}:canary', list(st.pc), None, 'canary'))
    return finish_unit(_Unit(ex), extra)


# ----------------------------------------------------------------------------- the run loops


N_SPEC = 72  # width of the specification's arithmetic: nothing wraps there, so machine wrap-around in C shows


def _lift_spec(nm: NativeModel, st: CState, ip64, in_bit, in_avail):
    """the machine definition for the op that starts in state `st`: 72-bit arithmetic (nothing wraps), memory
    indexed by 64-bit word addresses.  M0 is a fresh array DEFINED as the abstraction of st (one universally
    quantified hypothesis, instantiated at the query's index terms) - no lambda terms, which the solvers and
    the instantiation pass handle badly."""
    from spec.machine import SymStep

    M0 = z3.Array('M0_spec', z3.BitVecSort(64), z3.BitVecSort(nm.w))
    a = z3.BitVec('a_m0', 64)
    st.assume(z3.ForAll([a], z3.Select(M0, a) == z3.Extract(nm.w - 1, 0, nm.absM(st, a))))
    return SymStep(z3, N_SPEC, nm.w, nm.V, M0, z3.ZeroExt(N_SPEC - 64, ip64), in_bit, in_avail, index_bits=64)


def _x(v):
    return z3.ZeroExt(N_SPEC - 64, v)


class NativeLoop:
    """one op of a native run loop, verified segment by segment between cut labels.

    Cut labels (the code's own join labels + the head of the do-while):
        HEAD -> flip_word_ready -> after_input -> after_flip -> jump_word_ready -> HEAD / exits
    Each cut carries a predicate over (current state, head snapshot, spec of this op).  A segment starts from
    an arbitrary state satisfying its cut's predicate and must reach the next cut with that cut's
    predicate, or leave the function with the machine definition's verdict."""

    CUTS = ('flip_word_ready', 'after_input', 'after_flip', 'jump_word_ready')

    def __init__(self, fname: str, w: int, with_ring: int = 0):
        fns = load_functions()
        if fname not in fns:
            raise Undecided(f'{fname} not found in _fjcore.c')
        self.fname, self.w, self.with_ring = fname, w, with_ring
        flat = True if fname == 'run_flat_loop_impl' else (False if (fname == 'run_paged_loop_impl' and not with_ring) else None)
        self.nm = nm = NativeModel(w, flat=flat)
        self.ex = ex = CExec(Linear(fns[fname]), name=f'{fname}[w{w}' + (f',ring{with_ring}' if fname == 'run_paged_loop_impl' else '') + ']')
        nm.install(ex, ('mem_get_page', 'flat_is_garbage', 'flat_garbage_check', 'mem_read_word', 'mem_flip_bit', 'mem_write_bit', 'mem_get_word_unaligned'))
        self.in_bit, self.in_avail = z3.Bool('in_bit'), z3.Bool('in_available')
        self._install_cpython()
        if fname != 'run_measured_loop':
            ex.consts = {'width': u64(w), 'ww': u64(nm.ww)}
            if fname == 'run_paged_loop_impl':
                ex.consts['with_ring'] = i32(with_ring)
        st = nm.st0.fork()
        for n in ('read_bit', 'write_bit', 'eof_exception_type'):
            st.vars[n] = Ptr('pyobj', n)
        st.vars['start_ip'] = z3.BitVec('start_ip', 64)
        st.assume(z3.ULE(st.vars['start_ip'], u64(nm.mask)))
        st.vars['ops_out'] = Ptr('u64', ('local', '@ops_out'))
        st.vars['@ops_out'] = u64(0)
        st.vars['paused_seconds_out'] = Ptr('localptr', ('local', '@paused'))
        st.vars['@paused'] = ('double',)
        if fname == 'run_paged_loop_impl':
            st.vars['last_ops_ring'] = Ptr('u64', ('ring', u64(0)), z3.BoolVal(not with_ring))
            st.vars['last_ops_length'] = z3.BitVec('ring_len', 64)
            st.assume(st.vars['last_ops_length'] >= (1 if with_ring else 0))
            st.M['ring'] = z3.Array('ring0', z3.BitVecSort(64), z3.BitVecSort(64))
            st.vars['ring_writes_out'] = Ptr('u64', ('local', '@rw'))
            st.vars['@rw'] = u64(0)
        self.hist = z3.Array('hist', z3.BitVecSort(64), z3.BitVecSort(64))  # ghost: ip of executed op k
        self.n_param_hyps = len(st.pc)
        for c in nm.rep(st):
            st.assume(c)
        st.assume(st.M['f:mem_error'] == 0)
        self.entry = st
        self.head_label = [l for l in ex.lin.labels if l.endswith('.head')][-1]
        self.cut_labels = [c for c in self.CUTS if c in ex.lin.labels]
        if fname != 'run_measured_loop' and len(self.cut_labels) != len(self.CUTS):
            raise Undecided(f'{fname}: join labels {set(self.CUTS) - set(self.cut_labels)} not found (the loop was restructured)')
        ex.cuts = {self.head_label, *self.cut_labels}
        self.extra: List[Obl] = []

    def _install_cpython(self) -> None:
        ex = self.ex

        def reg(name, fn):
            ex.contracts[name] = lambda e, st, args, node: fn(e, st, args)

        def check_signals(e, st, a):
            yield (st, i32(0))
            s = st.fork()
            s.M['pyerr'] = z3.BoolVal(True)
            s.trace.append(('signal-fail',))
            yield (s, i32(-1))

        def call_write(e, st, a):
            arg = a[1]
            is_true = z3.BoolVal(isinstance(arg, Ptr) and arg.where == '_Py_TrueStruct')
            known = isinstance(arg, Ptr) and arg.where in ('_Py_TrueStruct', '_Py_FalseStruct') and isinstance(a[0], Ptr) and a[0].where == 'write_bit'
            s = st.fork()
            s.trace.append(('out', is_true, known))
            s.ghost['refs'] = s.ghost.get('refs', 0) + 1
            yield (s, Ptr('pyobj', 'call-result'))
            s2 = st.fork()
            s2.M['pyerr'] = z3.BoolVal(True)
            s2.trace.append(('out-fail', is_true, known))
            yield (s2, NULL)

        def call_read(e, st, a):
            ok_callee = isinstance(a[0], Ptr) and a[0].where == 'read_bit'
            s = st.fork()
            s.assume(self.in_avail)
            s.trace.append(('in', ok_callee))
            s.ghost['refs'] = s.ghost.get('refs', 0) + 1
            yield (s, Ptr('pyobj', 'read-result'))
            s1 = st.fork()
            s1.assume(z3.Not(self.in_avail))
            s1.M['pyerr'], s1.M['pyerr_is_eof'] = z3.BoolVal(True), z3.BoolVal(True)
            s1.trace.append(('in-eof', ok_callee))
            yield (s1, NULL)
            s2 = st.fork()
            s2.M['pyerr'], s2.M['pyerr_is_eof'] = z3.BoolVal(True), z3.BoolVal(False)
            s2.trace.append(('in-fail', ok_callee))
            yield (s2, NULL)

        def is_true(e, st, a):
            yield (st, z3.If(self.in_bit, i32(1), i32(0)))
            s = st.fork()
            s.M['pyerr'] = z3.BoolVal(True)
            s.trace.append(('istrue-fail',))
            yield (s, i32(-1))

        def decref(e, st, a):
            s = st.fork()
            s.ghost['refs'] = s.ghost.get('refs', 0) - 1
            yield (s, None)

        def exc_matches(e, st, a):
            e.oblige(st, 'call.PyErr_ExceptionMatches.requires_pending_exception', st.M['pyerr'], kind='contract-precondition')
            yield (st, z3.If(st.M['pyerr_is_eof'], i32(1), i32(0)))

        def err_clear(e, st, a):
            s = st.fork()
            s.M['pyerr'] = z3.BoolVal(False)
            yield (s, None)

        reg('PyErr_CheckSignals', check_signals)
        reg('PyObject_CallFunctionObjArgs', call_write)
        reg('PyObject_CallNoArgs', call_read)
        reg('PyObject_IsTrue', is_true)
        reg('Py_DECREF', decref)
        reg('PyErr_ExceptionMatches', exc_matches)
        reg('PyErr_Clear', err_clear)
        reg('monotonic_seconds', lambda e, st, a: iter([(st, ('double',))]))
        reg('free', lambda e, st, a: iter([(st, None)]))

        def spec_record(e, st, a):
            # [A] the speculation shadow table (measurement only): 0, or -1 with a python error (allocation)
            yield (st, i32(0))
            s = st.fork()
            s.M['pyerr'] = z3.BoolVal(True)
            s.trace.append(('alloc-fail',))
            yield (s, i32(-1))

        reg('spec_record', spec_record)
        for k in ('spec_ops', 'spec_first', 'spec_misses'):
            self.nm.st0.M['f:' + k] = z3.BitVec(k, 64)

    # ---- predicates
    def ring_inv(self, st: CState, n) -> List[Any]:
        if self.fname != 'run_paged_loop_impl' or not self.with_ring:
            return []
        L = st.vars['last_ops_length']
        rw = st.vars['ring_writes']
        k = z3.BitVec('k_ring', 64)
        # (the content relation ring[k % len] == ip of op k is not carried HERE: a symbolic modulus defeats bit-blasting;
        #  each op's own ring store is checked at the next cut, and props/ring_units.py carries the content relation from
        #  that per-op store to the list built by last_ops_ring_to_list, in exact integer arithmetic)
        return [rw == n]

    def head_inv(self, st: CState, n) -> List[Any]:
        nm = self.nm
        cs = [st.M['f:mem_error'] == 0, z3.Not(st.M['pyerr']), z3.ULE(st.vars['ip'], u64(nm.mask)), st.vars['ops'] == n, st.vars['cause'] == i32(-2)]
        if 'inner_left' in st.vars and self.fname != 'run_measured_loop':
            cs += [z3.UGE(st.vars['inner_left'], u64(1)), z3.ULE(st.vars['inner_left'], u64(1 << 18))]
        return cs + self.ring_inv(st, n)

    MEM = ('flat', 'pg_exists', 'pg_words', 'pg_valid_start', 'pg_valid_end', 'a:page_cache_key_plus1', 'a:page_cache_page', 'a:page_cache_words', 'a:page_cache_valid_start', 'a:page_cache_valid_end', 'a:page_cache_page#null', 'a:page_cache_words#null')
    CONST_LOCALS = ('start_ip', 'last_ops_length', 'bit_mask', 'dw', 'in_addr', 'in_lo_exclusive', 'flat_count', 'width', 'ww', 'out1', 'cause')

    def fresh_state(self, base: CState, tag: str, *, keep_ring: bool = False) -> CState:
        """an arbitrary state: memory, error fields and every non-constant local are fresh; Rep is assumed"""
        nm = self.nm
        s = base.fork()
        s.pc = list(self.entry.pc[: self.n_param_hyps])
        M = s.M
        for k in self.MEM + (() if keep_ring else ('ring',)):
            if k in M:
                M[k] = z3.Const(k.replace(':', '_').replace('#', '_') + '_' + tag, M[k].sort())
        for k in ('f:mem_error', 'f:error_bit_address', 'f:last_run_op_count'):
            M[k] = z3.BitVec(k[2:] + '_' + tag, M[k].size())
        M['pyerr'] = z3.Bool('pyerr_' + tag)
        for v, val in list(s.vars.items()):
            if isinstance(val, z3.BitVecRef) and v not in self.CONST_LOCALS and not v.startswith('@'):
                s.vars[v] = z3.BitVec(f'{v}_{tag}', val.size())
        s.trace, s.path, s.ghost = [], [tag], {}
        for c in nm.rep(s):
            s.assume(c)
        return s

    def common(self, s: CState) -> List[Any]:
        """what every mid-op cut keeps from the head"""
        h = self.h
        cs = [s.M['f:mem_error'] == 0, z3.Not(s.M['pyerr']), s.vars['ip'] == h.vars['ip'], s.vars['ops'] == self.n, s.vars['cause'] == i32(-2)]
        if 'inner_left' in s.vars and self.fname != 'run_measured_loop':
            cs.append(s.vars['inner_left'] == h.vars['inner_left'])
        if self.fname == 'run_paged_loop_impl' and self.with_ring:
            cs += [s.vars['ring_writes'] == self.n + 1, s.M['ring'] == z3.Store(h.M['ring'], z3.URem(self.n, h.vars['last_ops_length']), h.vars['ip'])]
        return cs

    def lane(self, s: CState, *, cached: bool) -> List[Any]:
        """relation of the fetch-lane locals to ip (what later segments rely on)"""
        nm, w = self.nm, self.w
        ip = self.h.vars['ip']
        aligned = (ip & u64(w - 1)) == 0
        wa = z3.LShR(ip, u64(nm.ww))
        if self.fname == 'run_flat_loop_impl':
            return [z3.If(aligned, s.vars['word_address'] == wa, s.vars['word_address'] == u64((1 << 64) - 2))]
        if self.fname != 'run_paged_loop_impl':
            return []
        cs: List[Any] = []
        ow = s.vars.get('op_words')
        hot = isinstance(ow, Ptr) and ow.kind == 'u64' and ow.where[0] == 'pagewords'
        slow = isinstance(ow, Ptr) and (ow.kind == 'null' or z3.is_true(z3.simplify(ow.null)))
        if not (hot or slow):
            raise Undecided('op_words is neither a cached page pointer nor NULL at a cut')
        if hot:
            P = z3.LShR(wa, u64(PAGE_BITS))
            cs += [z3.Not(ow.null), aligned, s.vars['word_address'] == wa, s.vars['op_offset'] == (wa & u64(PAGE_MASK)), s.vars['op_offset'] != u64(PAGE_MASK), s.vars['op_slot'] == (P & u64(15)),
                   z3.BoolVal(ow.where[0] == 'pagewords'), ow.where[1] == P if ow.where[0] == 'pagewords' else z3.BoolVal(False), (ow.where[2] == 0) if ow.where[0] == 'pagewords' else z3.BoolVal(False),
                   z3.Select(s.M['pg_exists'], P), z3.ULE(z3.Select(s.M['pg_valid_start'], P), s.vars['op_offset']), z3.ULT(s.vars['op_offset'], z3.Select(s.M['pg_valid_end'], P))]
            if self.with_ring:
                cs.append(z3.Not(s.M['flat_nonnull']))  # the ring clone takes the page lanes only without a flat array
            if 'op_valid_end' in s.vars:  # (a local of the repaired code: the op's own page bound)
                cs.append(s.vars['op_valid_end'] == z3.Select(s.M['pg_valid_end'], P))
            if cached:
                cs.append(z3.Select(s.M['a:page_cache_key_plus1'], P & u64(15)) == P + 1)
        if self.with_ring:
            fj = s.vars.get('op_flat_jump')
            if isinstance(fj, Ptr) and fj.kind == 'u64' and fj.where[0] == 'flat':
                cs += [z3.Not(fj.null), aligned, s.M['flat_nonnull'], fj.where[1] == wa + 1, z3.ULT(wa + 1, s.M['f:flat_count']), z3.BoolVal(slow)]
            elif not (isinstance(fj, Ptr) and (fj.kind == 'null' or z3.is_true(z3.simplify(fj.null)))):
                raise Undecided('op_flat_jump is neither a flat pointer nor NULL at a cut')
        return cs

    def lane_variants(self, s: CState) -> List[CState]:
        """the python-level shapes of the lane locals a segment can start with"""
        if self.fname != 'run_paged_loop_impl':
            return [s]
        nm = self.nm
        wa = z3.LShR(self.h.vars['ip'], u64(nm.ww))
        P = z3.LShR(wa, u64(PAGE_BITS))
        out = []
        hot = s.fork()
        hot.vars['op_words'] = Ptr('u64', ('pagewords', P, u64(0)))
        hot.vars['op_flat_jump'] = NULL
        hot.path.append('lane:hot')
        out.append(hot)
        slow = s.fork()
        slow.vars['op_words'] = NULL
        slow.vars['op_flat_jump'] = NULL
        slow.path.append('lane:slow')
        out.append(slow)
        if self.with_ring:
            fl = s.fork()
            fl.vars['op_words'] = NULL
            fl.vars['op_flat_jump'] = Ptr('u64', ('flat', wa + 1))
            fl.path.append('lane:flat')
            out.append(fl)
        else:
            for x in out:
                x.vars.pop('op_flat_jump', None)
                x.vars['op_flat_jump'] = NULL
        return out

    def cut_pred(self, label: str, s: CState) -> List[Any]:
        nm, sp = self.nm, self.spec
        f_ok = [z3.Not(sp.f_fault), _x(s.vars['f']) == sp.f]
        if label == 'flip_word_ready':
            return self.common(s) + f_ok + [self.mem_unchanged(s)] + self.lane(s, cached=True)
        io_done = [z3.Not(sp.eof), z3.Not(sp.in_fault)]
        if label == 'after_input':
            return self.common(s) + f_ok + io_done + [self.mem_is(s, sp.M1)] + self.lane(s, cached=True)
        if label == 'after_flip':
            return self.common(s) + f_ok + io_done + [z3.Not(sp.flip_fault), self.mem_is(s, sp.M2)] + self.lane(s, cached=False)
        if label == 'jump_word_ready':
            return self.common(s) + f_ok + io_done + [z3.Not(sp.flip_fault), z3.Not(sp.j_fault), _x(s.vars['j']) == sp.j, self.mem_is(s, sp.M2)]
        raise Undecided(f'no predicate for cut {label}')

    # ---- the proof
    def run(self) -> Dict[str, Any]:
        ex, nm, w = self.ex, self.nm, self.w
        extra = self.extra
        extra.append(Obl(f'{ex.name}:cover.requires', list(self.entry.pc), None, 'cover'))
        first = ex.run(self.entry, 0)
        heads = [s for s, wh in first if wh[0] == 'label' and wh[1] == self.head_label]
        for i, (s, wh) in enumerate(first):
            if wh[0] == 'return':
                extra += self.return_obligations(s, wh[1], None, f'init{i}')
            elif wh[1] != self.head_label:
                raise Undecided(f'cut {wh[1]} reached before the loop head')
        if not heads:
            raise Undecided('the loop head is not reached from the function entry')
        for i, s in enumerate(heads):
            for j, c in enumerate(self.head_inv(s, u64(0)) + [s.vars['ip'] == self.entry.vars['start_ip']]):
                extra.append(Obl(f'{ex.name}:init{i}.head_invariant[{j}]', list(s.pc), c))
        # an arbitrary op: head snapshot + spec
        h = self.fresh_state(heads[0], 'h')
        n = z3.BitVec('n_ops', 64)
        h.assume(z3.ULT(n, u64(1 << 62)))
        for c in self.head_inv(h, n):
            h.assume(c)
        if w == 64:
            corner = z3.UGT(h.vars['ip'], u64((1 << 64) - 1 - 2 * w))
            extra.append(Obl(f'{ex.name}:no_wrap_at_the_top_of_the_address_space', list(h.pc), z3.Not(corner), meta=dict(finding='F2'), witness_consts=dict(ip=[str(h.vars['ip'])])))
            h.assume(z3.Not(corner))
        self.h, self.n = h, n
        self.spec = _lift_spec(nm, h, h.vars['ip'], self.in_bit, self.in_avail)
        extra.append(Obl(f'{ex.name}:canary', list(h.pc), None, 'canary'))
        self.segment('head', [h], self.head_label)
        for lab in self.cut_labels:
            base = self.fresh_state(h, lab[:12])
            base.pc += [c for c in h.pc if c not in base.pc]  # the head snapshot's facts stay available
            starts = []
            for v in self.lane_variants(base):
                try:
                    for c in self.cut_pred(lab, v):
                        v.assume(c)
                except Undecided:
                    raise
                v.ghost['events_checked'] = lab != 'flip_word_ready'
                starts.append(v)
            self.segment(lab, starts, lab)
        sp = self.spec
        for nm_, c in (('fault_on_flip_fetch', sp.f_fault), ('eof', z3.And(z3.Not(sp.f_fault), sp.eof)), ('halt_looping', z3.And(sp.completes, sp.looping)), ('halt_nullip', z3.And(sp.completes, z3.Not(sp.looping), sp.nullip)), ('continues', z3.And(sp.completes, z3.Not(sp.looping), z3.Not(sp.nullip)))):
            extra.append(Obl(f'{ex.name}:cover.spec_case_{nm_}', list(h.pc) + [c], None, 'cover'))
        return finish_unit(_Unit(ex), extra)

    def segment(self, name: str, starts: List[CState], label: str) -> None:
        ex, nm = self.ex, self.nm
        k = 0
        for st in starts:
            self.extra.append(Obl(f'{ex.name}:{name}.start.cover[{"/".join(st.path[-1:])}]', list(st.pc), None, 'cover'))
            for s, wh in ex.run(st, label):
                tag = f'{name}.path{k}'
                k += 1
                self.extra.append(Obl(f'{ex.name}:{tag}.cover', list(s.pc), None, 'cover'))
                meta = dict(path='/'.join(s.path[-8:]))
                if wh[0] == 'return':
                    self.extra += self.return_obligations(s, wh[1], self.spec, tag, st)
                    continue
                nxt = wh[1]
                if nxt == self.head_label:
                    self.extra += self.back_edge_obligations(s, tag, st)
                    continue
                conds = self.cut_pred(nxt, s)
                if nxt == 'after_input':
                    conds += self.events_ok(s, 'all') if not st.ghost.get('events_checked') else [z3.BoolVal(not self.io_events(s))]
                elif nxt != 'flip_word_ready':
                    conds.append(z3.BoolVal(not self.io_events(s)) if st.ghost.get('events_checked') else z3.BoolVal(False))
                else:
                    conds.append(z3.BoolVal(not self.io_events(s)))
                conds.append(self.refs_balanced(s))
                self.extra.append(Obl(f'{ex.name}:{tag}.reaches_{nxt}_with_its_predicate', list(s.pc), z3.And(*conds), meta=meta))
                for nm_, c in nm.rep_changed(st, s):
                    self.extra.append(Obl(f'{ex.name}:{tag}.Rep.{nm_}', list(s.pc), c))
        if k == 0:
            raise Undecided(f'segment {name}: no paths')

    @staticmethod
    def io_events(s: CState) -> List[tuple]:
        return [e for e in s.trace if e[0] in ('out', 'out-fail', 'in', 'in-eof', 'in-fail')]

    # ---- conformance conditions
    def events_ok(self, s: CState, upto: str) -> List[Any]:
        sp = self.spec
        evs = self.io_events(s)
        outs = [e for e in evs if e[0].startswith('out')]
        ins = [e for e in evs if e[0].startswith('in')]
        ok_order = all(evs.index(o) < evs.index(i) for o in outs for i in ins) and len(outs) <= 1 and len(ins) <= 1
        cs = [z3.BoolVal(ok_order), sp.outputs == z3.BoolVal(len(outs) == 1)]
        for o in outs:
            cs += [o[1] == sp.out_bit, z3.BoolVal(bool(o[2]))]
        for i_ in ins:
            cs.append(z3.BoolVal(bool(i_[1])))
        if upto == 'all':
            cs.append(sp.reads == z3.BoolVal(len(ins) == 1))
        return cs

    def mem_is(self, s: CState, Mspec) -> Any:
        nm = self.nm
        a = z3.BitVec('a_mem', 64)
        return z3.ForAll([a], z3.Implies(z3.Select(nm.V, a), z3.Extract(nm.w - 1, 0, nm.absM(s, a)) == z3.Select(Mspec, a)))

    def mem_unchanged(self, s: CState) -> Any:
        nm = self.nm
        a = z3.BitVec('a_mem', 64)
        return z3.ForAll([a], z3.Implies(z3.Select(nm.V, a), nm.absM(s, a) == nm.absM(self.h, a)))

    def refs_balanced(self, s: CState) -> Any:
        return z3.BoolVal(s.ghost.get('refs', 0) == 0)

    def back_edge_obligations(self, s: CState, tag: str, start: CState) -> List[Obl]:
        ex, nm, sp, n = self.ex, self.nm, self.spec, self.n
        name = f'{ex.name}:{tag}.next_op'
        ev = [z3.BoolVal(not self.io_events(s))] if self.cut_labels else self.events_ok(s, 'all')
        conds = [sp.completes, z3.Not(sp.looping), z3.Not(sp.nullip), _x(s.vars['ip']) == sp.j, *ev, self.mem_is(s, sp.M2), self.refs_balanced(s)]
        obls = [Obl(f'{name}.one_op_of_the_machine_definition', list(s.pc), z3.And(*conds), meta=dict(path='/'.join(s.path[-8:])))]
        s2 = s.fork()
        s2.assume(z3.Select(self.hist, n) == self.h.vars['ip'])  # ghost history: op n ran at ip
        for j, c in enumerate(self.head_inv(s, n + 1)):
            obls.append(Obl(f'{name}.head_invariant[{j}]', list(s2.pc), c))
        for nm_, c in nm.rep_changed(start, s):
            obls.append(Obl(f'{name}.Rep.{nm_}', list(s.pc), c))
        return obls

    def return_obligations(self, s: CState, ret: Any, sp: Any, tag: str, start: Optional[CState] = None) -> List[Obl]:
        ex, nm = self.ex, self.nm
        name = f'{ex.name}:{tag}.exit'
        pc = list(s.pc)
        obls: List[Obl] = []
        ops_out = s.vars['@ops_out']
        common = [s.M['f:last_run_op_count'] == ops_out, s.M['f:mem_error'] == 0, self.refs_balanced(s)]
        for nm_, c in nm.rep_changed(start if start is not None else self.entry, s):
            obls.append(Obl(f'{name}.Rep.{nm_}', pc, c))
        if sp is None:  # left before the first op (signal poll failed)
            obls.append(Obl(f'{name}.before_first_op_only_on_python_error', pc, z3.And(ret == i32(-2), s.M['pyerr'], ops_out == 0, *common)))
            return obls
        n = self.n
        fails = [e[0] for e in s.trace if e[0] in ('out-fail', 'in-fail', 'istrue-fail', 'signal-fail', 'alloc-fail')]
        meta = dict(path='/'.join(s.path[-8:]))
        ret = z3.simplify(ret) if ret is not None else ret
        if ret is None or not z3.is_bv_value(ret):
            obls.append(Obl(f'{name}.returns_a_definite_cause', pc, z3.BoolVal(False), meta=meta))
            return obls
        cause = ret.as_signed_long()
        seen_events = bool(self.io_events(s))
        if cause == -2:
            conds = [s.M['pyerr'], z3.BoolVal(len(fails) >= 1)] + common
            if fails and fails[0] in ('out-fail', 'in-fail', 'istrue-fail'):
                conds += [ops_out == n, z3.Not(sp.f_fault), sp.outputs if fails[0] == 'out-fail' else sp.reads]
                if fails[0] != 'istrue-fail':
                    conds.append(self.mem_unchanged(s))
            elif fails and fails[0] == 'signal-fail':
                conds += [ops_out == n + 1, sp.completes, z3.Not(sp.looping), z3.Not(sp.nullip), self.mem_is(s, sp.M2)]
            else:
                conds += [z3.Or(ops_out == n, ops_out == n + 1)]
            obls.append(Obl(f'{name}.python_error_only_from_a_failed_call_at_a_consistent_point', pc, z3.And(*conds), meta=meta))
        elif cause == 1:  # TERM_EOF
            obls.append(Obl(f'{name}.EOF_as_the_machine_definition', pc, z3.And(z3.Not(sp.f_fault), sp.eof, ops_out == n, z3.Not(s.M['pyerr']), self.mem_unchanged(s), *(self.events_ok(s, 'output') + common)), meta=meta))
        elif cause in (0, 2):  # looping / null ip
            want = sp.looping if cause == 0 else z3.And(z3.Not(sp.looping), sp.nullip)
            ev = [z3.BoolVal(not seen_events)] if self.cut_labels else self.events_ok(s, 'all')
            obls.append(Obl(f'{name}.halt_as_the_machine_definition', pc, z3.And(sp.completes, want, ops_out == n + 1, z3.Not(s.M['pyerr']), self.mem_is(s, sp.M2), *ev, *common), meta=meta))
        elif cause == 3:  # memory error
            if not self.cut_labels:
                ev_ok = z3.If(sp.f_fault, z3.BoolVal(not seen_events), z3.And(*self.events_ok(s, 'all')))
            else:
                ev_ok = z3.BoolVal(not seen_events) if s.ghost.get('events_checked') or not seen_events else z3.If(sp.f_fault, z3.BoolVal(False), z3.And(*self.events_ok(s, 'all')))
            obls.append(Obl(f'{name}.memory_fault_as_the_machine_definition', pc, z3.And(sp.fault, z3.Not(z3.And(z3.Not(sp.f_fault), sp.eof)), _x(s.M['f:error_bit_address']) == sp.fault_addr, ops_out == n, z3.Not(s.M['pyerr']), ev_ok, *common), meta=meta))
        else:
            obls.append(Obl(f'{name}.unknown_cause_{cause}', pc, z3.BoolVal(False), meta=meta))
        if self.fname == 'run_paged_loop_impl':
            obls.append(Obl(f'{name}.ring_writes_reported', pc, s.vars['@rw'] == s.vars['ring_writes']))
        return obls


def unit_loop(fname: str, w: int, with_ring: int = 0) -> Dict[str, Any]:
    return NativeLoop(fname, w, with_ring).run()
