"""
C04 - hex library macros compute their documented function for every operand.

Level: exploration (bounded).  The macros are FlipJump source, not Python: no contract-based verifier reaches them
(DESIGN.md, section "STL").  What is decided here: each macro's CONTRACT (destination formula mod 16^n, branch
taken, frame = every other word of memory bit-identical) is written from its documentation line in contracts/fj/hex.py
and executed on the real library assembled by the real assembler, on the executable machine definition, over
exhaustive operand tuples for n <= 2 (sampled above), re-executing ONE assembled instance so that stale carry /
table state left by an execution is seen by the next one, and in compositions of macros on shared variables.

Sections
  1. single-macro contracts (contracts.fj.hex.contracts): every documented data macro, single-hex and vector forms,
     constant forms with several constants, jumping macros with all exits wired;
  2. compositions: sequences of 2-4 macro applications on the shared variables x, y, z, u (jumping macros in their
     branch-recording form): a rotation in which every macro is first, in the middle and last; in thorough also a
     cover of ALL ordered pairs (A directly followed by B) and random sequences (stl.random_compositions);
  3. table obligations: every entry of the or / and / cmp / add / sub tables and every reachable
     (b, carry-in, res, a) state of the mul tables, driven through the single-hex macros over their complete domain.

This module carries its own harness subclass (bounded.stl is shared with C05/C08/C09 and is not edited):
- SEVERAL macro applications per assembled program, each behind its own entry label (assembling the library's tables
  is what costs time); all of them run on one machine image, so what one leaves behind is seen by the others;
- frame exemption for the scratch vectors a macro declares in its own body, and for the data bits of "the hex at
  address 0" (the library's null `next` operand of the one-bit shifts);
- a `packed` variable kind (4n consecutive bits: the `address` operand of hex.address_and_variable_xor);
- a write-tracking memory (the frame check costs O(ops) instead of O(memory));
- `stl.startup` instead of `stl.startup_and_init_all` on the 16-bit machine; position-unique labels;
- a seed that does not depend on the interpreter's string hashing; an operation budget per sampled contract.
"""

from __future__ import annotations

import collections
import contextlib
import importlib
import io
import itertools
import random
import re
import tempfile
import zlib
from pathlib import Path
from typing import Any, Dict, List, Sequence, Tuple

from bounded import stl
from bounded.stl import MacroContract, Var
from contracts.fj import hex as hexc
from spec.machine import Machine
from vc.common import Report, Violation, main_wrapper

PROP = 'C04'

OP_BUDGET = {'quick': 400_000, 'thorough': 2_000_000}  # per sampled (contract, width): executed ops, not wall clock
TUPLE_LIMIT = {'quick': 400, 'thorough': 6000}
COMP_LIMIT = {'quick': 400, 'thorough': 250}  # operand tuples per composition
BATCH = {'quick': 10, 'thorough': 8}  # macro applications per assembled program


def _bits(v: Var) -> int:
    return 1 if v.kind == 'bit' else 4


def _range(v: Var) -> int:
    return 2**v.n if v.kind == 'bit' else 16**v.n


class TrackMem(dict):
    """the machine's word store, remembering the first-seen value of every word written since `old` was cleared"""

    def __init__(self, *a: Any):
        super().__init__(*a)
        self.old: Dict[int, int] = {}

    def __setitem__(self, k: int, v: int) -> None:
        if k not in self.old:
            self.old[k] = self.get(k, 0)
        dict.__setitem__(self, k, v)


class SkipWidth(Exception):
    pass


class HexHarness(stl.Harness):
    """one assembled program:  prelude;  again<k>: <call k> ;done  <exits of k>: ;done  ...  done: stl.loop;  variables"""

    def __init__(self, cs: Sequence[MacroContract], w: int, td: Path):  # noqa: super().__init__ not called (it fixes the source text)
        self.cs, self.w = list(cs), w
        self.c = self.cs[0]
        prelude = 'stl.startup' if w == 16 else 'stl.startup_and_init_all'
        lines = [prelude]
        self.vars: Dict[str, Var] = {}
        self.exit_names: List[Dict[str, str]] = []
        for k, c in enumerate(self.cs):
            call = c.call
            ren = {e: f'ex{k}_{e}' for e in c.exits}
            for e, r in ren.items():
                call = re.sub(rf'\b{e}\b', r, call)
            self.exit_names.append(ren)
            lines += [f'again{k}:', '  ' + call, '  ;done']
            for r in ren.values():
                lines += [f'{r}:', '  ;done']
            for nm, v in c.vars.items():
                if nm in self.vars:
                    assert (self.vars[nm].kind, self.vars[nm].n) == (v.kind, v.n), f'{nm}: shapes differ inside one program'
                self.vars[nm] = v
        lines += ['done:', '  stl.loop']
        for nm, v in self.vars.items():
            lines.append(f'{nm}: ;0' if v.kind == 'packed' else f'{nm}: {"hex" if v.kind == "hex" else "bit"}.vec {v.n}')
        for c in self.cs:
            if c.extra_decl:
                lines.append(c.extra_decl)
        self.source = self._uniq('\n'.join(lines) + '\n', itertools.count())
        flipjump = importlib.import_module('flipjump')
        R = importlib.import_module('flipjump.fjm.fjm_reader')
        U = importlib.import_module('flipjump.utils.functions')
        src = td / 'h.fj'
        src.write_text(self.source)
        out, dbg = td / 'h.fjm', td / 'h.fjd'
        try:
            with contextlib.redirect_stdout(io.StringIO()):
                flipjump.assemble([src], out, memory_width=w, debugging_file_path=dbg, print_time=False, warning_as_errors=False)
        except Exception as e:
            if w == 16 and 'Not enough space' in str(e):
                raise SkipWidth(str(e)[:100])
            raise
        rd = R.Reader(out)
        self.labels = U.load_debugging_labels(dbg)
        segs = [(s.segment_start, s.segment_length) for s in rd.memory_segments]
        self.m = Machine(w, segs, dict(rd.memory))
        self.m.mem = TrackMem(self.m.mem)
        self.dbit = w.bit_length()
        self.addr = {
            nm: self._label(nm)
            for nm in list(self.vars)
            + ['done']
            + [f'again{k}' for k in range(len(self.cs))]
            + [r for ren in self.exit_names for r in ren.values()]
        }
        self.out_bits: List[bool] = []
        self.inp_bits: List[bool] = []
        self.m.last = collections.deque(maxlen=8)
        starts = sorted(self.addr[f'again{k}'] for k in range(len(self.cs))) + [self.addr['done']]
        self.allowed: List[Dict[int, int]] = []
        for k, c in enumerate(self.cs):
            lo = self.addr[f'again{k}']
            hi = min(s for s in starts if s > lo)
            al = self._var_words(c)
            al[0] = al.get(0, 0) | 1  # `;x` is `0;x`: bit 0 of word 0 is the language's own scratch bit
            al[1] = al.get(1, 0) | (0xF << self.dbit)  # the data bits of "the hex at address 0" (the null operand of the library)
            for spec in c.frame_exempt:
                macro, label, kind, cells = spec.split('/')
                pat = re.compile(r'(^|:)' + re.escape(macro) + r'\(\d+\)---' + re.escape(label) + '$')
                hits = [a for nm, a in self.labels.items() if lo <= a < hi and pat.search(nm)]
                if not hits:
                    raise KeyError(f'frame_exempt {spec}: no such label inside `{c.call}`')
                mask = ((1 << (4 if kind == 'hex' else 1)) - 1) << self.dbit
                for a in hits:
                    for i in range(int(cells)):
                        al[(a + i * 2 * w) // w + 1] = mask
            self.allowed.append(al)
        self._run_until({self.addr['again0']}, 5_000_000)
        self.pristine = dict(self.m.mem)

    def reset(self) -> None:
        """back to the state right after the startup code (used after a violation: the next contract starts clean)"""
        self.m.mem = TrackMem(self.pristine)

    def _label(self, nm: str) -> int:
        if nm in self.labels:
            return self.labels[nm]
        return super()._label(nm)

    @staticmethod
    def _uniq(text: str, cnt: Any) -> str:
        """@U -> a label prefix unique to the call it stands in (a call's last line is its `@U_end:` / `@U_e:` line)"""
        out, k = [], next(cnt)
        for line in text.split('\n'):
            out.append(line.replace('@U', f'uq{k}'))
            if '@U_end:' in line or '@U_e:' in line:
                k = next(cnt)
        return '\n'.join(out)

    # ---- variables (with the packed kind: ONE cell holding 4n consecutive data bits)
    def read(self, nm: str) -> int:
        v = self.vars[nm]
        if v.kind == 'packed':
            return (self.m.mem.get(self.cell_word(nm, 0), 0) >> self.dbit) & ((1 << (4 * v.n)) - 1)
        bits = _bits(v)
        val = 0
        for i in range(v.n):
            val |= ((self.m.mem.get(self.cell_word(nm, i), 0) >> self.dbit) & ((1 << bits) - 1)) << (i * bits)
        return val

    def poke(self, nm: str, value: int) -> None:
        v = self.vars[nm]
        if v.kind == 'packed':
            a = self.cell_word(nm, 0)
            mask = ((1 << (4 * v.n)) - 1) << self.dbit
            self.m.mem[a] = (self.m.mem.get(a, 0) & ~mask) | ((value << self.dbit) & mask)
            return
        bits = _bits(v)
        for i in range(v.n):
            a = self.cell_word(nm, i)
            cell = (value >> (i * bits)) & ((1 << bits) - 1)
            self.m.mem[a] = (self.m.mem.get(a, 0) & ~(((1 << bits) - 1) << self.dbit)) | (cell << self.dbit)

    def _var_words(self, c: MacroContract) -> Dict[int, int]:
        out: Dict[int, int] = {}
        for nm, v in c.vars.items():
            if v.kind == 'packed':
                assert self.dbit + 4 * v.n <= self.w, 'packed variable does not fit in one word'
                out[self.cell_word(nm, 0)] = ((1 << (4 * v.n)) - 1) << self.dbit
                continue
            for i in range(v.n):
                out[self.cell_word(nm, i)] = ((1 << _bits(v)) - 1) << self.dbit
        return out

    def run_once(self, k: int, vals: Dict[str, int]) -> Dict[str, Any]:  # type: ignore[override]
        c, m = self.cs[k], self.m
        for nm, x in vals.items():
            self.poke(nm, x)
        self.out_bits = []
        self.inp_bits = []
        m.mem.old = {}
        m.ip = self.addr[f'again{k}']
        visited_exit = None
        stops = {self.addr[r]: e for e, r in self.exit_names[k].items()}
        n0 = m.n
        res = None
        step, rd, wr = m.step, self._rd, self.out_bits.append
        for _ in range(c.max_ops):
            if visited_exit is None and m.ip in stops:
                visited_exit = stops[m.ip]
            res = step(rd, wr)
            if res is not None:
                break
        got = {nm: self.read(nm) for nm in c.vars}
        ok_halt = res is not None and res[0] == 'looping' and m.ip == self.addr['done']
        changed = []
        allowed = self.allowed[k]
        for a, b0 in m.mem.old.items():
            b1 = m.mem.get(a, 0)
            if b0 != b1 and (b0 ^ b1) & ~allowed.get(a, 0):
                changed.append(a)
        return dict(
            values=got,
            exit=visited_exit,
            halted=ok_halt,
            result=res,
            ops=m.n - n0,
            frame_broken=sorted(changed)[:4],
            out_bits=len(self.out_bits),
        )


def default_domain(c: MacroContract, rng: random.Random, limit: int) -> Tuple[List[Dict[str, int]], bool]:
    """bounded.stl.default_domain, with the packed kind; also says whether the tuples are ALL tuples"""
    names = [nm for nm, v in c.vars.items() if v.role != 'out']
    sizes = [_range(c.vars[nm]) if c.vars[nm].kind != 'packed' else 16 ** c.vars[nm].n for nm in names]
    total = 1
    for s in sizes:
        total *= s
    tuples: List[Dict[str, int]] = []
    exhaustive = total <= limit
    if exhaustive:
        for combo in itertools.product(*[range(s) for s in sizes]):
            tuples.append(dict(zip(names, combo)))
    else:
        corners = [[0, 1, s - 1, s // 2, s // 2 - 1] for s in sizes]
        cs = [dict(zip(names, [x % s for x, s in zip(combo, sizes)])) for combo in itertools.product(*corners)]
        rng.shuffle(cs)
        tuples = cs[: limit // 2]
        while len(tuples) < limit:
            tuples.append({nm: rng.randrange(s) for nm, s in zip(names, sizes)})
    rng.shuffle(tuples)  # the ORDER matters: state leaks show between consecutive executions
    for t in tuples:
        for nm, v in c.vars.items():
            if v.role == 'out':
                t[nm] = rng.randrange(16**v.n if v.kind != 'bit' else 2**v.n)
    return tuples, exhaustive


def check_in(h: HexHarness, k: int, tier: str, seed: int, limit: int) -> Dict[str, Any]:
    """all operand tuples of contract k of the program, on the machine image as the previous contract left it"""
    c, w = h.cs[k], h.w
    rng = random.Random(zlib.crc32(f'{c.name}|{c.call}|{w}|{seed}'.encode()))
    res: Dict[str, Any] = dict(evals=0, viols=[], note=None, exhaustive=False, ops=0)
    if c.domain:
        tuples, exhaustive = list(c.domain(rng)), bool(getattr(c.domain, 'all_tuples', False))
    else:
        tuples, exhaustive = default_domain(c, rng, limit)
    res['exhaustive'] = exhaustive
    budget = None if exhaustive else OP_BUDGET[tier]
    for vals in tuples:
        if c.requires and not c.requires(vals):
            continue
        if budget is not None and res['ops'] > budget and res['evals'] >= 24:
            break
        r = h.run_once(k, vals)
        res['evals'] += 1
        res['ops'] += r['ops']
        want = dict(vals)
        want.update(c.post(vals))
        why = None
        if not r['halted']:
            why = f'did not come back to `done` ({r["result"]}, {r["ops"]} ops)'
        else:
            for nm, v in c.vars.items():
                mod = 16**v.n if v.kind != 'bit' else 2**v.n
                if r['values'][nm] != want[nm] % mod:
                    why = f'{nm} = {r["values"][nm]:#x}, documented: {want[nm] % mod:#x}'
                    break
            if why is None and c.exit_ is not None and r['exit'] != c.exit_(vals):
                why = f'took exit {r["exit"]}, documented: {c.exit_(vals)}'
            if why is None and c.exit_ is None and c.exits and r['exit'] is not None:
                why = f'took exit {r["exit"]} although none is documented'
            if why is None and r['frame_broken']:
                names = [nm[-80:] for nm, a in h.labels.items() if any(a // w <= x <= a // w + 1 for x in r['frame_broken'])][:3]
                why = f'changed memory outside its destinations: words {r["frame_broken"]} {names}'
            if why is None and r['out_bits']:
                why = f'wrote {r["out_bits"]} output bits, documented: none'
        if why:
            key = next((fk for pre, fk in hexc.FINDING_KEYS.items() if c.name.startswith(pre)), f'{c.name}:{why.split(" ")[0]}')
            others = [x.call.split('\n')[0] for j, x in enumerate(h.cs) if j < k]
            res['viols'].append(
                Violation(
                    f'bounded:{c.name}.contract',
                    f'{c.call} (w={w}) on {({nm: hex(x) for nm, x in vals.items()})}: {why}   [doc: {c.doc}]',
                    dict(
                        call=c.call,
                        w=w,
                        operands=vals,
                        source=h.source,
                        entry=f'again{k}',
                        executions_of_this_entry_before=res['evals'] - 1,
                        entries_run_before_on_this_image=others,
                    ),
                    True,
                    key=key,
                )
            )
            h.reset()
            return res
    return res


def check_batch(cs: Sequence[MacroContract], w: int, tier: str, seed: int, limit: int) -> List[Dict[str, Any]]:
    blank = lambda: dict(evals=0, viols=[], note=None, exhaustive=False, ops=0)  # noqa: E731
    with tempfile.TemporaryDirectory() as tds:
        try:
            h = HexHarness(cs, w, Path(tds))
        except SkipWidth as e:
            if len(cs) > 1:  # does not fit together: one by one
                return [check_batch([c], w, tier, seed, limit)[0] for c in cs]
            r = blank()
            r['note'] = f'{cs[0].name}: `{cs[0].call.splitlines()[0]}` does not fit a {w}-bit memory ({e}) - skipped at this width'
            return [r]
        except Exception as e:
            if len(cs) > 1:  # find the one that does not assemble
                return [check_batch([c], w, tier, seed, limit)[0] for c in cs]
            r = blank()
            c = cs[0]
            r['viols'].append(
                Violation(
                    f'bounded:{c.name}.harness_assembles',
                    f'{c.call} (w={w}): the harness program does not assemble: {type(e).__name__}: {str(e)[:300]}',
                    dict(call=c.call, w=w),
                    True,
                    key=f'{c.name}:assemble',
                )
            )
            return [r]
        return [check_in(h, k, tier, seed, limit) for k in range(len(cs))]


_JOBS: List[Tuple[List[MacroContract], int, str, int, int]] = []


def _one(idx: int) -> List[Dict[str, Any]]:
    cs, w, tier, seed, limit = _JOBS[idx]
    try:
        return check_batch(cs, w, tier, seed, limit)
    except Exception as e:  # a crash of the harness itself is reported as such
        import traceback

        c = cs[0]
        v = Violation(
            f'bounded:{c.name}.harness',
            f'{c.call} (w={w}): harness error {type(e).__name__}: {e}',
            dict(calls=[x.call for x in cs], trace=traceback.format_exc()[-800:]),
            False,
            key=f'{c.name}:harness',
        )
        return [dict(evals=0, viols=[v] if k == 0 else [], note=None, exhaustive=False, ops=0) for k in range(len(cs))]


def _cost(c: MacroContract) -> int:
    return (50 if c.domain else 1) * min(c.max_ops, 3_000_000)


def make_batches(contracts: Sequence[MacroContract], size: int) -> List[Tuple[List[MacroContract], int]]:
    """(contracts of one program, width): programs of up to BATCH applications whose variables agree in shape; big-domain
    contracts and everything at w=16 (no tables: assembly is cheap, memory is tiny) stay alone"""
    out: List[Tuple[List[MacroContract], int]] = []
    for w in sorted({w for c in contracts for w in c.widths}, reverse=True):
        mine = [c for c in contracts if w in c.widths]
        bins: List[List[MacroContract]] = []
        for c in mine:
            if w == 16 or (c.domain is not None and not c.name.startswith('table:hex.')) or c.name.startswith('table:hex.add_mul'):
                out.append(([c], w))
                continue
            for b in reversed(bins[-6:]):
                shapes = {nm: (v.kind, v.n) for x in b for nm, v in x.vars.items()}
                if len(b) < size and all(shapes.get(nm, (v.kind, v.n)) == (v.kind, v.n) for nm, v in c.vars.items()):
                    b.append(c)
                    break
            else:
                bins.append([c])
        out.extend((b, w) for b in bins)
    return out


def run_sections(
    rep: Report, sections: Sequence[Tuple[str, str, Sequence[MacroContract], int]], tier: str, seed: int, procs: int = 16
) -> List[str]:
    """sections: (title, domain text, contracts, tuple limit).  ONE pool for all of them (no idle tail between sections);
    returns the notes about widths that were skipped."""
    import multiprocessing as mp

    global _JOBS
    jobs = []
    for si, (_, _, contracts, limit) in enumerate(sections):
        size = max(4, BATCH[tier] // 2) if si == 1 else BATCH[tier]  # compositions are several macros each
        jobs += [(cs, w, tier, seed, limit, si) for cs, w in make_batches(contracts, size)]
    jobs.sort(key=lambda j: -sum(_cost(c) for c in j[0]))  # the expensive ones first, so that the pool drains evenly
    _JOBS = [j[:5] for j in jobs]  # contracts hold lambdas: the forked workers read them from here, only indices are pickled
    ctx = mp.get_context('fork')
    with ctx.Pool(max(1, min(procs, len(jobs)))) as pool:
        results = pool.map(_one, range(len(jobs)), chunksize=1)
    skipped: List[str] = []
    seen_keys = set()
    for si, (title, domain_text, contracts, limit) in enumerate(sections):
        evals = ops = nex = napp = nprog = 0
        widths = set()
        for (cs, w, *_, sj), rs in zip(jobs, results):
            if sj != si:
                continue
            nprog += 1
            for c, r in zip(cs, rs):
                napp += 1
                evals += r['evals']
                ops += r['ops']
                nex += 1 if r['exhaustive'] and r['evals'] else 0
                if r['evals']:
                    widths.add(w)
                if r['note']:
                    skipped.append(r['note'])
                for v in r['viols']:
                    if (v.obligation, v.key) not in seen_keys:  # one line per contract and kind, not one per width
                        seen_keys.add((v.obligation, v.key))
                        rep.violation(v)
        rep.add_bounded(
            f'{PROP}: {title}',
            f'{len(contracts)} applications, {napp} (application, width) runs in {nprog} assembled programs, {nex} runs over ALL their operand tuples; {domain_text}; widths {sorted(widths)}',
            evals,
            evals,
            machine_ops=ops,
        )
    return sorted(set(skipped))


def compose(parts: Sequence[MacroContract], widths: Tuple[int, ...]) -> MacroContract:
    """stl.compose + the union of the parts' frame exemptions (stl.compose drops them)"""
    c = stl.compose(parts)
    c.frame_exempt = tuple(sorted({e for p in parts for e in p.frame_exempt}))
    c.widths = widths
    return c


def _macro(name: str) -> str:
    return re.sub(r'\[.*?\]', '', name)


def compositions(singles: Sequence[MacroContract], tier: str, seed: int) -> Tuple[List[MacroContract], Dict[str, Any]]:
    rng = random.Random(seed * 104729 + 5)
    thorough = tier == 'thorough'
    out: List[MacroContract] = []
    info: Dict[str, Any] = {}
    alt = itertools.cycle([(64,), (32,)])
    for n in (1, 2, 3) if thorough else (1, 2):
        pool = hexc.composable(singles, n)
        # one representative per macro name for the structured covers (the constant variants go into the random part)
        reps: Dict[str, MacroContract] = {}
        for c in pool:
            reps.setdefault(_macro(c.name), c)
        names = sorted(reps)
        rng.shuffle(names)
        k = len(names)
        # rotation: every macro is first, later and last of some sequence
        for i in range(k):
            seq = [reps[names[(i + d) % k]] for d in range(2 + i % 3)]
            out.append(compose(seq, (64, 32) if thorough else next(alt)))
        npairs = 0
        if thorough and n == 2:
            # ALL ordered pairs (A directly followed by B), packed into paths of 4: a greedy walk over the unused edges
            unused = {(a, b) for a in names for b in names}
            npairs = len(unused)
            order = sorted(unused)
            rng.shuffle(order)
            for a, b in order:
                if (a, b) not in unused:
                    continue
                path = [a, b]
                unused.discard((a, b))
                while len(path) < 4:
                    nxt = [d for d in names if (path[-1], d) in unused]
                    if not nxt:
                        break
                    d = rng.choice(nxt)
                    unused.discard((path[-1], d))
                    path.append(d)
                out.append(compose([reps[x] for x in path], next(alt)))
        # random sequences over the whole pool (constant variants included)
        base = [c for c in pool if c.max_ops <= hexc.DIV_OPS * 3 + 200]
        for length, count in ((2, 60), (3, 50), (4, 40)) if thorough else ((2, 6), (3, 5), (4, 4)):
            rc = stl.random_compositions(base, length, count, seed * 31 + n * 7 + length)
            for c in rc:
                # stl.compose drops the exemptions: recover them from the calls of the parts
                c.frame_exempt = tuple(sorted({e for p in base if p.frame_exempt and p.call in c.call for e in p.frame_exempt}))
                c.widths = next(alt)
            out.extend(rc)
        info[f'n={n}'] = dict(macros=k, pool=len(pool), ordered_pairs_covered=npairs)
    # first / later coverage of the non-jumping and recorded macros
    first, later = set(), set()
    for c in out:
        parts = c.name[4:-1].split(' ; ')
        first.add(_macro(parts[0]))
        later.update(_macro(p) for p in parts[1:])
    info['macros_first'] = len(first)
    info['macros_later'] = len(later)
    info['only_first_or_only_later'] = sorted(first ^ later)
    return out, info


def canaries(rep: Report, seed: int) -> None:
    """the harness must be able to say no: three deliberately WRONG contracts (value, exit, frame) have to be refuted"""
    H = hexc.H
    wrong = [
        MacroContract(
            'canary.value',
            'hex.add 2, x, y',
            {'x': H(2), 'y': H(2, 'in')},
            lambda v: {'x': v['x'] + v['y'] + (v['y'] == 0x80)},
            doc='(wrong on purpose)',
        ),
        MacroContract(
            'canary.exit',
            'hex.if 2, x, l0, l1',
            {'x': H(2, 'in')},
            lambda v: {},
            exits=('l0', 'l1'),
            exit_=lambda v: 'l0' if v['x'] in (0, 0x10) else 'l1',
            doc='(wrong on purpose)',
        ),
        MacroContract(
            'canary.frame',
            'hex.inc 2, y\n  hex.zero 2, x',
            {'x': H(2)},
            lambda v: {'x': 0},
            extra_decl='y: hex.vec 2',
            doc='(wrong on purpose)',
        ),
    ]
    for c, r in zip(wrong, check_batch(wrong, 64, 'quick', seed, TUPLE_LIMIT['quick'])):
        if not r['viols'] or (c.name == 'canary.frame' and 'changed memory outside' not in r['viols'][0].what):
            rep.undecide(
                f'obligation=bounded:{c.name} reason=the harness accepted a deliberately wrong contract ({c.call!r}): its verdicts cannot be trusted'
            )
    rep.extra['canaries_refuted'] = [c.name for c in wrong]


def body(tier: str, seed: int) -> int:
    rep = Report(PROP, 'quick' if tier.startswith('replay') else tier, seed, 'exploration', f'./check {PROP} --tier {tier}')
    t = 'thorough' if tier == 'thorough' else 'quick'
    limit = TUPLE_LIMIT[t]
    canaries(rep, seed)
    singles = hexc.contracts(t, seed)
    comps, info = compositions(singles, t, seed)
    tabs, doms = hexc.table_contracts(t, seed)
    skipped = run_sections(
        rep,
        [
            (
                'single-macro contracts executed on the real assembled library (machine definition as the engine)',
                f'operand tuples exhaustive where their number is <= {limit} (n <= 2 with one or two operands, n = 1 with three; n = 2 pairs in the '
                f'`(all pairs)` contracts of thorough), corners + random beyond, cut at {OP_BUDGET[t]} executed ops per run; shuffled order, consecutive '
                'executions on ONE assembled instance so that leaked state shows; frame = all of memory but the destinations data bits',
                singles,
                limit,
            ),
            (
                'compositions of 2-4 macro applications on shared variables x, y, z, u, t',
                f'{info}; up to {COMP_LIMIT[t]} operand tuples each (corners + random)',
                comps,
                COMP_LIMIT[t],
            ),
            (
                'lookup tables of hex.init driven over their complete operand domain',
                '; '.join(f'{a}: {b} ({n} tuples)' for a, b, n in doms),
                tabs,
                limit,
            ),
        ],
        t,
        seed,
    )
    rep.extra['macros_under_contract'] = sorted({re.sub(r'\[.*?\]|\(.*?\)| n=.*$', '', c.name).strip() for c in singles})
    rep.extra['contract_applications'] = len(singles)
    rep.extra['compositions'] = dict(count=len(comps), **info)
    rep.extra['table_domains'] = [dict(table=a, domain=b, tuples=n) for a, b, n in doms]
    rep.extra['skipped_widths'] = skipped
    rep.extra['not_under_contract'] = hexc.NOT_UNDER_CONTRACT
    rep.assume(
        '[B] bounded: operand tuples exhaustive only where the product of the operand ranges is small; vector lengths and widths are the listed ones; sequences of macro applications are the listed covers, not all sequences'
    )
    rep.assume(
        'the scratch vectors a macro declares in its own body (hex.div: _a _b _r i; hex.idiv: negative_a negative_b one_negative; hex.mul: dst src a_1bits b_1bits; hex.scmp: ba bb) are not program variables: their data bits may change, nothing else of those cells'
    )
    rep.assume(
        "the data bits of the cell at address 0 (the jump word of the startup op, never executed again) are the library's null `next` operand: hex.shl_bit / hex.shr_bit (hence mul10, div, idiv) flip them; not a program variable"
    )
    rep.assume(
        'w=16: only macros whose documentation requires no table initialisation are run there, after `stl.startup` (stl.startup_and_init_all cannot be assembled in a 16-bit memory: "Not enough space")'
    )
    rep.trust(
        'spec/machine.py as the engine (C01 relates the real engines to it); the real assembler and reader produce the image (C02, C06, C15)'
    )
    return rep.finish()


if __name__ == '__main__':
    main_wrapper(PROP, body)
